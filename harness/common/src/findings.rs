//! /verif/known-findings.txt: committed, never written at run time.
//!
//! Line formats (one per line, `#` starts a comment):
//!   finding: property=<ID> sig=<signature> :: <what fails>
//!   fixed: property=<ID> <commit> <what failed>
//! `sig` runs up to the ` :: ` separator and is compared for equality with the
//! failing case's classifier signature. `fixed:` lines suppress nothing.

use std::path::PathBuf;

#[derive(Clone, Debug)]
pub struct Entry {
    pub property: String,
    pub sig: String,
    pub what: String,
}

#[derive(Clone, Debug, Default)]
pub struct Known {
    entries: Vec<Entry>,
}

impl Known {
    pub fn load(property: &str) -> Known {
        let path = PathBuf::from(crate::VERIF_ROOT).join("known-findings.txt");
        let text = std::fs::read_to_string(path).unwrap_or_default();
        let mut entries = vec![];
        for line in text.lines() {
            let line = line.trim();
            let Some(rest) = line.strip_prefix("finding:") else {
                continue;
            };
            let rest = rest.trim();
            let Some(rest) = rest.strip_prefix("property=") else {
                continue;
            };
            let (prop, rest) = match rest.split_once(' ') {
                Some(x) => x,
                None => continue,
            };
            if prop != property {
                continue;
            }
            let rest = rest.trim();
            let Some(rest) = rest.strip_prefix("sig=") else {
                continue;
            };
            let (sig, what) = match rest.split_once(" :: ") {
                Some((s, w)) => (s.trim().to_string(), w.trim().to_string()),
                None => (rest.trim().to_string(), String::new()),
            };
            entries.push(Entry {
                property: prop.to_string(),
                sig,
                what,
            });
        }
        Known { entries }
    }

    pub fn matches(&self, sig: &str) -> bool {
        self.entries.iter().any(|e| e.sig == sig)
    }

    pub fn has(&self, sig: &str) -> bool {
        self.matches(sig)
    }

    pub fn entries(&self) -> &[Entry] {
        &self.entries
    }
}
