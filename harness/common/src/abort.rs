//! A guest that panics with `panic = "abort"`, or panics inside an `extern "C"` function, kills
//! the process; `catch_unwind` cannot see that. The case being executed is kept in a static
//! buffer; a SIGABRT/SIGSEGV handler writes it out as a replay file, prints the FAILURE and
//! VIOLATION lines and exits with status 1, so that a crash of the code under test is reported
//! like any other failure of the case that caused it.
use std::sync::atomic::{AtomicUsize, Ordering};

extern "C" {
    fn signal(sig: i32, handler: usize) -> usize;
    fn _exit(code: i32) -> !;
    fn write(fd: i32, buf: *const u8, n: usize) -> isize;
    fn open(path: *const u8, flags: i32, mode: u32) -> i32;
    fn close(fd: i32) -> i32;
}

const CAP: usize = 1 << 18;
static mut CUR: [u8; CAP] = [0; CAP];
static CUR_LEN: AtomicUsize = AtomicUsize::new(0);
static mut PATH: [u8; 256] = [0; 256];
static mut HEAD: [u8; 512] = [0; 512];
static HEAD_LEN: AtomicUsize = AtomicUsize::new(0);
static mut LINE: [u8; 512] = [0; 512];
static LINE_LEN: AtomicUsize = AtomicUsize::new(0);

thread_local! {
    /// per-thread case description (checks whose cases run on worker threads)
    static TL: std::cell::Cell<(*mut u8, usize)> = const { std::cell::Cell::new((std::ptr::null_mut(), 0)) };
}

/// like `set_current`, for the calling thread only
pub fn set_current_tl(json: &str) {
    TL.with(|c| {
        let (mut p, _) = c.get();
        if p.is_null() {
            p = Box::leak(vec![0u8; CAP].into_boxed_slice()).as_mut_ptr();
        }
        let n = json.len().min(CAP);
        unsafe { std::ptr::copy_nonoverlapping(json.as_ptr(), p, n) };
        c.set((p, if json.len() <= CAP { n } else { 0 }));
    })
}

pub fn clear_tl() {
    TL.with(|c| c.set((c.get().0, 0)))
}

extern "C" fn on_crash(_: i32) {
    unsafe {
        let (tp, tn) = TL.try_with(|c| c.get()).unwrap_or((std::ptr::null_mut(), 0));
        if tn > 0 {
            let fd = open(std::ptr::addr_of!(PATH) as *const u8, 0o1 | 0o100 | 0o1000, 0o644);
            if fd >= 0 {
                write(fd, std::ptr::addr_of!(HEAD) as *const u8, HEAD_LEN.load(Ordering::Relaxed));
                write(fd, tp, tn);
                write(fd, b"}\n".as_ptr(), 2);
                close(fd);
            }
            write(1, std::ptr::addr_of!(LINE) as *const u8, LINE_LEN.load(Ordering::Relaxed));
            _exit(1);
        }
        let n = CUR_LEN.load(Ordering::Relaxed);
        if n > 0 {
            // O_WRONLY | O_CREAT | O_TRUNC
            let fd = open(std::ptr::addr_of!(PATH) as *const u8, 0o1 | 0o100 | 0o1000, 0o644);
            if fd >= 0 {
                write(fd, std::ptr::addr_of!(HEAD) as *const u8, HEAD_LEN.load(Ordering::Relaxed));
                write(fd, std::ptr::addr_of!(CUR) as *const u8, n);
                write(fd, b"}\n".as_ptr(), 2);
                close(fd);
            }
            write(1, std::ptr::addr_of!(LINE) as *const u8, LINE_LEN.load(Ordering::Relaxed));
            _exit(1);
        }
        // a crash while no case of the code under test runs is the harness's own
        _exit(2);
    }
}

/// install the handler; `sub` is the sub-check name stored in the replay file
pub fn install(id: &str, sub: &str, seed: u64) {
    let path = format!("/verif/out/replay/{id}-crash-{}.json\0", std::process::id());
    let head = format!("{{\"property\":\"{id}\",\"sub\":\"{sub}\",\"seed\":{seed},\"failure\":{{\"sig\":\"guest-crash\",\"msg\":\"the process aborted or segfaulted while this case was being executed (panic in generated code built with panic=abort or inside an extern C function, or a memory error)\"}},\"case\":");
    let line = format!("FAILURE sub={sub} sig=guest-crash :: the process aborted or segfaulted while the code under test executed a case (its description is saved)\nVIOLATION property={id} replay={}\n", &path[..path.len() - 1]);
    let _ = std::fs::create_dir_all("/verif/out/replay");
    unsafe {
        std::ptr::copy_nonoverlapping(path.as_ptr(), std::ptr::addr_of_mut!(PATH) as *mut u8, path.len().min(255));
        std::ptr::copy_nonoverlapping(head.as_ptr(), std::ptr::addr_of_mut!(HEAD) as *mut u8, head.len().min(512));
        HEAD_LEN.store(head.len().min(512), Ordering::Relaxed);
        std::ptr::copy_nonoverlapping(line.as_ptr(), std::ptr::addr_of_mut!(LINE) as *mut u8, line.len().min(512));
        LINE_LEN.store(line.len().min(512), Ordering::Relaxed);
        signal(6, on_crash as usize);
        signal(11, on_crash as usize);
        signal(7, on_crash as usize);
    }
}

/// the JSON description of the case about to be executed
pub fn set_current(json: &str) {
    let n = json.len().min(CAP);
    unsafe {
        std::ptr::copy_nonoverlapping(json.as_ptr(), std::ptr::addr_of_mut!(CUR) as *mut u8, n);
    }
    // a description that does not fit is stored as a JSON string of its head
    CUR_LEN.store(if json.len() <= CAP { n } else { 0 }, Ordering::Relaxed);
}

pub fn clear() {
    CUR_LEN.store(0, Ordering::Relaxed);
}
