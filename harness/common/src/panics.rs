//! Panic capture with location, per thread, without noisy stderr output.

use std::cell::RefCell;
use std::panic::{self, UnwindSafe};
use std::sync::Once;

#[derive(Clone, Debug)]
pub struct PanicInfo {
    pub message: String,
    /// `file:line` with the /repo prefix stripped
    pub location: String,
}

impl PanicInfo {
    pub fn render(&self) -> String {
        format!("panic at {}: {}", self.location, self.message)
    }
}

thread_local! {
    static LAST: RefCell<Option<PanicInfo>> = const { RefCell::new(None) };
    static CAPTURING: RefCell<u32> = const { RefCell::new(0) };
}

static HOOK: Once = Once::new();

pub fn install_hook() {
    HOOK.call_once(|| {
        let prev = panic::take_hook();
        panic::set_hook(Box::new(move |info| {
            let capturing = CAPTURING.with(|c| *c.borrow() > 0);
            let message = if let Some(s) = info.payload().downcast_ref::<&str>() {
                s.to_string()
            } else if let Some(s) = info.payload().downcast_ref::<String>() {
                s.clone()
            } else {
                "<non-string panic payload>".to_string()
            };
            let location = info
                .location()
                .map(|l| {
                    let f = l.file();
                    let f = f.strip_prefix("/repo/").unwrap_or(f);
                    format!("{}:{}", f, l.line())
                })
                .unwrap_or_else(|| "<unknown>".into());
            if std::env::var("VERIF_BACKTRACE").is_ok() {
                eprintln!("panic at {location}: {message}\n{}", std::backtrace::Backtrace::force_capture());
            }
            if capturing {
                LAST.with(|l| *l.borrow_mut() = Some(PanicInfo { message, location }));
            } else {
                prev(info);
            }
        }));
    });
}

/// Run `f`, converting a panic into `Err(PanicInfo)`.
pub fn catch<R>(f: impl FnOnce() -> R + UnwindSafe) -> Result<R, PanicInfo> {
    install_hook();
    CAPTURING.with(|c| *c.borrow_mut() += 1);
    let r = panic::catch_unwind(f);
    CAPTURING.with(|c| *c.borrow_mut() -= 1);
    match r {
        Ok(v) => Ok(v),
        Err(_) => Err(LAST.with(|l| l.borrow_mut().take()).unwrap_or(PanicInfo {
            message: "<panic without captured info>".into(),
            location: "<unknown>".into(),
        })),
    }
}

/// Location with the line number removed (`crates/x/src/lib.rs`), for
/// signatures that should survive unrelated edits.
pub fn file_of(location: &str) -> &str {
    location.rsplit_once(':').map(|x| x.0).unwrap_or(location)
}
