//! Shared runner for every /verif check: argument parsing, seeded proptest
//! driving (parallel workers, deterministic per VERIF_SEED), evidence files,
//! replay files, known findings.
//!
//! Exit codes: 0 = held on everything explored, 1 = VIOLATION printed,
//! 2 = harness error / inconclusive (never a violation).

use proptest::strategy::{Strategy, ValueTree};
use proptest::test_runner::{Config, RngSeed, TestCaseError, TestError, TestRunner};
use serde::de::DeserializeOwned;
use serde::Serialize;
use serde_json::{json, Value};
use std::cell::RefCell;
use std::collections::{BTreeMap, BTreeSet};
use std::fmt::Debug;
use std::hash::{Hash, Hasher};
use std::path::PathBuf;
use std::sync::atomic::{AtomicBool, Ordering};
use std::sync::Mutex;
use std::time::Instant;

pub mod abort;
pub mod findings;
pub mod panics;

pub use findings::Known;
pub use proptest;
pub use serde_json;

pub const VERIF_ROOT: &str = "/verif";
/// Fixed number of generator workers so that a run is a function of
/// VERIF_SEED only (not of the machine's core count).
pub const WORKERS: u32 = 8;

#[derive(Clone, Copy, PartialEq, Eq, Debug)]
pub enum Tier {
    Quick,
    Thorough,
}

impl Tier {
    pub fn name(self) -> &'static str {
        match self {
            Tier::Quick => "quick",
            Tier::Thorough => "thorough",
        }
    }
    /// pick a budget by tier
    pub fn pick<T>(self, quick: T, thorough: T) -> T {
        match self {
            Tier::Quick => quick,
            Tier::Thorough => thorough,
        }
    }
}

#[derive(Clone, Debug)]
pub struct Args {
    pub id: String,
    pub tier: Tier,
    pub replay: Option<PathBuf>,
    pub seed: u64,
    pub rest: Vec<String>,
}

/// `<bin> <ID> <quick|thorough>` or `<bin> <ID> --replay <file>`.
pub fn parse_args() -> Args {
    let argv: Vec<String> = std::env::args().skip(1).collect();
    if argv.is_empty() {
        eprintln!("usage: <ID> <quick|thorough> | <ID> --replay <file>");
        std::process::exit(2);
    }
    let id = argv[0].clone();
    let mut tier = match std::env::var("VERIF_TIER").ok().as_deref() {
        Some("thorough") => Tier::Thorough,
        _ => Tier::Quick,
    };
    let mut replay = None;
    let mut rest = vec![];
    let mut i = 1;
    while i < argv.len() {
        match argv[i].as_str() {
            "quick" => tier = Tier::Quick,
            "thorough" => tier = Tier::Thorough,
            "--replay" => {
                i += 1;
                replay = Some(PathBuf::from(argv.get(i).cloned().unwrap_or_else(|| {
                    eprintln!("--replay needs a path");
                    std::process::exit(2)
                })));
            }
            other => rest.push(other.to_string()),
        }
        i += 1;
    }
    let seed = std::env::var("VERIF_SEED")
        .ok()
        .and_then(|s| s.trim().parse::<i128>().ok())
        .map(|v| v as u64)
        .unwrap_or(0);
    // 0 means "default": remap to a fixed non-zero constant.
    let seed = if seed == 0 { 0x5eed_0001 } else { seed };
    Args {
        id,
        tier,
        replay,
        seed,
        rest,
    }
}

/// A property failure. `sig` is the classifier signature matched against
/// /verif/known-findings.txt; it must identify the root cause specifically.
#[derive(Clone, Debug, Serialize, serde::Deserialize)]
pub struct Failure {
    pub sig: String,
    pub msg: String,
}

impl Failure {
    pub fn new(sig: impl Into<String>, msg: impl Into<String>) -> Failure {
        Failure {
            sig: sig.into(),
            msg: msg.into(),
        }
    }
}

pub type CaseResult = Result<(), Failure>;

#[macro_export]
macro_rules! fail {
    ($sig:expr, $($arg:tt)*) => {
        return Err($crate::Failure::new($sig, format!($($arg)*)))
    };
}

#[macro_export]
macro_rules! ensure {
    ($cond:expr, $sig:expr, $($arg:tt)*) => {
        if !($cond) {
            return Err($crate::Failure::new($sig, format!($($arg)*)));
        }
    };
}

/// Per-case observations filled in by the property body.
#[derive(Default)]
pub struct Obs {
    /// Some(hash) if the case is non-trivial by the check's rule; the hash
    /// identifies the case's class so that distinct ones can be counted.
    pub nontrivial: Option<u64>,
    pub labels: Vec<String>,
    /// how many inner evaluations this case performed (default 1)
    pub evals: u64,
    /// optional compact rendering of the case for the evidence samples
    pub sample: Option<Value>,
    /// further failures of the same case (each is triaged on its own)
    pub extra_failures: Vec<Failure>,
}

impl Obs {
    pub fn label(&mut self, l: impl Into<String>) {
        self.labels.push(l.into());
    }
    pub fn nontrivial_by<H: Hash>(&mut self, h: &H) {
        self.nontrivial = Some(hash_of(h));
    }
    pub fn mark_nontrivial(&mut self, h: u64) {
        self.nontrivial = Some(h);
    }
}

pub fn hash_of<H: Hash>(h: &H) -> u64 {
    // FNV-1a based deterministic hasher (DefaultHasher::new() is SipHash with
    // fixed keys and is deterministic too, but keep it explicit).
    struct Fnv(u64);
    impl Hasher for Fnv {
        fn finish(&self) -> u64 {
            self.0
        }
        fn write(&mut self, bytes: &[u8]) {
            for b in bytes {
                self.0 ^= *b as u64;
                self.0 = self.0.wrapping_mul(0x100000001b3);
            }
        }
    }
    let mut f = Fnv(0xcbf29ce484222325);
    h.hash(&mut f);
    f.finish()
}

#[derive(Default)]
struct Stats {
    evaluations: u64,
    cases: u64,
    nontrivial: BTreeSet<u64>,
    labels: BTreeMap<String, u64>,
    samples: Vec<Value>,
    known_hits: BTreeMap<String, u64>,
    sub: BTreeMap<String, Value>,
    survey: BTreeMap<String, (u64, String)>,
}

pub struct Check {
    pub id: String,
    pub tier: Tier,
    pub seed: u64,
    pub replay: Option<(String, Value)>,
    start: Instant,
    stats: Mutex<Stats>,
    pub known: Known,
    violations: Vec<(String, Failure)>,
    pub rule: String,
    pub assumptions: Vec<String>,
    pub extra: BTreeMap<String, Value>,
    pub exhaustive: bool,
    pub level: String,
    notes: Vec<String>,
}

#[derive(Serialize, serde::Deserialize)]
pub struct ReplayFile {
    pub property: String,
    pub sub: String,
    pub seed: u64,
    pub failure: Option<Failure>,
    pub case: Value,
}

impl Check {
    pub fn new(args: &Args) -> Check {
        panics::install_hook();
        let replay = args.replay.as_ref().map(|p| {
            let text = std::fs::read_to_string(p).unwrap_or_else(|e| {
                eprintln!("cannot read replay file {}: {e}", p.display());
                std::process::exit(2)
            });
            let rf: ReplayFile = serde_json::from_str(&text).unwrap_or_else(|e| {
                eprintln!("cannot parse replay file {}: {e}", p.display());
                std::process::exit(2)
            });
            (rf.sub, rf.case)
        });
        Check {
            id: args.id.clone(),
            tier: args.tier,
            seed: args.seed,
            replay,
            start: Instant::now(),
            stats: Mutex::new(Stats::default()),
            known: Known::load(&args.id),
            violations: vec![],
            rule: String::new(),
            assumptions: vec![],
            extra: BTreeMap::new(),
            exhaustive: false,
            level: "exploration".into(),
            notes: vec![],
        }
    }

    pub fn is_replay(&self) -> bool {
        self.replay.is_some()
    }

    pub fn note(&mut self, s: impl Into<String>) {
        let s = s.into();
        println!("NOTE {s}");
        self.notes.push(s);
    }

    pub fn sub_seed(&self, sub: &str, worker: u32) -> u64 {
        hash_of(&(self.seed, &self.id, sub, worker))
    }

    fn absorb(&self, sub: &str, obs: Obs) {
        let mut st = self.stats.lock().unwrap();
        st.cases += 1;
        st.evaluations += obs.evals.max(1);
        if let Some(h) = obs.nontrivial {
            st.nontrivial.insert(hash_of(&(sub, h)));
        }
        for l in obs.labels {
            *st.labels.entry(format!("{sub}:{l}")).or_insert(0) += 1;
        }
        if let Some(s) = obs.sample {
            let n = st.samples.iter().filter(|v| v["sub"] == sub).count();
            if n < 4 {
                st.samples.push(json!({"sub": sub, "case": s}));
            }
        }
    }

    /// Handle one failure: known finding => counted and tolerated (Ok),
    /// otherwise Err.
    fn triage(&self, f: Failure) -> Result<(), Failure> {
        if self.replay.is_none() && !self.known.matches(&f.sig) && std::env::var("VERIF_SURVEY").is_ok() {
            // development aid: collect every distinct signature instead of stopping
            let mut st = self.stats.lock().unwrap();
            let e = st.survey.entry(f.sig.clone()).or_insert((0, f.msg.clone()));
            e.0 += 1;
            if f.msg.len() < e.1.len() {
                e.1 = f.msg.clone();
            }
            return Ok(());
        }
        if self.replay.is_none() && self.known.matches(&f.sig) {
            let mut st = self.stats.lock().unwrap();
            *st.known_hits.entry(f.sig.clone()).or_insert(0) += 1;
            Ok(())
        } else {
            Err(f)
        }
    }

    /// Run `f` on one explicit case (enumerations, regression replays,
    /// corpus entries). No shrinking.
    pub fn case<T: Serialize>(
        &mut self,
        sub: &str,
        case: &T,
        f: impl FnOnce(&T, &mut Obs) -> CaseResult,
    ) {
        if self.replay.is_some() {
            return;
        }
        let mut obs = Obs::default();
        let r = match panics::catch(std::panic::AssertUnwindSafe(|| f(case, &mut obs))) {
            Ok(r) => r,
            Err(p) => Err(panic_failure(p)),
        };
        let mut all = std::mem::take(&mut obs.extra_failures);
        if obs.sample.is_none() {
            // explicit cases are samples of themselves (absorb keeps at most 4 per sub)
            let mut txt = serde_json::to_string(case).unwrap_or_default();
            if txt.len() > 600 {
                txt.truncate(600);
                txt.push_str("...");
                obs.sample = Some(Value::String(txt));
            } else {
                obs.sample = serde_json::from_str(&txt).ok();
            }
        }
        self.absorb(sub, obs);
        if let Err(fl) = r {
            all.push(fl);
        }
        for fl in all {
            if let Err(fl) = self.triage(fl) {
                self.record_violation(sub, serde_json::to_value(case).unwrap_or(Value::Null), fl);
            }
        }
    }

    /// `case` for many explicit cases, evaluated on WORKERS threads; results are
    /// absorbed in input order, so the outcome does not depend on scheduling.
    pub fn cases_par<T: Serialize + Sync>(&mut self, sub: &str, cases: &[T], f: impl Fn(&T, &mut Obs) -> CaseResult + Sync) {
        if self.replay.is_some() {
            return;
        }
        let next = std::sync::atomic::AtomicUsize::new(0);
        let results: Mutex<Vec<(usize, Obs, CaseResult)>> = Mutex::new(vec![]);
        std::thread::scope(|scope| {
            for _ in 0..WORKERS.min(cases.len().max(1) as u32) {
                let (next, results, f) = (&next, &results, &f);
                std::thread::Builder::new()
                    .stack_size(64 << 20)
                    .spawn_scoped(scope, move || loop {
                        let i = next.fetch_add(1, Ordering::Relaxed);
                        if i >= cases.len() {
                            break;
                        }
                        let mut obs = Obs::default();
                        let r = match panics::catch(std::panic::AssertUnwindSafe(|| f(&cases[i], &mut obs))) {
                            Ok(r) => r,
                            Err(p) => Err(panic_failure(p)),
                        };
                        results.lock().unwrap().push((i, obs, r));
                    })
                    .unwrap();
            }
        });
        let mut results = results.into_inner().unwrap();
        results.sort_by_key(|r| r.0);
        for (i, obs, r) in results {
            // reuse the sequential path for bookkeeping
            let mut obs = Some(obs);
            self.case(sub, &cases[i], |_, o| {
                *o = obs.take().unwrap();
                r
            });
        }
    }

    fn record_violation(&mut self, sub: &str, case: Value, fl: Failure) {
        // one violation per (sub, sig) is enough
        if self
            .violations
            .iter()
            .any(|(s, f)| s == sub && f.sig == fl.sig)
        {
            return;
        }
        let dir = PathBuf::from(VERIF_ROOT).join("out/replay");
        let _ = std::fs::create_dir_all(&dir);
        let rf = ReplayFile {
            property: self.id.clone(),
            sub: sub.to_string(),
            seed: self.seed,
            failure: Some(fl.clone()),
            case,
        };
        let text = serde_json::to_string_pretty(&rf).unwrap();
        let path = dir.join(format!("{}-{:016x}.json", self.id, hash_of(&text)));
        if let Err(e) = std::fs::write(&path, &text) {
            eprintln!("cannot write replay file: {e}");
        }
        println!("FAILURE sub={sub} sig={} :: {}", fl.sig, fl.msg);
        println!("VIOLATION property={} replay={}", self.id, path.display());
        self.violations.push((sub.to_string(), fl));
    }

    /// Generated-input search: `cases` cases from `strat`, spread over WORKERS
    /// deterministic workers, shrinking the first failure of each worker.
    pub fn prop<T, S>(
        &mut self,
        sub: &str,
        mk: impl Fn() -> S + Sync,
        cases: u32,
        f: impl Fn(&T, &mut Obs) -> CaseResult + Sync,
    ) where
        T: Debug + Serialize + DeserializeOwned + Send,
        S: Strategy<Value = T>,
    {
        if let Some((rsub, case)) = &self.replay {
            if rsub != sub {
                return;
            }
            let v: T = match serde_json::from_value(case.clone()) {
                Ok(v) => v,
                Err(e) => {
                    eprintln!("replay case does not deserialize for sub {sub}: {e}");
                    std::process::exit(2)
                }
            };
            let mut obs = Obs::default();
            let r = match panics::catch(std::panic::AssertUnwindSafe(|| f(&v, &mut obs))) {
                Ok(r) => r,
                Err(p) => Err(panic_failure(p)),
            };
            let mut all = std::mem::take(&mut obs.extra_failures);
            self.absorb(sub, obs);
            if let Err(fl) = r {
                all.push(fl);
            }
            if all.is_empty() {
                println!("REPLAY sub={sub}: case passes");
            }
            let case = case.clone();
            for fl in all {
                self.record_violation(sub, case.clone(), fl);
            }
            return;
        }

        let workers = if cases < WORKERS * 4 { 1 } else { WORKERS };
        let per = cases / workers;
        let stop = AtomicBool::new(false);
        let auto_samples = std::sync::atomic::AtomicU32::new(0);
        let found: Mutex<Vec<(Value, Failure)>> = Mutex::new(vec![]);
        let this = &*self;
        std::thread::scope(|scope| {
            for w in 0..workers {
                let mk = &mk;
                let f = &f;
                let stop = &stop;
                let auto_samples = &auto_samples;
                let found = &found;
                let n = if w == 0 { cases - per * (workers - 1) } else { per };
                std::thread::Builder::new()
                    .stack_size(64 << 20)
                    .spawn_scoped(scope, move || {
                        let cfg = Config {
                            cases: n,
                            failure_persistence: None,
                            rng_seed: RngSeed::Fixed(this.sub_seed(sub, w)),
                            max_shrink_iters: SHRINK_ITERS.load(std::sync::atomic::Ordering::Relaxed),
                            max_global_rejects: 1 << 20,
                            verbose: 0,
                            ..Config::default()
                        };
                        let mut runner = TestRunner::new(cfg);
                        let strat = mk();
                        let failed = std::cell::Cell::new(false);
                        let last_fail: RefCell<Option<Failure>> = RefCell::new(None);
                        let res = runner.run(&strat, |v| {
                            if stop.load(Ordering::Relaxed) && !failed.get() {
                                // another worker already found a failure: finish fast
                                return Ok(());
                            }
                            let mut obs = Obs::default();
                            let r = match panics::catch(std::panic::AssertUnwindSafe(|| {
                                f(&v, &mut obs)
                            })) {
                                Ok(r) => r,
                                Err(p) => Err(panic_failure(p)),
                            };
                            if !failed.get() {
                                // make sure the evidence shows real cases even when the
                                // property body does not render any itself
                                if obs.sample.is_none()
                                    && obs.nontrivial.is_some()
                                    && auto_samples.load(Ordering::Relaxed) < 3
                                {
                                    auto_samples.fetch_add(1, Ordering::Relaxed);
                                    let mut txt = serde_json::to_string(&v).unwrap_or_default();
                                    if txt.len() > 600 {
                                        txt.truncate(600);
                                        txt.push_str("...");
                                        obs.sample = Some(Value::String(txt));
                                    } else {
                                        obs.sample = serde_json::from_str(&txt).ok();
                                    }
                                }
                                let extra = std::mem::take(&mut obs.extra_failures);
                                this.absorb(sub, obs);
                                // every failure of the case is triaged on its own, so that a
                                // listed known finding never masks a different violation
                                let mut all = extra;
                                if let Err(fl) = r {
                                    all.push(fl);
                                }
                                let mut first_unknown = None;
                                for fl in all {
                                    if let Err(fl) = this.triage(fl) {
                                        if first_unknown.is_none() {
                                            first_unknown = Some(fl);
                                        }
                                    }
                                }
                                return match first_unknown {
                                    None => Ok(()),
                                    Some(fl) => {
                                        failed.set(true);
                                        stop.store(true, Ordering::Relaxed);
                                        *last_fail.borrow_mut() = Some(fl.clone());
                                        Err(TestCaseError::fail(fl.msg))
                                    }
                                };
                            }
                            // while shrinking: only keep shrinking towards the same root
                            // cause, and never count known findings
                            let mut all = std::mem::take(&mut obs.extra_failures);
                            if let Err(fl) = r {
                                all.push(fl);
                            }
                            let want = last_fail.borrow().as_ref().map(|l| l.sig.clone());
                            match all.into_iter().find(|fl| !this.known.matches(&fl.sig) && want.as_ref().map(|w| *w == fl.sig).unwrap_or(true)) {
                                None => Ok(()),
                                Some(fl) => {
                                    *last_fail.borrow_mut() = Some(fl.clone());
                                    Err(TestCaseError::fail(fl.msg))
                                }
                            }
                        });
                        match res {
                            Ok(()) => {}
                            Err(TestError::Fail(_, v)) => {
                                let fl = last_fail
                                    .borrow()
                                    .clone()
                                    .unwrap_or_else(|| Failure::new("unknown", "unknown"));
                                found
                                    .lock()
                                    .unwrap()
                                    .push((serde_json::to_value(&v).unwrap_or(Value::Null), fl));
                            }
                            Err(TestError::Abort(r)) => {
                                eprintln!("HARNESS: generator aborted in {sub}: {r}");
                                std::process::exit(2);
                            }
                        }
                    })
                    .unwrap();
            }
        });
        let mut found = found.into_inner().unwrap();
        // deterministic choice: smallest serialized case first
        found.sort_by_key(|(v, _)| v.to_string().len());
        for (v, fl) in found {
            self.record_violation(sub, v, fl);
        }
    }

    /// Draw one value from a strategy deterministically (for setup that is not a
    /// property itself).
    pub fn draw<T: Debug, S: Strategy<Value = T>>(&self, sub: &str, strat: &S, n: usize) -> Vec<T> {
        let cfg = Config {
            failure_persistence: None,
            rng_seed: RngSeed::Fixed(self.sub_seed(sub, 999)),
            ..Config::default()
        };
        let mut runner = TestRunner::new(cfg);
        (0..n)
            .map(|_| strat.new_tree(&mut runner).expect("generation").current())
            .collect()
    }

    pub fn set_sub_info(&self, sub: &str, v: Value) {
        self.stats.lock().unwrap().sub.insert(sub.to_string(), v);
    }

    pub fn add_sample(&self, sub: &str, v: Value) {
        let mut st = self.stats.lock().unwrap();
        st.samples.push(json!({"sub": sub, "case": v}));
    }

    pub fn violations(&self) -> usize {
        self.violations.len()
    }

    /// Run the committed regression replays under /verif/replay/<ID>/ through
    /// `f(sub, case)`.
    pub fn regression_files(&self) -> Vec<ReplayFile> {
        let dir = PathBuf::from(VERIF_ROOT).join("replay").join(&self.id);
        let mut out = vec![];
        if let Ok(rd) = std::fs::read_dir(&dir) {
            let mut paths: Vec<_> = rd.flatten().map(|e| e.path()).collect();
            paths.sort();
            for p in paths {
                if p.extension().map(|e| e == "json").unwrap_or(false) {
                    if let Ok(t) = std::fs::read_to_string(&p) {
                        match serde_json::from_str::<ReplayFile>(&t) {
                            Ok(rf) => out.push(rf),
                            Err(e) => {
                                eprintln!("HARNESS: bad regression file {}: {e}", p.display());
                                std::process::exit(2);
                            }
                        }
                    }
                }
            }
        }
        out
    }

    /// Write evidence, print KNOWN-FINDING lines and exit.
    pub fn finish(self) -> ! {
        let wall = self.start.elapsed().as_secs_f64();
        let st = self.stats.into_inner().unwrap();
        for (sig, (n, msg)) in &st.survey {
            println!("SURVEY {n:6} x {sig}\n{}\n", msg.chars().take(2500).collect::<String>());
        }
        for k in self.known.entries() {
            let hits = st.known_hits.get(&k.sig).copied().unwrap_or(0);
            println!(
                "KNOWN-FINDING: property={} {} [sig={}; hit {} time(s) in this run]",
                self.id, k.what, k.sig, hits
            );
        }
        let mut coverage = serde_json::Map::new();
        coverage.insert("evaluations".into(), json!(st.evaluations));
        coverage.insert("cases".into(), json!(st.cases));
        coverage.insert("distinct_nontrivial".into(), json!(st.nontrivial.len()));
        coverage.insert("rule".into(), json!(self.rule));
        coverage.insert("samples".into(), json!(st.samples));
        coverage.insert("labels".into(), json!(st.labels));
        coverage.insert("known_findings_hit".into(), json!(st.known_hits));
        if !st.sub.is_empty() {
            coverage.insert("subchecks".into(), json!(st.sub));
        }
        if self.exhaustive {
            coverage.insert("exhaustive".into(), json!(true));
        }
        if !self.notes.is_empty() {
            coverage.insert("notes".into(), json!(self.notes));
        }
        for (k, v) in self.extra {
            coverage.insert(k, v);
        }
        let ev = json!({
            "property_id": self.id,
            "tier": self.tier.name(),
            "seed": self.seed as i64,
            "level": self.level,
            "coverage": coverage,
            "assumptions": self.assumptions,
            "wall_s": (wall * 1000.0).round() / 1000.0,
            "violations": self.violations.len(),
        });
        if self.replay.is_none() {
            let dir = PathBuf::from(VERIF_ROOT).join("evidence");
            let _ = std::fs::create_dir_all(&dir);
            // a second engine flavour serving the same property writes next to the main file
            let suffix = std::env::var("VERIF_EVIDENCE_SUFFIX").unwrap_or_default();
            let path = dir.join(format!("{}{}.json", self.id, suffix));
            if let Err(e) = std::fs::write(&path, serde_json::to_string_pretty(&ev).unwrap() + "\n")
            {
                eprintln!("HARNESS: cannot write evidence: {e}");
                std::process::exit(2);
            }
        }
        println!(
            "SUMMARY property={} tier={} seed={} cases={} evaluations={} distinct_nontrivial={} known_hits={} violations={} wall_s={:.1}",
            self.id,
            self.tier.name(),
            self.seed,
            st.cases,
            st.evaluations,
            st.nontrivial.len(),
            st.known_hits.values().sum::<u64>(),
            self.violations.len(),
            wall
        );
        if self.violations.is_empty() {
            if st.nontrivial.len() < 2 && self.replay.is_none() {
                eprintln!("HARNESS: fewer than 2 distinct non-trivial cases — generator problem");
                std::process::exit(2);
            }
            std::process::exit(0)
        } else {
            std::process::exit(1)
        }
    }
}

/// A panic raised from harness source (not from /repo code or its
/// dependencies) is a harness bug: exit 2, never a violation.
fn panic_failure(p: panics::PanicInfo) -> Failure {
    let file = panics::file_of(&p.location);
    if std::path::Path::new(VERIF_ROOT).join("harness").join(file).exists() {
        eprintln!("HARNESS ERROR: panic in harness code: {}", p.render());
        std::process::exit(2);
    }
    Failure::new(format!("panic {}", p.location), p.render())
}

/// shrink budget per failing worker; checks whose cases cost a compiler run lower it
pub static SHRINK_ITERS: std::sync::atomic::AtomicU32 = std::sync::atomic::AtomicU32::new(4000);

pub fn harness_error(msg: impl AsRef<str>) -> ! {
    eprintln!("HARNESS ERROR: {}", msg.as_ref());
    std::process::exit(2)
}

/// Monotone index mapping so that shrinking a u16 towards 0 shrinks the index.
pub fn pick_idx(raw: u16, len: usize) -> usize {
    if len == 0 {
        return 0;
    }
    ((raw as usize) * len) >> 16
}
