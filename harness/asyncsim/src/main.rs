//! Engine E: the Rust async guest runtime (crates/guest-rust/src/rt/async_support) driven
//! natively against a mock component-model host (C18..C23).
//!
//! A scenario = channel/import specifications + one or two guest programs + a host schedule.
//! The real runtime executes the guest programs as component tasks (`start_task` + `callback`,
//! or `block_on`); the mock host plays the peer of every stream/future/subtask and records
//! every protocol violation; the guest interpreter compares what the runtime reports with what
//! the host transferred.
mod alloc_track;
mod guest;
mod host;
mod payload;
mod sched;

use guest::{ChanSpec, GOp, How, Mode};
use host::h;
use proptest::prelude::*;
use sched::HostAct;
use serde::{Deserialize, Serialize};
use std::sync::Mutex;
use vcommon::{CaseResult, Check, Failure, Obs};
use wit_bindgen::rt::async_support as rt;

#[global_allocator]
static A: alloc_track::Tracking = alloc_track::Tracking;

/// the runtime keeps process-wide state (`static mut SPAWNED`): scenarios run one at a time
static SERIAL: Mutex<()> = Mutex::new(());

#[derive(Clone, Debug, Hash, Serialize, Deserialize)]
pub struct Scenario {
    pub chans: Vec<ChanSpec>,
    /// status the call of import i returns at once: 0 STARTING, 1 STARTED, 2 RETURNED
    pub subs: Vec<u8>,
    pub tasks: Vec<Vec<GOp>>,
    pub sched: Vec<HostAct>,
    /// host actions performed after every callback return, whether or not events are pending
    pub pace: u8,
    /// run task 0 with `block_on` instead of `start_task`/`callback`
    pub block_on: bool,
    /// cancel the tasks (EVENT_CANCEL) after this many callbacks in total (0 = never)
    pub cancel_after: u8,
    /// the scheduled cancellation concerns this task only
    pub cancel_only: Option<u8>,
}

// ------------------------------------------------------------------ generators

fn host_act(nch: usize, nsub: usize) -> BoxedStrategy<HostAct> {
    let c = 0..(nch.max(1) as u8);
    let mut v: Vec<(u32, BoxedStrategy<HostAct>)> = vec![
        (4, (c.clone(), 1u8..6, prop::bool::weighted(0.2)).prop_map(|(c, n, then_drop)| HostAct::Take { c, n, then_drop }).boxed()),
        (4, (c.clone(), 1u8..6, prop::bool::weighted(0.2)).prop_map(|(c, n, then_drop)| HostAct::Give { c, n, then_drop }).boxed()),
        (1, c.clone().prop_map(|c| HostAct::DropEnd { c }).boxed()),
    ];
    if nsub > 0 {
        v.push((3, (0..nsub as u8).prop_map(|s| HostAct::Advance { s }).boxed()));
    }
    prop::strategy::Union::new_weighted(v).boxed()
}

fn how(nch: usize, nsub: usize) -> BoxedStrategy<How> {
    prop_oneof![
        5 => Just(How::Await),
        2 => Just(How::PollCancel),
        2 => Just(How::PollDrop),
        2 => host_act(nch, nsub).prop_map(How::PollActCancel),
        2 => host_act(nch, nsub).prop_map(How::PollActDrop),
        2 => host_act(nch, nsub).prop_map(How::PollActAwait),
    ]
    .boxed()
}

#[derive(Clone, Copy)]
struct Weights {
    stream: u32,
    future: u32,
    call: u32,
    task: u32,
    wake: u32,
    /// operations started by one task and completed by another
    park: u32,
}

fn leaf_op(nch: usize, nsub: usize, w: Weights) -> BoxedStrategy<GOp> {
    let c = 0..(nch.max(1) as u8);
    let mut v: Vec<(u32, BoxedStrategy<GOp>)> = vec![];
    if w.stream > 0 {
        v.push((w.stream * 3, (c.clone(), 1u8..8, how(nch, nsub)).prop_map(|(c, n, how)| GOp::Write { c, n, how }).boxed()));
        v.push((w.stream * 2, (c.clone(), 1u8..8).prop_map(|(c, n)| GOp::WriteAll { c, n }).boxed()));
        v.push((w.stream, c.clone().prop_map(|c| GOp::WriteOne { c }).boxed()));
        v.push((w.stream * 3, (c.clone(), 1u8..8, how(nch, nsub)).prop_map(|(c, cap, how)| GOp::Read { c, cap, how }).boxed()));
        v.push((w.stream, c.clone().prop_map(|c| GOp::Next { c }).boxed()));
        v.push((w.stream, c.clone().prop_map(|c| GOp::Collect { c }).boxed()));
        v.push((w.stream, (c.clone(), 1u8..4).prop_map(|(c, k)| GOp::StreamNext { c, k }).boxed()));
    }
    if w.stream > 0 || w.future > 0 {
        v.push((1, c.clone().prop_map(|c| GOp::DropWriter { c }).boxed()));
        v.push((1, c.clone().prop_map(|c| GOp::DropReader { c }).boxed()));
    }
    if w.future > 0 {
        v.push((w.future * 3, (c.clone(), how(nch, nsub)).prop_map(|(c, how)| GOp::FWrite { c, how }).boxed()));
        v.push((w.future * 3, (c.clone(), how(nch, nsub)).prop_map(|(c, how)| GOp::FRead { c, how }).boxed()));
    }
    if w.call > 0 && nsub > 0 {
        v.push((w.call * 3, (0..nsub as u8, how(nch, nsub)).prop_map(|(s, how)| GOp::Call { s, how }).boxed()));
    }
    if w.task > 0 {
        v.push((w.task, Just(GOp::Yield).boxed()));
    }
    if w.wake > 0 {
        v.push((w.wake * 2, (0u8..2).prop_map(|slot| GOp::Sleep { slot }).boxed()));
        v.push((w.wake * 2, (0u8..2, 1u8..4).prop_map(|(slot, times)| GOp::Wake { slot, times }).boxed()));
    }
    v.push((2, host_act(nch, nsub).prop_map(GOp::Host).boxed()));
    if w.park > 0 && nch > 0 {
        v.push((w.park * 2, (c.clone(), 0u8..2).prop_map(|(c, slot)| GOp::Park { c, slot }).boxed()));
        v.push((w.park * 3, (0u8..2).prop_map(|slot| GOp::Unpark { slot }).boxed()));
    }
    prop::strategy::Union::new_weighted(v).boxed()
}

fn prog(nch: usize, nsub: usize, w: Weights, len: usize) -> BoxedStrategy<Vec<GOp>> {
    let leaf = leaf_op(nch, nsub, w);
    let leafs = prop::collection::vec(leaf.clone(), 0..4);
    let op = if w.task > 0 {
        prop_oneof![
            10 => leaf,
            1 => leafs.clone().prop_map(GOp::Spawn),
            1 => (leafs.clone(), leafs.clone()).prop_map(|(a, b)| GOp::Join(a, b)),
            1 => (leafs.clone(), leafs).prop_map(|(a, b)| GOp::Select(a, b)),
        ]
        .boxed()
    } else {
        leaf
    };
    prop::collection::vec(op, 1..len).boxed()
}

/// two programs built around one sleep/wake pair: task 0 sleeps on slot 0 somewhere in its
/// program, task 1 wakes slot 0 (one or several times) somewhere in its own
fn wake_pair(nch: usize, nsub: usize, w: Weights) -> BoxedStrategy<Vec<Vec<GOp>>> {
    let filler = || prop::collection::vec(prop_oneof![3 => Just(GOp::Yield).boxed(), 2 => leaf_op(nch, nsub, Weights { wake: 0, ..w })], 0..3);
    (filler(), filler(), filler(), filler(), 1u8..4, prop::bool::weighted(0.3), prop::bool::weighted(0.2))
        .prop_map(|(a0, a1, b0, b1, times, sleep_twice, wake_twice)| {
            let mut a = a0;
            a.push(GOp::Sleep { slot: 0 });
            if sleep_twice {
                a.push(GOp::Sleep { slot: 0 });
            }
            a.extend(a1);
            let mut b = b0;
            b.push(GOp::Wake { slot: 0, times });
            if wake_twice || sleep_twice {
                b.push(GOp::Yield);
                b.push(GOp::Wake { slot: 0, times: 1 });
            }
            b.extend(b1);
            vec![a, b]
        })
        .boxed()
}

fn chan_spec(futures: bool, streams: bool) -> BoxedStrategy<ChanSpec> {
    let fut = match (futures, streams) {
        (true, true) => any::<bool>().boxed(),
        (true, false) => Just(true).boxed(),
        _ => Just(false).boxed(),
    };
    (fut, any::<bool>(), prop_oneof![Just(Mode::GuestBoth), Just(Mode::HostReader), Just(Mode::HostWriter)]).prop_map(|(future, tok, mode)| ChanSpec { future, tok, mode }).boxed()
}

fn scenario(w: Weights, two_tasks: bool, allow_block_on: bool) -> BoxedStrategy<Scenario> {
    let nch = if w.stream + w.future > 0 { 1usize..4 } else { 0usize..1 };
    let nsub = if w.call > 0 { 1usize..3 } else { 0usize..1 };
    (nch, nsub)
        .prop_flat_map(move |(nch, nsub)| {
            let ntasks = if two_tasks { 2usize } else { 1 };
            (
                prop::collection::vec(chan_spec(w.future > 0, w.stream > 0), nch),
                // 0..2: status returned by the call itself; +3: a cancellation while STARTING finds
                // the callee already done (RETURNED_CANCELLED)
                prop::collection::vec(0u8..6, nsub),
                if w.wake >= 4 { prop_oneof![3 => wake_pair(nch, nsub, w), 1 => prop::collection::vec(prog(nch, nsub, w, 7), ntasks)].boxed() } else { prop::collection::vec(prog(nch, nsub, w, 7), ntasks).boxed() },
                prop::collection::vec(host_act(nch, nsub), 0..8),
                0u8..3,
                if allow_block_on { prop::bool::weighted(0.2).boxed() } else { Just(false).boxed() },
                prop_oneof![4 => Just(0u8), 1 => 1u8..6],
                prop::option::of(0u8..2),
            )
        })
        .prop_map(|(chans, subs, tasks, sched, pace, block_on, cancel_after, cancel_only)| normalize(Scenario { block_on: block_on && tasks.len() == 1, chans, subs, tasks, sched, pace, cancel_after, cancel_only }))
        .boxed()
}

/// `block_on` cannot be cancelled by the host, so its scenarios must not contain operations
/// that can wait forever: every channel gets a host peer (whose wind-down resolves whatever is
/// pending) and sleeps become yields
fn normalize(mut sc: Scenario) -> Scenario {
    if sc.block_on {
        for (i, c) in sc.chans.iter_mut().enumerate() {
            if c.mode == Mode::GuestBoth {
                c.mode = if i % 2 == 0 { Mode::HostReader } else { Mode::HostWriter };
            }
        }
        fn strip(ops: &mut Vec<GOp>) {
            for o in ops.iter_mut() {
                match o {
                    GOp::Sleep { .. } => *o = GOp::Yield,
                    GOp::Spawn(p) => strip(p),
                    GOp::Join(a, b) | GOp::Select(a, b) => {
                        strip(a);
                        strip(b)
                    }
                    _ => {}
                }
            }
        }
        for t in sc.tasks.iter_mut() {
            strip(t);
        }
        sc.cancel_after = 0;
    }
    sc
}

// ------------------------------------------------------------------ driver

#[derive(Default, Debug)]
pub struct Outcome {
    pub events_delivered: u32,
    pub callbacks: u32,
    pub cancelled: bool,
    pub exited: Vec<bool>,
    pub unit_writes: u32,
    pub ops_done: u32,
    pub host_transfers: usize,
    pub leaks: usize,
    /// the scenario was given up (precondition of a listed finding): nothing at its end is judged
    pub abandoned: bool,
    /// tasks were cancelled while they owned an unwritten future writer with a live reader
    pub stranded_cancel: bool,
}

/// a cancelled task that still owns an unwritten future writer (reader alive) registers the
/// deferred default-value write on the dying task
pub const KF_STRANDED: &str = "cancelled task registers the deferred default-value write of an unwritten future on itself and exits with it joined";
static EXCLUDE_STRANDED: std::sync::atomic::AtomicBool = std::sync::atomic::AtomicBool::new(false);

fn warm_up() {
    // grow the runtime's process-wide spawn list once, outside of any recording
    static ONCE: std::sync::Once = std::sync::Once::new();
    ONCE.call_once(|| {
        host::reset();
        h(|x| x.tasks.push(Default::default()));
        let code = rt::start_task(async {
            #[cfg(feature = "spawn")]
            for _ in 0..64 {
                rt::spawn_local(async {});
            }
        });
        let mut code = code as u32;
        let mut n = 0;
        while code & 0xf != 0 && n < 100 {
            n += 1;
            h(|x| x.in_callback = true);
            code = unsafe { rt::callback(host::EVENT_NONE, 0, 0) };
            h(|x| x.in_callback = false);
        }
    });
}

fn run_scenario(sc: &Scenario) -> (Outcome, Vec<(String, String)>, Vec<String>) {
    warm_up();
    host::reset();
    sched::load(&sc.sched);
    alloc_track::start();
    let mut out = Outcome::default();
    let ntasks = sc.tasks.len();
    h(|x| {
        for _ in 0..ntasks {
            x.tasks.push(Default::default());
        }
    });
    let subs: Vec<u32> = sc.subs.iter().map(|s| *s as u32).collect();
    let env = guest::Env::new(&sc.chans, &subs, ntasks);

    let mut codes: Vec<Option<u32>> = vec![];
    if sc.block_on {
        h(|x| x.cur_task = 0);
        alloc_track::guest(|| rt::block_on(guest::root(env.clone(), 0, sc.tasks[0].clone())));
        h(|x| x.tasks[0].exited = true);
        codes.push(None);
    } else {
        for (i, p) in sc.tasks.iter().enumerate() {
            h(|x| {
                x.cur_task = i;
                x.in_callback = true;
            });
            let code = alloc_track::guest(|| rt::start_task(Probe { inner: Box::pin(guest::root(env.clone(), i, p.clone())), task: i })) as u32;
            h(|x| {
                x.in_callback = false;
                x.tasks[i].callbacks += 1;
            });
            out.callbacks += 1;
            codes.push(after_callback(i, code));
        }
        drive(&mut codes, sc.pace, sc.cancel_after, sc.cancel_only.map(|t| t as usize % sc.tasks.len()), &mut out);
    }
    out.exited = codes.iter().map(|c| c.is_none()).collect();
    if out.abandoned {
        // the task states stay where they are (leaked on purpose, and with them the ends the
        // environment still holds: guest values may only be dropped inside a task); nothing
        // more is judged
        std::mem::forget(env);
        let _ = alloc_track::stop();
        let (viol, trace) = h(|x| (std::mem::take(&mut x.viol), std::mem::take(&mut x.trace)));
        return (out, viol, trace);
    }

    // after a cancellation the environment may still hold ends: they are given up from
    // within a short-lived task (guest code always runs inside some task)
    out.ops_done = env.ops_done.get();
    let guard_drops = env.guard_drops.borrow().clone();
    let left_over = {
        let (a, b) = (env.u8s.borrow(), env.toks.borrow());
        a.sr.iter().any(|x| x.is_some()) || a.fr.iter().any(|x| x.is_some()) || a.sw.iter().any(|x| x.is_some()) || a.fw.iter().any(|x| x.is_some()) || b.sr.iter().any(|x| x.is_some()) || b.fr.iter().any(|x| x.is_some()) || b.sw.iter().any(|x| x.is_some()) || b.fw.iter().any(|x| x.is_some()) || env.parked.borrow().iter().any(|p| p.is_some())
    };
    if left_over {
        let t = h(|x| {
            x.tasks.push(Default::default());
            x.cur_task = x.tasks.len() - 1;
            x.in_callback = true;
            x.cur_task
        });
        let e2 = env.clone();
        let code = alloc_track::guest(|| rt::start_task(async move { e2.release() })) as u32;
        h(|x| x.in_callback = false);
        while codes.len() < t {
            codes.push(None);
        }
        codes.push(after_callback(t, code));
        let mut o2 = Outcome::default();
        drive(&mut codes, 0, 0, None, &mut o2);
        if o2.abandoned {
            std::mem::forget(env);
            let _ = alloc_track::stop();
            out.abandoned = true;
            let (viol, trace) = h(|x| (std::mem::take(&mut x.viol), std::mem::take(&mut x.trace)));
            return (out, viol, trace);
        }
        out.stranded_cancel |= o2.stranded_cancel;
    }
    drop(env);
    sched::close_all();

    // ---- end-of-scenario invariants
    let leaks = alloc_track::stop();
    h(|x| {
        out.unit_writes = x.unit_chans.iter().map(|c| x.chans[*c].writes_started).sum();
        out.host_transfers = x.chans.iter().map(|c| c.sent.len()).sum();
        for (i, t) in x.tasks.iter().enumerate() {
            if i < ntasks && out.exited.get(i).copied().unwrap_or(false) && t.ctx != 0 {
                let m = format!("task {i} exited but its context slot still holds {:#x}", t.ctx);
                x.viol.push(("context-after-exit".into(), m));
            }
        }
        // every set is gone, nothing is joined, nothing is pending
        let alive_sets: Vec<u32> = x.sets.iter().filter(|(_, s)| s.0).map(|(h, _)| *h).collect();
        if !alive_sets.is_empty() {
            x.viol.push(("set-leaked".into(), format!("all tasks are gone but waitable sets {alive_sets:?} were never dropped")));
        }
        let joined: Vec<u32> = x.w.iter().filter(|(_, w)| w.set != 0).map(|(h, _)| *h).collect();
        if !joined.is_empty() {
            x.viol.push(("joined-after-exit".into(), format!("all tasks are gone but waitables {joined:?} are still joined to a set")));
        }
        let alive: Vec<(u32, host::WKind)> = x.w.iter().filter(|(_, w)| w.alive).map(|(h, w)| (*h, w.kind)).collect();
        if !alive.is_empty() {
            x.viol.push(("handle-leaked".into(), format!("all tasks and values are gone but the handles {alive:?} were never dropped")));
        }
        let lists: Vec<(u64, host::ListState)> = x.lists.iter().filter(|(_, s)| **s != host::ListState::Freed).map(|(a, b)| (*a, *b)).collect();
        if !lists.is_empty() {
            x.viol.push(("heap-leak".into(), format!("list buffers {lists:?} were never released (Abi = still owned by a lowered slot)")));
        }
        // imports: parameters and results exactly once
        for (i, s) in x.subs.iter().enumerate() {
            if s.state == u32::MAX {
                continue;
            }
            let started = matches!(s.state, host::ST_STARTED | host::ST_RETURNED | host::ST_RETURNED_CANCELLED);
            let want_lists = if started { 1 } else { 0 };
            let want_own = if s.state == host::ST_STARTED_CANCELLED { 1 } else { 0 };
            let resolved = matches!(s.state, host::ST_RETURNED | host::ST_STARTED_CANCELLED | host::ST_RETURNED_CANCELLED);
            if resolved && (s.dealloc_lists != want_lists || s.dealloc_lists_and_own != want_own) {
                x.viol.push(("import-params-release".into(), format!("import#{i} ended in status {}: params_dealloc_lists ran {} times (want {want_lists}), params_dealloc_lists_and_own ran {} times (want {want_own})", s.state, s.dealloc_lists, s.dealloc_lists_and_own)));
            }
            let want_lift = if s.state == host::ST_RETURNED && s.delivered == Some(host::ST_RETURNED) { 1 } else { 0 };
            if resolved && s.results_lift > 1 || (resolved && s.results_lift != want_lift && s.cancels == 0) {
                x.viol.push(("import-results-lift".into(), format!("import#{i} ended in status {} (cancels {}): results were lifted {} times", s.state, s.cancels, s.results_lift)));
            }
            if s.handle != 0 && s.dropped != 1 {
                x.viol.push(("subtask-drop-count".into(), format!("import#{i}: subtask handle {} was dropped {} times", s.handle, s.dropped)));
            }
        }
        // futures written by the guest: the value (or the default) arrives unless the reader went away
        for (ci, c) in x.chans.iter().enumerate() {
            if c.is_future && c.w_holder == host::Holder::Guest && c.sent.is_empty() && !c.r_dropped {
                x.viol.push(("future-never-written".into(), format!("future chan#{ci}: the writable end is gone, nothing was written and the reader was never told")));
            }
            if c.is_future && c.sent.len() > 1 {
                x.viol.push(("future-written-twice".into(), format!("future chan#{ci}: values {:?} were delivered", c.sent)));
            }
        }
    });
    for (i, d) in guard_drops.iter().enumerate() {
        if *d != 1 {
            h(|x| x.viol.push(("task-destructors".into(), format!("the state of task {i} was destroyed {d} times (exactly once expected; exited = {:?})", out.exited.get(i)))));
        }
    }
    if !leaks.is_empty() {
        out.leaks = leaks.len();
        let total: usize = leaks.iter().map(|l| l.1).sum();
        h(|x| x.viol.push(("memory-leak".into(), format!("{} heap blocks ({} bytes) allocated during the scenario are still alive after every task exited and every value was dropped; sizes {:?}", leaks.len(), total, leaks.iter().map(|l| l.1).take(8).collect::<Vec<_>>()))));
    }
    let (viol, trace) = h(|x| (std::mem::take(&mut x.viol), std::mem::take(&mut x.trace)));
    (out, viol, trace)
}

/// run the tasks until all of them exited: deliver events, let the host act when nothing is
/// deliverable, and cancel the tasks when nothing can make progress any more
fn drive(codes: &mut Vec<Option<u32>>, pace: u8, cancel_after: u8, cancel_only: Option<usize>, out: &mut Outcome) {
    let mut idle_rounds = 0;
    let mut budget = 4000;
    while codes.iter().any(|c| c.is_some()) && budget > 0 {
        budget -= 1;
        for _ in 0..pace {
            sched::host_step();
        }
        let cancel_now = cancel_after != 0 && out.callbacks >= cancel_after as u32 && !out.cancelled;
        let mut progressed = false;
        if !cancel_now {
            for i in 0..codes.len() {
                let Some(code) = codes[i] else { continue };
                let ev = match code & 0xf {
                    1 => Some((host::EVENT_NONE, 0, 0)),
                    2 => h(|x| x.take_event(code >> 4)),
                    _ => None,
                };
                if let Some((e0, e1, e2)) = ev {
                    if e0 != host::EVENT_NONE {
                        out.events_delivered += 1;
                    }
                    codes[i] = deliver(i, e0, e1, e2, out);
                    progressed = true;
                }
            }
        }
        if progressed {
            idle_rounds = 0;
            continue;
        }
        if !cancel_now && sched::host_step() {
            idle_rounds = 0;
            continue;
        }
        idle_rounds += 1;
        if idle_rounds >= 2 || cancel_now {
            // nothing can make progress any more (or the scenario says so): the host cancels
            // the remaining tasks, which must then exit and release everything
            //
            // listed finding (KF_STRANDED): cancelling a task that still owns an unwritten
            // future writer whose reader is alive registers a deferred default-value write on
            // the dying task. When listed, such scenarios are abandoned instead of judged.
            let stranded = h(|x| {
                x.chans.iter().any(|c| {
                    let in_flight = c.pend_w.is_some() || x.w.get(&c.w_handle).map(|w| w.event.is_some()).unwrap_or(false);
                    c.is_future && c.w_holder == host::Holder::Guest && !c.w_dropped && in_flight
                })
            });
            if stranded && EXCLUDE_STRANDED.load(std::sync::atomic::Ordering::Relaxed) {
                out.abandoned = true;
                return;
            }
            out.stranded_cancel |= stranded;
            out.cancelled = true;
            for i in 0..codes.len() {
                // a scheduled cancellation may concern one task only; a deadlock ends them all
                if cancel_now && cancel_only.map(|t| t != i).unwrap_or(false) {
                    continue;
                }
                if codes[i].is_some() {
                    codes[i] = deliver(i, host::EVENT_CANCEL, 0, 0, out);
                    if codes[i].is_some() {
                        h(|x| x.violation("cancel-not-exit", format!("task {i} was sent EVENT_CANCEL but its callback did not return EXIT")));
                        codes[i] = None;
                    }
                }
            }
        }
    }
    if budget == 0 {
        h(|x| x.violation("livelock", "the tasks did not finish within 4000 scheduling rounds".into()));
    }
}

thread_local! {
    /// per task: was the task's waker invoked since the start of the last poll of its program
    /// (a fixed array: nothing here may allocate inside the tracked guest heap)
    static POLL_WOKEN: [std::cell::Cell<bool>; 16] = const { [const { std::cell::Cell::new(true) }; 16] };
}

/// wraps a task's program: notes the start of every poll and every use of the task's waker
struct Probe {
    inner: std::pin::Pin<Box<dyn std::future::Future<Output = ()>>>,
    task: usize,
}

struct ProbeWaker {
    inner: std::task::Waker,
    task: usize,
}

impl std::task::Wake for ProbeWaker {
    fn wake(self: std::sync::Arc<Self>) {
        self.wake_by_ref()
    }
    fn wake_by_ref(self: &std::sync::Arc<Self>) {
        POLL_WOKEN.with(|w| {
            if let Some(c) = w.get(self.task) {
                c.set(true)
            }
        });
        self.inner.wake_by_ref();
    }
}

impl std::future::Future for Probe {
    type Output = ();
    fn poll(mut self: std::pin::Pin<&mut Self>, cx: &mut std::task::Context<'_>) -> std::task::Poll<()> {
        let task = self.task;
        POLL_WOKEN.with(|w| {
            if let Some(c) = w.get(task) {
                c.set(false)
            }
        });
        let waker = std::task::Waker::from(std::sync::Arc::new(ProbeWaker { inner: cx.waker().clone(), task }));
        self.inner.as_mut().poll(&mut std::task::Context::from_waker(&waker))
    }
}

/// book-keeping after a callback returned `code`; None = the task exited
fn after_callback(i: usize, code: u32) -> Option<u32> {
    h(|x| {
        x.t(format!("task {i} -> code {} (set {})", ["EXIT", "YIELD", "WAIT"].get((code & 0xf) as usize).copied().unwrap_or("?"), code >> 4));
        match code & 0xf {
            0 => {
                x.tasks[i].exited = true;
                // a task that exits of its own accord may not leave anything joined to its sets
                let sets = if CANCEL_EXIT.with(|c| c.get()) { vec![] } else { x.tasks[i].sets.clone() };
                for s in sets {
                    let m = x.set_members(s);
                    if !m.is_empty() {
                        x.violation("exit-with-joined-waitables", format!("task {i} returned EXIT while waitables {m:?} are still joined to its set {s}"));
                    }
                }
                return None;
            }
            1 => {
                x.tasks[i].yields += 1;
                // "yields only when woken during polling": without `async-spawn` the task's own
                // waker reaches the guest program, so a wake-up during the last poll is visible
                #[cfg(not(feature = "spawn"))]
                if !POLL_WOKEN.with(|w| w.get(i).map(|c| c.get()).unwrap_or(true)) {
                    x.violation("yield-without-wakeup", format!("task {i} returned YIELD although nothing woke it during its last poll (it can only be blocked on its waitables: WAIT expected)"));
                }
            }
            2 => {
                x.tasks[i].waits += 1;
                let s = code >> 4;
                match x.sets.get(&s) {
                    Some((true, owner)) if *owner == i => {}
                    other => {
                        let d = format!("{other:?}");
                        x.violation("wait-on-foreign-set", format!("task {i} returned WAIT on set {s}, which is not a live set created by that task ({d})"));
                    }
                }
                if x.set_members(s).is_empty() {
                    x.violation("wait-on-empty-set", format!("task {i} returned WAIT on set {s} but nothing is joined to it: the task can never be resumed"));
                }
                // every operation that is blocked in the host is registered with some waitable set
                // while the task that awaits it is suspended (else its completion is never seen)
                for (w, what) in x.inflight() {
                    if !x.w.get(&w).map(|e| e.alive && e.set != 0).unwrap_or(false) {
                        x.violation("blocked-operation-not-joined", format!("task {i} returned WAIT while {what} (waitable {w}) is blocked in the host but joined to no waitable set: its completion can never be delivered"));
                    }
                }
                if x.tasks[i].ctx == 0 {
                    x.violation("context-lost", format!("task {i} returned WAIT but its context slot is empty: the task state is not stored between callbacks"));
                }
            }
            other => x.violation("bad-callback-code", format!("task {i} returned callback code {other}")),
        }
        Some(code)
    })
}

fn deliver(i: usize, e0: u32, e1: u32, e2: u32, out: &mut Outcome) -> Option<u32> {
    h(|x| {
        x.cur_task = i;
        x.in_callback = true;
        x.tasks[i].callbacks += 1;
        x.t(format!("callback(task {i}, event {e0}, {e1}, {e2:#x})"));
    });
    out.callbacks += 1;
    let code = alloc_track::guest(|| unsafe { rt::callback(e0, e1, e2) });
    h(|x| x.in_callback = false);
    if e0 == host::EVENT_CANCEL {
        // a cancelled task exits at once; waitables registered with it by operations that are
        // owned elsewhere (moved to another task, or the deferred write of a future) may still
        // be joined. That is judged at the end of the scenario, not here.
        CANCEL_EXIT.with(|c| c.set(true));
    }
    let r = after_callback(i, code);
    CANCEL_EXIT.with(|c| c.set(false));
    r
}

thread_local! {
    static CANCEL_EXIT: std::cell::Cell<bool> = const { std::cell::Cell::new(false) };
}

// ------------------------------------------------------------------ properties

fn classify(sc: &Scenario) -> Vec<&'static str> {
    fn walk(ops: &[GOp], l: &mut Vec<&'static str>) {
        for o in ops {
            match o {
                GOp::Write { how, .. } | GOp::Read { how, .. } | GOp::FWrite { how, .. } | GOp::FRead { how, .. } | GOp::Call { how, .. } => match how {
                    How::Await => l.push("await"),
                    How::PollCancel => l.push("cancel"),
                    How::PollDrop => l.push("drop-in-flight"),
                    How::PollActCancel(_) => l.push("cancel-races-completion"),
                    How::PollActDrop(_) => l.push("drop-races-completion"),
                    How::PollActAwait(_) => l.push("completion-before-repoll"),
                },
                GOp::Spawn(p) => {
                    l.push("spawn");
                    walk(p, l)
                }
                GOp::Join(a, b) => {
                    l.push("join");
                    walk(a, l);
                    walk(b, l)
                }
                GOp::Select(a, b) => {
                    l.push("select(loser dropped)");
                    walk(a, l);
                    walk(b, l)
                }
                GOp::Sleep { .. } => l.push("sleep"),
                GOp::Park { .. } => l.push("operation-parked-for-another-task"),
                GOp::Wake { .. } => l.push("wake"),
                GOp::StreamNext { .. } => l.push("futures-stream-adapter"),
                _ => {}
            }
        }
    }
    let mut l = vec![];
    for t in &sc.tasks {
        walk(t, &mut l);
    }
    if sc.block_on {
        l.push("block_on");
    }
    if sc.tasks.len() > 1 {
        l.push("two-tasks");
    }
    if sc.chans.iter().any(|c| c.tok) {
        l.push("lifted-payload");
    }
    l.sort();
    l.dedup();
    l
}

fn prop(sc: &Scenario, obs: &mut Obs) -> CaseResult {
    let _g = SERIAL.lock().unwrap_or_else(|e| e.into_inner());
    if std::env::var("ASYNCSIM_TRACE").is_ok() {
        eprintln!("SCENARIO {}", serde_json::to_string(sc).unwrap());
    }
    abort_guard::set_current(&serde_json::to_string(sc).unwrap());
    let r = vcommon::panics::catch(std::panic::AssertUnwindSafe(|| run_scenario(sc)));
    abort_guard::clear();
    let (out, viol, trace) = match r {
        Ok(x) => x,
        Err(p) => {
            let _ = alloc_track::stop();
            let trace = h(|x| std::mem::take(&mut x.trace));
            let file = vcommon::panics::file_of(&p.location);
            if file.contains("/verif/") || file.contains("asyncsim") {
                vcommon::harness_error(format!("the harness panicked: {}\ntrace:\n{}", p.render(), trace.join("\n")));
            }
            let head: String = p.message.lines().next().unwrap_or("").chars().take(80).collect();
            let head: String = head.split(|c: char| c.is_ascii_digit()).next().unwrap_or("").trim().to_string();
            return Err(Failure::new(format!("runtime-panic {file}: {head}"), format!("the runtime panicked: {}\nhost trace (last 40):\n{}", p.render(), trace.iter().rev().take(40).rev().cloned().collect::<Vec<_>>().join("\n"))));
        }
    };
    if std::env::var("ASYNCSIM_TRACE").is_ok() {
        eprintln!("TRACE\n{}\nOUTCOME {out:?}", trace.join("\n"));
    }
    for l in classify(sc) {
        obs.label(l);
    }
    if out.cancelled {
        obs.label("ended-by-cancellation");
    }
    if out.unit_writes > 0 {
        obs.label("inter-task-wakeup-used");
    }
    obs.evals = (1 + out.callbacks + out.events_delivered) as u64;
    if out.events_delivered > 0 && out.ops_done >= 2 {
        obs.nontrivial_by(sc);
        obs.sample = Some(serde_json::json!({"chans": sc.chans.len(), "tasks": sc.tasks.len(), "callbacks": out.callbacks, "events": out.events_delivered, "transfers": out.host_transfers, "cancelled": out.cancelled}));
    }
    if out.abandoned {
        obs.label("abandoned(listed finding: cancel with unwritten future)");
    }
    let viol: Vec<(String, String)> = viol
        .into_iter()
        .map(|(sig, msg)| {
            const CONSEQUENCES: &[&str] = &["exit-with-joined-waitables", "set-leaked", "joined-after-exit", "handle-leaked", "memory-leak", "heap-leak", "future-never-written", "future-writer-stranded", "drop-while-joined"];
            if out.stranded_cancel && CONSEQUENCES.contains(&sig.as_str()) {
                (KF_STRANDED.to_string(), format!("[{sig}] {msg}"))
            } else {
                (sig, msg)
            }
        })
        .collect();
    if let Some((sig, msg)) = viol.into_iter().next() {
        return Err(Failure::new(sig, format!("{msg}\nhost trace (last 60 lines):\n{}", trace.iter().rev().take(60).rev().cloned().collect::<Vec<_>>().join("\n"))));
    }
    Ok(())
}

/// A panic inside one of the runtime's `extern "C"` callbacks (or a panic while unwinding)
/// aborts the process, which `catch_unwind` cannot see. The scenario being run is kept in a
/// static buffer; a SIGABRT handler writes it out as a replay file, prints the VIOLATION line
/// and exits with status 1, so that an abort of the runtime is reported like any other failure.
mod abort_guard {
    use std::sync::atomic::{AtomicUsize, Ordering};
    extern "C" {
        fn signal(sig: i32, handler: usize) -> usize;
        fn _exit(code: i32) -> !;
        fn write(fd: i32, buf: *const u8, n: usize) -> isize;
        fn open(path: *const u8, flags: i32, mode: u32) -> i32;
        fn close(fd: i32) -> i32;
    }
    const CAP: usize = 1 << 16;
    static mut CUR: [u8; CAP] = [0; CAP];
    static CUR_LEN: AtomicUsize = AtomicUsize::new(0);
    static mut PATH: [u8; 256] = [0; 256];
    static mut HEAD: [u8; 256] = [0; 256];
    static HEAD_LEN: AtomicUsize = AtomicUsize::new(0);
    static mut LINE: [u8; 384] = [0; 384];
    static LINE_LEN: AtomicUsize = AtomicUsize::new(0);

    extern "C" fn on_abort(_: i32) {
        unsafe {
            let n = CUR_LEN.load(Ordering::Relaxed);
            if n > 0 {
                // O_WRONLY | O_CREAT | O_TRUNC
                let fd = open(std::ptr::addr_of!(PATH) as *const u8, 0o1 | 0o100 | 0o1000, 0o644);
                if fd >= 0 {
                    write(fd, std::ptr::addr_of!(HEAD) as *const u8, HEAD_LEN.load(Ordering::Relaxed));
                    write(fd, std::ptr::addr_of!(CUR) as *const u8, n);
                    write(fd, b"}\n".as_ptr(), 2);
                    close(fd);
                }
                write(1, std::ptr::addr_of!(LINE) as *const u8, LINE_LEN.load(Ordering::Relaxed));
                _exit(1);
            }
            _exit(2);
        }
    }

    pub fn install(id: &str, seed: u64) {
        let path = format!("/verif/out/replay/{id}-abort-{}.json\0", std::process::id());
        let head = format!("{{\"property\":\"{id}\",\"sub\":\"scenarios\",\"seed\":{seed},\"failure\":{{\"sig\":\"runtime-abort\",\"msg\":\"the process aborted while this scenario ran (a panic inside an extern \\\"C\\\" callback of the runtime, or a panic during unwinding)\"}},\"case\":");
        let line = format!("FAILURE sub=scenarios sig=runtime-abort :: the process aborted while a scenario ran (panic inside an extern \"C\" callback of the runtime or during unwinding); scenario saved\nVIOLATION property={id} replay={}\n", &path[..path.len() - 1]);
        let _ = std::fs::create_dir_all("/verif/out/replay");
        unsafe {
            let p = std::ptr::addr_of_mut!(PATH) as *mut u8;
            std::ptr::copy_nonoverlapping(path.as_ptr(), p, path.len().min(255));
            let hd = std::ptr::addr_of_mut!(HEAD) as *mut u8;
            std::ptr::copy_nonoverlapping(head.as_ptr(), hd, head.len().min(256));
            HEAD_LEN.store(head.len().min(256), Ordering::Relaxed);
            let l = std::ptr::addr_of_mut!(LINE) as *mut u8;
            std::ptr::copy_nonoverlapping(line.as_ptr(), l, line.len().min(384));
            LINE_LEN.store(line.len().min(384), Ordering::Relaxed);
            signal(6, on_abort as usize);
        }
    }

    /// called (under the scenario lock) before a scenario runs
    pub fn set_current(json: &str) {
        let n = json.len().min(CAP);
        unsafe {
            std::ptr::copy_nonoverlapping(json.as_ptr(), std::ptr::addr_of_mut!(CUR) as *mut u8, n);
        }
        CUR_LEN.store(if json.len() <= CAP { n } else { 0 }, Ordering::Relaxed);
    }

    pub fn clear() {
        CUR_LEN.store(0, Ordering::Relaxed);
    }
}

fn main() {
    let args = vcommon::parse_args();
    let mut check = Check::new(&args);
    abort_guard::install(&args.id, check.sub_seed("abort", 0));
    let (w, two, block_on, rule): (Weights, bool, bool, &str) = match args.id.as_str() {
        "C18" => (Weights { stream: 2, future: 2, call: 2, task: 1, wake: 0, park: 2 }, true, true, "C18: every operation registered while it waits and unjoined before it is cancelled/dropped; each completion delivered exactly once; nothing joined and no set alive after exit"),
        "C19" => (Weights { stream: 3, future: 0, call: 0, task: 1, wake: 0, park: 0 }, false, true, "C19: per operation, the values and the count the runtime reports equal what the host transferred, in order; untransferred values come back; list buffers released exactly once"),
        "C20" => (Weights { stream: 0, future: 3, call: 0, task: 1, wake: 0, park: 0 }, false, true, "C20: a future delivers exactly one value; a writable end is never dropped before a value (or the default) was delivered or the reader is gone; cancel outcomes equal the host's"),
        "C21" => (Weights { stream: 0, future: 0, call: 3, task: 1, wake: 0, park: 0 }, false, true, "C21: parameters released exactly once after the callee started (or with owned handles if cancelled before), results lifted once, subtask dropped once, only in-progress calls cancelled"),
        "C22" => (Weights { stream: 1, future: 1, call: 1, task: 3, wake: 1, park: 1 }, true, true, "C22: callback codes consistent with the task state (EXIT only with nothing joined, WAIT on the task's own non-empty set, state stored between callbacks), destructors run exactly once also under cancellation"),
        "C23" => (Weights { stream: 1, future: 0, call: 0, task: 1, wake: 4, park: 0 }, true, false, "C23: a wake of a sleeping task writes exactly one item to its wakeup stream and the task is polled again; wakeup reads are cancelled (after leaving the set) before the task polls again or is destroyed"),
        other => vcommon::harness_error(format!("asyncsim does not serve {other}")),
    };
    check.rule = format!(
        "scenarios = 1..3 channels (stream/future x payload u8 (canonical) or a lifted value owning a list buffer x both ends in the guest / host reader / host writer) + 0..2 async imports (returning STARTING/STARTED/RETURNED at once) + 1..2 guest programs (write/write_all/write_one/read/next/collect/Stream adapter/future write+read/import call, each awaited, cancelled or dropped after one poll, optionally with a host completion queued in between; spawn, join, yield, sleep/wake across tasks) + a host schedule (partial takes/gives, peer drops, callee progress) with a pace and an optional EVENT_CANCEL; the real runtime runs the programs natively against a mock component-model host. Oracle — {rule}; additionally no panic, no leaked heap block/list buffer/handle/set. non-trivial = at least one event delivered and two guest operations completed; distinct by scenario"
    );
    check.assumptions.push("the canonical built-ins are provided by a mock host written from the component-model definitions (64-bit pointers); traps are recorded as violations instead of aborting".into());
    check.assumptions.push("scenarios run one at a time because the runtime keeps process-wide state (static mut SPAWNED)".into());
    EXCLUDE_STRANDED.store(check.known.matches(KF_STRANDED), std::sync::atomic::Ordering::Relaxed);
    // witness of the listed finding, judged without the exclusion
    if !check.is_replay() && matches!(args.id.as_str(), "C18" | "C20" | "C22") {
        let sc = Scenario { chans: vec![ChanSpec { future: true, tok: false, mode: Mode::GuestBoth }], subs: vec![], tasks: vec![vec![GOp::FWrite { c: 0, how: How::Await }]], sched: vec![], pace: 0, block_on: false, cancel_after: 0, cancel_only: None };
        let was = EXCLUDE_STRANDED.swap(false, std::sync::atomic::Ordering::Relaxed);
        check.case("witness-cancel-with-unwritten-future", &sc, prop);
        EXCLUDE_STRANDED.store(was, std::sync::atomic::Ordering::Relaxed);
    }
    let cases = check.tier.pick(300_000, 6_000_000);
    check.prop("scenarios", || scenario(w, two, block_on), cases, prop);
    check.finish()
}
