//! The host's side of a scenario: a generated schedule of peer actions, followed by a
//! deterministic "wind-down" that resolves whatever is still pending so that no scenario
//! ends in a deadlock the guest could not have avoided.
use crate::host::{h, Holder};
use serde::{Deserialize, Serialize};
use std::cell::RefCell;
use std::collections::VecDeque;

#[derive(Clone, Debug, Hash, Serialize, Deserialize, PartialEq)]
pub enum HostAct {
    /// host reader of channel `c` takes up to `n` items
    Take { c: u8, n: u8, then_drop: bool },
    /// host writer of channel `c` offers `n` fresh items
    Give { c: u8, n: u8, then_drop: bool },
    /// host drops the end it holds
    DropEnd { c: u8 },
    /// the callee of import call `s` makes progress
    Advance { s: u8 },
}

thread_local! {
    static SCHED: RefCell<VecDeque<HostAct>> = const { RefCell::new(VecDeque::new()) };
    static NEXT_VID: RefCell<u64> = const { RefCell::new(1000) };
}

pub fn load(acts: &[HostAct]) {
    SCHED.with(|s| *s.borrow_mut() = acts.iter().cloned().collect());
    NEXT_VID.with(|v| *v.borrow_mut() = 1000);
}

pub fn fresh_vids(n: usize, elem_is_u8: bool) -> Vec<u64> {
    NEXT_VID.with(|v| {
        let mut v = v.borrow_mut();
        (0..n)
            .map(|_| {
                *v += 1;
                if elem_is_u8 {
                    *v % 251
                } else {
                    *v
                }
            })
            .collect()
    })
}

/// perform one host action; false if it had no effect
pub fn apply(a: &HostAct) -> bool {
    unsafe {
        match *a {
            HostAct::Take { c, n, then_drop } => h(|x| {
                if x.chans.is_empty() {
                    return false;
                }
                let c = c as usize % x.chans.len();
                x.host_take(c, n as usize, then_drop)
            }),
            HostAct::Give { c, n, then_drop } => {
                let info = h(|x| {
                    if x.chans.is_empty() {
                        return None;
                    }
                    let c = c as usize % x.chans.len();
                    Some((c, x.chans[c].elem == crate::host::Elem::U8, x.chans[c].is_future))
                });
                let Some((c, is_u8, is_future)) = info else { return false };
                let n = if is_future { 1 } else { (n as usize).max(1) };
                let vids = fresh_vids(n, is_u8);
                h(|x| x.host_give(c, &vids, then_drop))
            }
            HostAct::DropEnd { c } => h(|x| {
                if x.chans.is_empty() {
                    return false;
                }
                let c = c as usize % x.chans.len();
                x.host_drop_end(c)
            }),
            HostAct::Advance { s } => h(|x| {
                if x.subs.is_empty() {
                    return false;
                }
                let s = s as usize % x.subs.len();
                x.sub_advance(s)
            }),
        }
    }
}

/// one step of host progress: the next scheduled action that has an effect, else one
/// wind-down action; false when the host can do nothing more
pub fn host_step() -> bool {
    loop {
        let next = SCHED.with(|s| s.borrow_mut().pop_front());
        match next {
            Some(a) => {
                if apply(&a) {
                    return true;
                }
            }
            None => break,
        }
    }
    wind_down()
}

/// resolve one pending thing
fn wind_down() -> bool {
    unsafe {
        // subtasks first: calls in progress run to completion
        let n = h(|x| x.subs.len());
        for s in 0..n {
            if h(|x| x.sub_advance(s)) {
                return true;
            }
        }
        let n = h(|x| x.chans.len());
        for c in 0..n {
            let (pw, pr, rh, wh, is_u8, is_future, rd, wd, buffered) = h(|x| {
                let ch = &x.chans[c];
                (ch.pend_w.is_some(), ch.pend_r.is_some(), ch.r_holder, ch.w_holder, ch.elem == crate::host::Elem::U8, ch.is_future, ch.r_dropped, ch.w_dropped, !ch.host_w_items.is_empty())
            });
            if pw && rh == Holder::Host && !rd {
                if h(|x| x.host_take(c, 255, false)) {
                    return true;
                }
            }
            if pr && wh == Holder::Host && !wd {
                if is_future {
                    if !buffered {
                        let v = fresh_vids(1, is_u8);
                        if h(|x| x.host_give(c, &v, false)) {
                            return true;
                        }
                    }
                } else if h(|x| x.host_drop_end(c)) {
                    return true;
                }
            }
        }
        false
    }
}

/// the host gives up its remaining ends (end of the scenario): future writers write first
pub fn close_all() {
    unsafe {
        let n = h(|x| x.chans.len());
        for c in 0..n {
            let (wh, is_future, wd, is_u8, sent) = h(|x| {
                let ch = &x.chans[c];
                (ch.w_holder, ch.is_future, ch.w_dropped, ch.elem == crate::host::Elem::U8, !ch.sent.is_empty() || !ch.host_w_items.is_empty())
            });
            if wh == Holder::Host && is_future && !wd && !sent {
                let v = fresh_vids(1, is_u8);
                h(|x| x.host_give(c, &v, false));
            }
            h(|x| x.host_drop_end(c));
        }
    }
}
