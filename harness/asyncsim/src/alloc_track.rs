//! A tracking global allocator: while recording, every block is entered in a map so that
//! leaks (blocks alive after a scenario), frees of unknown blocks and host writes into freed
//! buffers become observable.
use std::alloc::{GlobalAlloc, Layout, System};
use std::cell::{Cell, RefCell};
use std::collections::BTreeMap;

pub struct Tracking;

thread_local! {
    static RECORD: Cell<bool> = const { Cell::new(false) };
    static BUSY: Cell<bool> = const { Cell::new(false) };
    static LIVE: RefCell<BTreeMap<usize, usize>> = const { RefCell::new(BTreeMap::new()) };
    static ERRORS: RefCell<Vec<String>> = const { RefCell::new(Vec::new()) };
}

/// `always`: frees are followed even while recording is paused, so that a block allocated by
/// the runtime and released later by harness code is not mistaken for a leak
fn tracked_if(always: bool, f: impl FnOnce()) {
    let on = (always || RECORD.try_with(|r| r.get()).unwrap_or(false)) && !BUSY.try_with(|b| b.get()).unwrap_or(true);
    if on {
        let _ = BUSY.try_with(|b| b.set(true));
        f();
        let _ = BUSY.try_with(|b| b.set(false));
    }
}

unsafe impl GlobalAlloc for Tracking {
    unsafe fn alloc(&self, layout: Layout) -> *mut u8 {
        let p = System.alloc(layout);
        tracked_if(false, || {
            let _ = LIVE.try_with(|l| l.borrow_mut().insert(p as usize, layout.size()));
        });
        p
    }
    unsafe fn dealloc(&self, ptr: *mut u8, layout: Layout) {
        tracked_if(true, || {
            // blocks allocated before recording started are not in the map: ignore those
            let _ = LIVE.try_with(|l| {
                let mut l = l.borrow_mut();
                if !l.is_empty() {
                    l.remove(&(ptr as usize));
                }
            });
        });
        System.dealloc(ptr, layout)
    }
    unsafe fn realloc(&self, ptr: *mut u8, layout: Layout, new_size: usize) -> *mut u8 {
        let np = System.realloc(ptr, layout, new_size);
        tracked_if(true, || {
            let _ = LIVE.try_with(|l| {
                let mut l = l.borrow_mut();
                if !l.is_empty() && l.remove(&(ptr as usize)).is_some() {
                    l.insert(np as usize, new_size);
                }
            });
        });
        np
    }
}

/// empty the map; recording happens inside `guest` scopes only
pub fn start() {
    BUSY.with(|b| b.set(true));
    LIVE.with(|l| l.borrow_mut().clear());
    ERRORS.with(|e| e.borrow_mut().clear());
    BUSY.with(|b| b.set(false));
    RECORD.with(|r| r.set(false));
}

/// run guest/runtime code: its allocations are recorded
pub fn guest<R>(f: impl FnOnce() -> R) -> R {
    let was = RECORD.with(|r| r.replace(true));
    let r = f();
    RECORD.with(|r| r.set(was));
    r
}

/// stop recording; returns the blocks allocated while recording that are still alive
pub fn stop() -> Vec<(usize, usize)> {
    RECORD.with(|r| r.set(false));
    LIVE.with(|l| l.borrow().iter().map(|(a, b)| (*a, *b)).collect())
}

pub fn pause<R>(f: impl FnOnce() -> R) -> R {
    let was = RECORD.with(|r| r.replace(false));
    let r = f();
    RECORD.with(|r| r.set(was));
    r
}

/// is [ptr, ptr+len) inside a block allocated while recording and still alive
pub fn is_live(ptr: usize, len: usize) -> bool {
    let was = BUSY.with(|b| b.replace(true));
    let r = LIVE.with(|l| l.borrow().range(..=ptr).next_back().map(|(a, s)| ptr + len <= a + s).unwrap_or(false));
    BUSY.with(|b| b.set(was));
    r
}
