//! Guest programs: small scripts of runtime API calls, interpreted inside real tasks of the
//! Rust async runtime. Every operation compares what the runtime reports with what the mock
//! host actually transferred.
use crate::host::{self, h, Elem, Holder};
use crate::payload::{Pay, Tok, DEFAULT_VID};
use crate::sched::{self, HostAct};
use serde::{Deserialize, Serialize};
use std::cell::{Cell, RefCell};
use std::future::{Future, IntoFuture};
use std::pin::Pin;
use std::rc::Rc;
use std::task::{Context, Poll, Waker};
use wit_bindgen::rt::async_support as rt;
use wit_bindgen::rt::async_support::{FutureReader, FutureWriter, StreamReader, StreamResult, StreamWriter};

#[derive(Clone, Debug, Hash, Serialize, Deserialize, PartialEq)]
pub enum How {
    Await,
    /// poll once, then cancel
    PollCancel,
    /// poll once, then drop the operation
    PollDrop,
    /// poll once, let the host act (its completion is queued, not delivered), then cancel
    PollActCancel(HostAct),
    PollActDrop(HostAct),
    PollActAwait(HostAct),
}

impl How {
    fn act(&self) -> Option<&HostAct> {
        match self {
            How::PollActCancel(a) | How::PollActDrop(a) | How::PollActAwait(a) => Some(a),
            _ => None,
        }
    }
}

#[derive(Clone, Debug, Hash, Serialize, Deserialize, PartialEq)]
pub enum GOp {
    Write { c: u8, n: u8, how: How },
    WriteAll { c: u8, n: u8 },
    WriteOne { c: u8 },
    DropWriter { c: u8 },
    Read { c: u8, cap: u8, how: How },
    Next { c: u8 },
    Collect { c: u8 },
    /// futures::Stream adapter: take `k` items through `StreamExt::next`
    StreamNext { c: u8, k: u8 },
    DropReader { c: u8 },
    FWrite { c: u8, how: How },
    FRead { c: u8, how: How },
    Call { s: u8, how: How },
    Yield,
    Spawn(Vec<GOp>),
    Join(Vec<GOp>, Vec<GOp>),
    /// run both programs concurrently; when the first one finishes the other is dropped
    Select(Vec<GOp>, Vec<GOp>),
    /// sleep until `Wake` with the same slot ran; the task's waker is stashed in the slot
    Sleep { slot: u8 },
    Wake { slot: u8, times: u8 },
    Host(HostAct),
    /// start a read (streams) / write (futures) on channel `c`, poll it once and park the
    /// operation in a slot, to be completed by whichever task runs `Unpark` on that slot
    Park { c: u8, slot: u8 },
    Unpark { slot: u8 },
}

#[derive(Clone, Copy, Debug, Hash, Serialize, Deserialize, PartialEq)]
pub enum Mode {
    GuestBoth,
    HostReader,
    HostWriter,
}

#[derive(Clone, Debug, Hash, Serialize, Deserialize, PartialEq)]
pub struct ChanSpec {
    pub future: bool,
    pub tok: bool,
    pub mode: Mode,
}

pub struct Ends<P: Pay> {
    // readers first: they are dropped before the writers when the environment goes away
    pub sr: Vec<Option<StreamReader<P>>>,
    pub fr: Vec<Option<FutureReader<P>>>,
    pub sw: Vec<Option<StreamWriter<P>>>,
    pub fw: Vec<Option<FutureWriter<P>>>,
}

impl<P: Pay> Ends<P> {
    fn new(n: usize) -> Self {
        Ends { sr: (0..n).map(|_| None).collect(), fr: (0..n).map(|_| None).collect(), sw: (0..n).map(|_| None).collect(), fw: (0..n).map(|_| None).collect() }
    }
    fn clear(&mut self) {
        self.sr.iter_mut().for_each(|x| *x = None);
        self.fr.iter_mut().for_each(|x| *x = None);
        self.sw.iter_mut().for_each(|x| *x = None);
        self.fw.iter_mut().for_each(|x| *x = None);
    }
}

pub trait HasEnds: Pay {
    fn ends(env: &Env) -> &RefCell<Ends<Self>>;
}
impl HasEnds for u8 {
    fn ends(env: &Env) -> &RefCell<Ends<u8>> {
        &env.u8s
    }
}
impl HasEnds for Tok {
    fn ends(env: &Env) -> &RefCell<Ends<Tok>> {
        &env.toks
    }
}

pub struct Env {
    pub specs: Vec<ChanSpec>,
    /// host channel index of each scenario channel
    pub chan: Vec<usize>,
    pub u8s: RefCell<Ends<u8>>,
    pub toks: RefCell<Ends<Tok>>,
    pub sub_imm: Vec<u32>,
    pub sub_used: RefCell<Vec<bool>>,
    pub wakers: RefCell<Vec<Option<Waker>>>,
    pub flags: RefCell<Vec<bool>>,
    pub next_vid: Cell<u64>,
    pub live_roots: Cell<u32>,
    pub guard_drops: RefCell<Vec<u32>>,
    pub ops_done: Cell<u32>,
    pub wake_log: RefCell<Vec<(usize, bool)>>,
    /// operations started by one task and parked for another one
    pub parked: RefCell<Vec<Option<Pin<Box<dyn Future<Output = ()>>>>>>,
}

pub fn fail(sig: &str, msg: String) {
    h(|x| x.violation(sig, msg))
}

impl Env {
    pub fn new(specs: &[ChanSpec], sub_imm: &[u32], ntasks: usize) -> Rc<Env> {
        let n = specs.len();
        let env = Env {
            specs: specs.to_vec(),
            chan: vec![usize::MAX; n],
            u8s: RefCell::new(Ends::new(n)),
            toks: RefCell::new(Ends::new(n)),
            sub_imm: sub_imm.to_vec(),
            sub_used: RefCell::new(vec![false; sub_imm.len()]),
            wakers: RefCell::new(vec![None; 4]),
            flags: RefCell::new(vec![false; 4]),
            next_vid: Cell::new(1),
            live_roots: Cell::new(ntasks as u32),
            guard_drops: RefCell::new(vec![0; ntasks]),
            ops_done: Cell::new(0),
            wake_log: RefCell::new(vec![]),
            parked: RefCell::new((0..4).map(|_| None).collect()),
        };
        let mut env = env;
        for (i, s) in specs.iter().enumerate() {
            env.chan[i] = if s.tok { setup::<Tok>(&env, i, s) } else { setup::<u8>(&env, i, s) };
        }
        for (i, imm) in sub_imm.iter().enumerate() {
            h(|x| {
                x.subs.push(host::Sub {
                    handle: 0,
                    state: u32::MAX,
                    delivered: None,
                    params_token: 0,
                    results_ptr: 0,
                    result_value: 7000 + i as u64,
                    dropped: 0,
                    cancels: 0,
                    dealloc_lists: 0,
                    dealloc_lists_and_own: 0,
                    results_lift: 0,
                    started_seen_params_alive: None,
                    cancel_late: *imm >= 3,
                });
            });
        }
        Rc::new(env)
    }

    fn vids(&self, n: usize, is_u8: bool) -> Vec<u64> {
        (0..n)
            .map(|_| {
                let v = self.next_vid.get();
                self.next_vid.set(v + 1);
                if is_u8 {
                    v % 251
                } else {
                    v
                }
            })
            .collect()
    }

    /// drop every end the guest still holds (inside a task, readers first)
    pub fn release(&self) {
        // parked operations are in flight: dropping them cancels them (inside this task)
        let parked: Vec<_> = self.parked.borrow_mut().iter_mut().map(|p| p.take()).collect();
        drop(parked);
        self.u8s.borrow_mut().clear();
        self.toks.borrow_mut().clear();
        self.wakers.borrow_mut().iter_mut().for_each(|w| *w = None);
    }
}

fn setup<P: HasEnds>(env: &Env, i: usize, s: &ChanSpec) -> usize {
    let mut ends = P::ends(env).borrow_mut();
    match (s.future, s.mode) {
        (false, Mode::HostWriter) => {
            let c = h(|x| x.new_chan(false, P::ELEM, Holder::Guest, Holder::Host));
            let hnd = h(|x| x.chans[c].r_handle);
            ends.sr[i] = Some(StreamReader::new(hnd, P::svt()));
            c
        }
        (true, Mode::HostWriter) => {
            let c = h(|x| x.new_chan(true, P::ELEM, Holder::Guest, Holder::Host));
            let hnd = h(|x| x.chans[c].r_handle);
            ends.fr[i] = Some(unsafe { FutureReader::new(hnd, P::fvt()) });
            c
        }
        (false, mode) => {
            let (w, r) = unsafe { rt::stream_new::<P>(P::svt()) };
            let c = h(|x| x.chans.len() - 1);
            ends.sw[i] = Some(w);
            if mode == Mode::HostReader {
                // the readable end is handed to the host (as when it is passed to an import)
                let hnd = r.take_handle();
                drop(r);
                h(|x| {
                    x.w.remove(&hnd);
                    x.chans[c].r_holder = Holder::Host;
                });
            } else {
                ends.sr[i] = Some(r);
            }
            c
        }
        (true, mode) => {
            let (w, r) = unsafe { rt::future_new::<P>(P::default_value, P::fvt()) };
            let c = h(|x| x.chans.len() - 1);
            ends.fw[i] = Some(w);
            if mode == Mode::HostReader {
                let hnd = r.take_handle();
                drop(r);
                h(|x| {
                    x.w.remove(&hnd);
                    x.chans[c].r_holder = Holder::Host;
                });
            } else {
                ends.fr[i] = Some(r);
            }
            c
        }
    }
}

/// poll a future exactly once
async fn poll_once<F: Future + ?Sized>(mut f: Pin<&mut F>) -> Poll<F::Output> {
    std::future::poll_fn(|cx| Poll::Ready(f.as_mut().poll(cx))).await
}

pub struct Guard(pub Rc<Env>, pub usize);
impl Drop for Guard {
    fn drop(&mut self) {
        self.0.guard_drops.borrow_mut()[self.1] += 1;
    }
}

/// the root future of component task `task`
pub fn root(env: Rc<Env>, task: usize, prog: Vec<GOp>) -> Pin<Box<dyn Future<Output = ()>>> {
    Box::pin(async move {
        let _guard = Guard(env.clone(), task);
        run(env.clone(), prog).await;
        // the last task to finish gives up the ends it still holds while it is still a task
        env.live_roots.set(env.live_roots.get() - 1);
        if env.live_roots.get() == 0 {
            env.release();
        }
    })
}

pub fn run(env: Rc<Env>, prog: Vec<GOp>) -> Pin<Box<dyn Future<Output = ()>>> {
    Box::pin(async move {
        for op in prog {
            step(&env, op).await;
            env.ops_done.set(env.ops_done.get() + 1);
        }
    })
}

fn pick(env: &Env, c: u8) -> Option<(usize, ChanSpec)> {
    if env.specs.is_empty() {
        return None;
    }
    let i = c as usize % env.specs.len();
    Some((i, env.specs[i].clone()))
}

async fn step(env: &Rc<Env>, op: GOp) {
    match op {
        GOp::Write { c, n, how } => {
            if let Some((i, s)) = pick(env, c) {
                if !s.future {
                    if s.tok { op_write::<Tok>(env, i, n as usize, &how).await } else { op_write::<u8>(env, i, n as usize, &how).await }
                }
            }
        }
        GOp::WriteAll { c, n } => {
            if let Some((i, s)) = pick(env, c) {
                if !s.future {
                    if s.tok { op_write_all::<Tok>(env, i, n as usize, false).await } else { op_write_all::<u8>(env, i, n as usize, false).await }
                }
            }
        }
        GOp::WriteOne { c } => {
            if let Some((i, s)) = pick(env, c) {
                if !s.future {
                    if s.tok { op_write_all::<Tok>(env, i, 1, true).await } else { op_write_all::<u8>(env, i, 1, true).await }
                }
            }
        }
        GOp::DropWriter { c } => {
            if let Some((i, s)) = pick(env, c) {
                if s.tok {
                    let mut e = env.toks.borrow_mut();
                    let (a, b) = (e.sw[i].take(), e.fw[i].take());
                    drop(e);
                    drop((a, b));
                } else {
                    let mut e = env.u8s.borrow_mut();
                    let (a, b) = (e.sw[i].take(), e.fw[i].take());
                    drop(e);
                    drop((a, b));
                }
            }
        }
        GOp::DropReader { c } => {
            if let Some((i, s)) = pick(env, c) {
                if s.tok {
                    let mut e = env.toks.borrow_mut();
                    let (a, b) = (e.sr[i].take(), e.fr[i].take());
                    drop(e);
                    drop((a, b));
                } else {
                    let mut e = env.u8s.borrow_mut();
                    let (a, b) = (e.sr[i].take(), e.fr[i].take());
                    drop(e);
                    drop((a, b));
                }
            }
        }
        GOp::Read { c, cap, how } => {
            if let Some((i, s)) = pick(env, c) {
                if !s.future {
                    if s.tok { op_read::<Tok>(env, i, cap as usize, &how).await } else { op_read::<u8>(env, i, cap as usize, &how).await }
                }
            }
        }
        GOp::Next { c } => {
            if let Some((i, s)) = pick(env, c) {
                if !s.future {
                    if s.tok { op_next::<Tok>(env, i).await } else { op_next::<u8>(env, i).await }
                }
            }
        }
        GOp::Collect { c } => {
            if let Some((i, s)) = pick(env, c) {
                if !s.future {
                    if s.tok { op_collect::<Tok>(env, i).await } else { op_collect::<u8>(env, i).await }
                }
            }
        }
        GOp::StreamNext { c, k } => {
            if let Some((i, s)) = pick(env, c) {
                if !s.future {
                    if s.tok { op_stream_next::<Tok>(env, i, k as usize).await } else { op_stream_next::<u8>(env, i, k as usize).await }
                }
            }
        }
        GOp::FWrite { c, how } => {
            if let Some((i, s)) = pick(env, c) {
                if s.future {
                    if s.tok { op_fwrite::<Tok>(env, i, &how).await } else { op_fwrite::<u8>(env, i, &how).await }
                }
            }
        }
        GOp::FRead { c, how } => {
            if let Some((i, s)) = pick(env, c) {
                if s.future {
                    if s.tok { op_fread::<Tok>(env, i, &how).await } else { op_fread::<u8>(env, i, &how).await }
                }
            }
        }
        GOp::Call { s, how } => op_call(env, s, &how).await,
        GOp::Yield => rt::yield_async().await,
        #[cfg(feature = "spawn")]
        GOp::Spawn(p) => rt::spawn_local(run(env.clone(), p)),
        // without `async-spawn` the sub-program simply runs in place
        #[cfg(not(feature = "spawn"))]
        GOp::Spawn(p) => run(env.clone(), p).await,
        GOp::Join(a, b) => {
            futures::future::join(run(env.clone(), a), run(env.clone(), b)).await;
        }
        GOp::Select(a, b) => {
            // the loser is dropped in the same poll that completes the winner
            let _ = futures::future::select(run(env.clone(), a), run(env.clone(), b)).await;
        }
        GOp::Sleep { slot } => {
            let slot = slot as usize % 4;
            let env2 = env.clone();
            let mut stashed = false;
            std::future::poll_fn(move |cx| {
                if env2.flags.borrow()[slot] {
                    env2.flags.borrow_mut()[slot] = false;
                    return Poll::Ready(());
                }
                if !stashed {
                    stashed = true;
                }
                env2.wakers.borrow_mut()[slot] = Some(cx.waker().clone());
                h(|x| x.t(format!("guest: sleep on slot {slot} (task {})", x.cur_task)));
                Poll::Pending
            })
            .await;
        }
        GOp::Wake { slot, times } => {
            let slot = slot as usize % 4;
            env.flags.borrow_mut()[slot] = true;
            let w = env.wakers.borrow_mut()[slot].take();
            h(|x| x.t(format!("guest: wake slot {slot} x{times} (waker stashed: {})", w.is_some())));
            if let Some(w) = w {
                for _ in 0..times.max(1) {
                    w.wake_by_ref();
                }
                env.wake_log.borrow_mut().push((slot, true));
            }
        }
        GOp::Host(a) => {
            sched::apply(&a);
        }
        GOp::Park { c, slot } => {
            let slot = slot as usize % 4;
            if env.parked.borrow()[slot].is_some() {
                return;
            }
            let Some((i, s)) = pick(env, c) else { return };
            let e2 = env.clone();
            let mut fut: Pin<Box<dyn Future<Output = ()>>> = match (s.future, s.tok) {
                (false, false) => Box::pin(async move { op_read::<u8>(&e2, i, 3, &How::Await).await }),
                (false, true) => Box::pin(async move { op_read::<Tok>(&e2, i, 3, &How::Await).await }),
                (true, false) => Box::pin(async move { op_fread::<u8>(&e2, i, &How::Await).await }),
                (true, true) => Box::pin(async move { op_fread::<Tok>(&e2, i, &How::Await).await }),
            };
            if poll_once(fut.as_mut()).await.is_pending() {
                h(|x| x.t(format!("guest: operation on chan {i} parked in slot {slot} by task {}", x.cur_task)));
                env.parked.borrow_mut()[slot] = Some(fut);
            }
        }
        GOp::Unpark { slot } => {
            let slot = slot as usize % 4;
            let fut = env.parked.borrow_mut()[slot].take();
            if let Some(fut) = fut {
                h(|x| x.t(format!("guest: task {} continues the operation parked in slot {slot}", x.cur_task)));
                fut.await;
            }
        }
    }
}

fn host_chan<R>(env: &Env, i: usize, f: impl FnOnce(&host::Chan) -> R) -> R {
    let c = env.chan[i];
    h(|x| f(&x.chans[c]))
}

async fn op_write<P: HasEnds>(env: &Rc<Env>, i: usize, n: usize, how: &How) {
    let Some(mut w) = P::ends(env).borrow_mut().sw[i].take() else { return };
    let n = n.clamp(1, 40);
    let vids = env.vids(n, P::ELEM == Elem::U8);
    let items: Vec<P> = vids.iter().map(|v| P::make(*v)).collect();
    let before = host_chan(env, i, |c| c.sent.len());
    let done;
    {
        let mut fut = Box::pin(w.write(items));
        done = match how {
            How::Await => Some(fut.as_mut().await),
            _ => match poll_once(fut.as_mut()).await {
                Poll::Ready(r) => Some(r),
                Poll::Pending => {
                    if let Some(a) = how.act() {
                        sched::apply(a);
                    }
                    match how {
                        How::PollCancel | How::PollActCancel(_) => Some(fut.as_mut().cancel()),
                        How::PollActAwait(_) => Some(fut.as_mut().await),
                        _ => None,
                    }
                }
            },
        };
    }
    let (sent, r_dropped) = host_chan(env, i, |c| (c.sent[before..].to_vec(), c.r_dropped));
    let k_host = sent.len();
    if sent[..] != vids[..k_host.min(vids.len())] || k_host > vids.len() {
        fail("stream-write-values", format!("chan {i}: the host received {sent:?} during a write of {vids:?}: not a prefix in order"));
    }
    if let Some((res, buf)) = done {
        let remaining = buf.remaining();
        let rest: Vec<u64> = buf.into_vec().iter().map(|p| p.vid()).collect();
        match res {
            StreamResult::Complete(k) => {
                if k != k_host {
                    fail("stream-write-count", format!("chan {i}: write reported Complete({k}) but the host transferred {k_host} items"));
                }
            }
            StreamResult::Dropped => {
                if k_host != 0 || !r_dropped {
                    fail("stream-write-count", format!("chan {i}: write reported Dropped but the host transferred {k_host} items, reader dropped = {r_dropped}"));
                }
            }
            StreamResult::Cancelled => {
                if k_host != 0 {
                    fail("stream-write-count", format!("chan {i}: write reported Cancelled (nothing written) but the host transferred {k_host} items"));
                }
            }
        }
        if rest != vids[k_host.min(vids.len())..] || remaining != rest.len() {
            fail("stream-write-rest", format!("chan {i}: after a write of {vids:?} with {k_host} items transferred the buffer hands back {rest:?} (remaining() = {remaining})"));
        }
    }
    P::ends(env).borrow_mut().sw[i] = Some(w);
}

async fn op_write_all<P: HasEnds>(env: &Rc<Env>, i: usize, n: usize, one: bool) {
    let Some(mut w) = P::ends(env).borrow_mut().sw[i].take() else { return };
    let n = n.clamp(1, 40);
    let vids = env.vids(n, P::ELEM == Elem::U8);
    let before = host_chan(env, i, |c| c.sent.len());
    let rest: Vec<u64> = if one {
        w.write_one(P::make(vids[0])).await.into_iter().map(|p| p.vid()).collect()
    } else {
        let items: Vec<P> = vids.iter().map(|v| P::make(*v)).collect();
        w.write_all(items).await.iter().map(|p| p.vid()).collect()
    };
    let (sent, r_dropped) = host_chan(env, i, |c| (c.sent[before..].to_vec(), c.r_dropped));
    let k = sent.len().min(vids.len());
    if sent[..] != vids[..k] || sent.len() > vids.len() {
        fail("stream-write-values", format!("chan {i}: the host received {sent:?} during write_all of {vids:?}: not a prefix in order"));
    }
    if rest != vids[k..] {
        fail("stream-write-rest", format!("chan {i}: write_all of {vids:?} transferred {} items but returned {rest:?}", sent.len()));
    }
    if !rest.is_empty() && !r_dropped {
        fail("stream-write-rest", format!("chan {i}: write_all returned unwritten items {rest:?} although the reader is alive"));
    }
    P::ends(env).borrow_mut().sw[i] = Some(w);
}

fn check_read<P: Pay>(env: &Env, i: usize, before: usize, res: StreamResult, got: &[P]) {
    let (recv, w_dropped) = host_chan(env, i, |c| (c.recv[before..].to_vec(), c.w_dropped));
    let got: Vec<u64> = got.iter().map(|p| p.vid()).collect();
    if got != recv {
        fail("stream-read-values", format!("chan {i}: the host delivered {recv:?} into this read, the reader got {got:?}"));
    }
    match res {
        StreamResult::Complete(k) => {
            if k != recv.len() {
                fail("stream-read-count", format!("chan {i}: read reported Complete({k}) but the host transferred {} items", recv.len()));
            }
        }
        StreamResult::Dropped => {
            if !recv.is_empty() || !w_dropped {
                fail("stream-read-count", format!("chan {i}: read reported Dropped, host transferred {} items, writer dropped = {w_dropped}", recv.len()));
            }
        }
        StreamResult::Cancelled => {
            if !recv.is_empty() {
                fail("stream-read-count", format!("chan {i}: read reported Cancelled but the host transferred {} items", recv.len()));
            }
        }
    }
}

async fn op_read<P: HasEnds>(env: &Rc<Env>, i: usize, cap: usize, how: &How) {
    let Some(mut r) = P::ends(env).borrow_mut().sr[i].take() else { return };
    let cap = cap.clamp(1, 40);
    let before = host_chan(env, i, |c| c.recv.len());
    let done;
    {
        let mut fut = Box::pin(r.read(Vec::with_capacity(cap)));
        done = match how {
            How::Await => Some(fut.as_mut().await),
            _ => match poll_once(fut.as_mut()).await {
                Poll::Ready(x) => Some(x),
                Poll::Pending => {
                    if let Some(a) = how.act() {
                        sched::apply(a);
                    }
                    match how {
                        How::PollCancel | How::PollActCancel(_) => Some(fut.as_mut().cancel()),
                        How::PollActAwait(_) => Some(fut.as_mut().await),
                        _ => None,
                    }
                }
            },
        };
    }
    if let Some((res, buf)) = done {
        check_read(env, i, before, res, &buf);
    }
    P::ends(env).borrow_mut().sr[i] = Some(r);
}

async fn op_next<P: HasEnds>(env: &Rc<Env>, i: usize) {
    let Some(mut r) = P::ends(env).borrow_mut().sr[i].take() else { return };
    let before = host_chan(env, i, |c| c.recv.len());
    let got = r.next().await;
    let (recv, w_dropped) = host_chan(env, i, |c| (c.recv[before..].to_vec(), c.w_dropped));
    match &got {
        Some(v) => {
            if recv != [v.vid()] {
                fail("stream-read-values", format!("chan {i}: next() returned {} but the host delivered {recv:?}", v.vid()));
            }
        }
        None => {
            if !recv.is_empty() || !w_dropped {
                fail("stream-read-values", format!("chan {i}: next() returned None but the host delivered {recv:?}, writer dropped = {w_dropped}"));
            }
        }
    }
    P::ends(env).borrow_mut().sr[i] = Some(r);
}

async fn op_collect<P: HasEnds>(env: &Rc<Env>, i: usize) {
    let Some(r) = P::ends(env).borrow_mut().sr[i].take() else { return };
    let before = host_chan(env, i, |c| c.recv.len());
    let got: Vec<u64> = r.collect().await.iter().map(|p| p.vid()).collect();
    let (recv, w_dropped) = host_chan(env, i, |c| (c.recv[before..].to_vec(), c.w_dropped));
    if got != recv || !w_dropped {
        fail("stream-read-values", format!("chan {i}: collect() returned {got:?}, the host delivered {recv:?}, writer dropped = {w_dropped}"));
    }
}

async fn op_stream_next<P: HasEnds>(env: &Rc<Env>, i: usize, k: usize) {
    use futures::StreamExt;
    let Some(r) = P::ends(env).borrow_mut().sr[i].take() else { return };
    let before = host_chan(env, i, |c| c.recv.len());
    let mut st = r.into_stream();
    let mut got = vec![];
    let mut ended = false;
    for _ in 0..k.clamp(1, 6) {
        match st.next().await {
            Some(v) => got.push(v.vid()),
            None => {
                ended = true;
                break;
            }
        }
    }
    let (recv, w_dropped) = host_chan(env, i, |c| (c.recv[before..].to_vec(), c.w_dropped));
    if got != recv || (ended && !w_dropped) {
        fail("stream-read-values", format!("chan {i}: the Stream adapter yielded {got:?} (ended = {ended}), the host delivered {recv:?}, writer dropped = {w_dropped}"));
    }
    if let Some(r) = st.into_inner() {
        P::ends(env).borrow_mut().sr[i] = Some(r);
    }
}

fn default_vid<P: Pay>() -> u64 {
    if P::ELEM == Elem::U8 {
        DEFAULT_VID % 256
    } else {
        DEFAULT_VID
    }
}

async fn op_fwrite<P: HasEnds>(env: &Rc<Env>, i: usize, how: &How) {
    use rt::FutureWriteCancel as C;
    let Some(w) = P::ends(env).borrow_mut().fw[i].take() else { return };
    let vid = env.vids(1, P::ELEM == Elem::U8)[0];
    let mut fut = Box::pin(w.write(P::make(vid)));
    enum Out<P: 'static> {
        Res(Result<(), u64>),
        Cancel(C<P>),
        Dropped,
    }
    let out: Out<P> = match how {
        How::Await => Out::Res(fut.as_mut().await.map_err(|e| e.value.vid())),
        _ => match poll_once(fut.as_mut()).await {
            Poll::Ready(r) => Out::Res(r.map_err(|e| e.value.vid())),
            Poll::Pending => {
                if let Some(a) = how.act() {
                    sched::apply(a);
                }
                match how {
                    How::PollCancel | How::PollActCancel(_) => Out::Cancel(fut.as_mut().cancel()),
                    How::PollActAwait(_) => Out::Res(fut.as_mut().await.map_err(|e| e.value.vid())),
                    _ => Out::Dropped,
                }
            }
        },
    };
    drop(fut);
    let (sent, r_dropped) = host_chan(env, i, |c| (c.sent.clone(), c.r_dropped));
    let delivered = sent == [vid];
    let out = match out {
        Out::Cancel(C::Dropped(v)) => Out::Res(Err(v.vid())),
        Out::Cancel(C::AlreadySent) => Out::Res(Ok(())),
        o => o,
    };
    match out {
        Out::Res(Ok(())) => {
            if !delivered {
                fail("future-write-outcome", format!("future {i}: write of {vid} reported as sent, the host has {sent:?}"));
            }
        }
        Out::Res(Err(v)) => {
            if delivered || !r_dropped || v != vid {
                fail("future-write-outcome", format!("future {i}: write of {vid} reported reader-dropped with value {v}; host has {sent:?}, reader dropped = {r_dropped}"));
            }
        }
        Out::Cancel(C::AlreadySent) | Out::Cancel(C::Dropped(_)) => {}
        Out::Cancel(C::Cancelled(v, w)) => {
            if delivered || v.vid() != vid {
                fail("future-write-outcome", format!("future {i}: write of {vid} reported cancelled with value {} but the host has {sent:?}", v.vid()));
            }
            // nothing runs between the cancellation and this point: a reader that is gone now
            // was gone when the host answered, and the host answers DROPPED then
            if r_dropped {
                fail("future-write-outcome", format!("future {i}: the reader was dropped while the write of {vid} was in flight, so the host answered the cancellation with DROPPED, but the runtime reported Cancelled (and handed the writer back)"));
            }
            P::ends(env).borrow_mut().fw[i] = Some(w);
        }
        Out::Dropped => {
            // the write was dropped in flight: either it was delivered, or the reader is gone,
            // or the runtime must still deliver the default value (checked at the end)
            let _ = default_vid::<P>();
        }
    }
}

async fn op_fread<P: HasEnds>(env: &Rc<Env>, i: usize, how: &How) {
    let Some(r) = P::ends(env).borrow_mut().fr[i].take() else { return };
    let mut fut = Box::pin(r.into_future());
    let got: Option<Result<u64, ()>> = match how {
        How::Await => Some(Ok(fut.as_mut().await.vid())),
        _ => match poll_once(fut.as_mut()).await {
            Poll::Ready(v) => Some(Ok(v.vid())),
            Poll::Pending => {
                if let Some(a) = how.act() {
                    sched::apply(a);
                }
                match how {
                    How::PollCancel | How::PollActCancel(_) => match fut.as_mut().cancel() {
                        Ok(v) => Some(Ok(v.vid())),
                        Err(reader) => {
                            P::ends(env).borrow_mut().fr[i] = Some(reader);
                            Some(Err(()))
                        }
                    },
                    How::PollActAwait(_) => Some(Ok(fut.as_mut().await.vid())),
                    _ => None,
                }
            }
        },
    };
    drop(fut);
    let (sent, recv) = host_chan(env, i, |c| (c.sent.clone(), c.recv.clone()));
    match got {
        Some(Ok(v)) => {
            if recv != [v] {
                fail("future-read-outcome", format!("future {i}: read returned {v}, the host delivered {recv:?} (sent {sent:?})"));
            }
        }
        Some(Err(())) => {
            if !recv.is_empty() {
                fail("future-read-outcome", format!("future {i}: read reported cancelled but the host delivered {recv:?}"));
            }
        }
        None => {}
    }
}

pub struct Imp {
    pub idx: usize,
    pub imm: u32,
}

unsafe impl rt::Subtask for Imp {
    type Params = Tok;
    type ParamsLower = (u64, u64);
    type Results = u64;

    fn abi_layout(&mut self) -> std::alloc::Layout {
        std::alloc::Layout::from_size_align(32, 8).unwrap()
    }
    fn results_offset(&mut self) -> usize {
        16
    }
    unsafe fn call_import(&mut self, p: (u64, u64), results: *mut u8) -> u32 {
        let (idx, imm) = (self.idx, self.imm);
        h(|x| x.sub_call(idx, imm, p.1, results as usize))
    }
    unsafe fn params_lower(&mut self, p: Tok, dst: *mut u8) -> (u64, u64) {
        let r = (p.vid, p.list);
        crate::payload::tok_lower(p, dst);
        r
    }
    unsafe fn params_dealloc_lists(&mut self, p: (u64, u64)) {
        let idx = self.idx;
        h(|x| {
            x.subs[idx].dealloc_lists += 1;
            x.list_transition(p.1, host::ListState::Abi, host::ListState::Freed, &format!("params_dealloc_lists of import#{idx}"));
        });
    }
    unsafe fn params_dealloc_lists_and_own(&mut self, p: (u64, u64)) {
        let idx = self.idx;
        h(|x| {
            x.subs[idx].dealloc_lists_and_own += 1;
            x.list_transition(p.1, host::ListState::Abi, host::ListState::Freed, &format!("params_dealloc_lists_and_own of import#{idx}"));
        });
    }
    unsafe fn results_lift(&mut self, src: *mut u8) -> u64 {
        let idx = self.idx;
        h(|x| x.subs[idx].results_lift += 1);
        *(src as *mut u64)
    }
}

async fn op_call(env: &Rc<Env>, s: u8, how: &How) {
    use rt::Subtask;
    if env.sub_imm.is_empty() {
        return;
    }
    let idx = s as usize % env.sub_imm.len();
    if std::mem::replace(&mut env.sub_used.borrow_mut()[idx], true) {
        return;
    }
    let mut imp = Imp { idx, imm: env.sub_imm[idx] % 3 };
    let vid = env.vids(1, false)[0];
    let mut fut = Box::pin(imp.call(Tok::make(vid)));
    let got = match how {
        How::Await | How::PollCancel | How::PollActCancel(_) => Some(fut.as_mut().await),
        _ => match poll_once(fut.as_mut()).await {
            Poll::Ready(v) => Some(v),
            Poll::Pending => {
                if let Some(a) = how.act() {
                    sched::apply(a);
                }
                match how {
                    How::PollActAwait(_) => Some(fut.as_mut().await),
                    _ => None,
                }
            }
        },
    };
    drop(fut);
    if let Some(v) = got {
        let want = h(|x| x.subs[idx].result_value);
        if v != want {
            fail("import-result", format!("import#{idx}: the call returned {v}, the callee returned {want}"));
        }
    }
}

#[allow(dead_code)]
fn _use(_: &mut Context<'_>) {}
