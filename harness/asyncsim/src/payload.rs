//! Payload types of the simulated streams/futures: `u8` (canonical representation, copied
//! as bytes) and `Tok` (needs lowering/lifting and owns a simulated list buffer tracked in
//! the host's ledger, so double frees and leaks are observable without real memory errors).
use crate::host::{self, h, Elem, Holder, ListState};
use std::alloc::Layout;
use wit_bindgen::rt::async_support::{FutureVtable, StreamVtable};

pub const DEFAULT_VID: u64 = 0xdef;

pub trait Pay: Sized + 'static {
    const ELEM: Elem;
    fn make(vid: u64) -> Self;
    fn vid(&self) -> u64;
    fn svt() -> &'static StreamVtable<Self>;
    fn fvt() -> &'static FutureVtable<Self>;
    fn default_value() -> Self;
}

fn pack(c: usize) -> u64 {
    h(|x| ((x.chans[c].w_handle as u64) << 32) | x.chans[c].r_handle as u64)
}

unsafe extern "C" fn s_new_u8() -> u64 {
    pack(h(|x| x.new_chan(false, Elem::U8, Holder::Guest, Holder::Guest)))
}
unsafe extern "C" fn s_new_tok() -> u64 {
    pack(h(|x| x.new_chan(false, Elem::Tok, Holder::Guest, Holder::Guest)))
}
unsafe extern "C" fn f_new_u8() -> u64 {
    pack(h(|x| x.new_chan(true, Elem::U8, Holder::Guest, Holder::Guest)))
}
unsafe extern "C" fn f_new_tok() -> u64 {
    pack(h(|x| x.new_chan(true, Elem::Tok, Holder::Guest, Holder::Guest)))
}

static SVT_U8: StreamVtable<u8> = StreamVtable {
    layout: unsafe { Layout::from_size_align_unchecked(1, 1) },
    lower: None,
    dealloc_lists: None,
    lift: None,
    start_write: host::s_write,
    start_read: host::s_read,
    cancel_write: host::c_cancel_w,
    cancel_read: host::c_cancel_r,
    drop_writable: host::c_drop_w,
    drop_readable: host::c_drop_r,
    new: s_new_u8,
};

unsafe fn u8_lower(v: u8, dst: *mut u8) {
    *dst = v;
}
unsafe fn u8_lift(dst: *mut u8) -> u8 {
    *dst
}
unsafe fn u8_dealloc(_: *mut u8) {}

static FVT_U8: FutureVtable<u8> = FutureVtable {
    layout: unsafe { Layout::from_size_align_unchecked(1, 1) },
    lower: u8_lower,
    dealloc_lists: u8_dealloc,
    lift: u8_lift,
    start_write: host::f_write,
    start_read: host::f_read,
    cancel_write: host::c_cancel_w,
    cancel_read: host::c_cancel_r,
    drop_writable: host::c_drop_w,
    drop_readable: host::c_drop_r,
    new: f_new_u8,
};

impl Pay for u8 {
    const ELEM: Elem = Elem::U8;
    fn make(vid: u64) -> u8 {
        vid as u8
    }
    fn vid(&self) -> u64 {
        *self as u64
    }
    fn svt() -> &'static StreamVtable<u8> {
        &SVT_U8
    }
    fn fvt() -> &'static FutureVtable<u8> {
        &FVT_U8
    }
    fn default_value() -> u8 {
        DEFAULT_VID as u8
    }
}

/// a value owning one simulated list buffer
#[derive(Debug)]
pub struct Tok {
    pub vid: u64,
    pub list: u64,
}

impl Drop for Tok {
    fn drop(&mut self) {
        let (l, v) = (self.list, self.vid);
        h(|x| x.list_transition(l, ListState::Rust, ListState::Freed, &format!("drop of Rust value {v}")));
    }
}

pub unsafe fn tok_lower(v: Tok, dst: *mut u8) {
    let slot = dst as *mut u64;
    *slot = v.vid;
    *slot.add(1) = v.list;
    let (l, vid) = (v.list, v.vid);
    std::mem::forget(v);
    h(|x| x.list_transition(l, ListState::Rust, ListState::Abi, &format!("lower of value {vid}")));
}
pub unsafe fn tok_lift(dst: *mut u8) -> Tok {
    let slot = dst as *mut u64;
    let (vid, list) = (*slot, *slot.add(1));
    h(|x| x.list_transition(list, ListState::Abi, ListState::Rust, &format!("lift of value {vid}")));
    Tok { vid, list }
}
pub unsafe fn tok_dealloc(dst: *mut u8) {
    let slot = dst as *mut u64;
    let (vid, list) = (*slot, *slot.add(1));
    h(|x| x.list_transition(list, ListState::Abi, ListState::Freed, &format!("dealloc_lists of lowered value {vid}")));
}

static SVT_TOK: StreamVtable<Tok> = StreamVtable {
    layout: unsafe { Layout::from_size_align_unchecked(host::TOK_SIZE, 8) },
    lower: Some(tok_lower),
    dealloc_lists: Some(tok_dealloc),
    lift: Some(tok_lift),
    start_write: host::s_write,
    start_read: host::s_read,
    cancel_write: host::c_cancel_w,
    cancel_read: host::c_cancel_r,
    drop_writable: host::c_drop_w,
    drop_readable: host::c_drop_r,
    new: s_new_tok,
};

static FVT_TOK: FutureVtable<Tok> = FutureVtable {
    layout: unsafe { Layout::from_size_align_unchecked(host::TOK_SIZE, 8) },
    lower: tok_lower,
    dealloc_lists: tok_dealloc,
    lift: tok_lift,
    start_write: host::f_write,
    start_read: host::f_read,
    cancel_write: host::c_cancel_w,
    cancel_read: host::c_cancel_r,
    drop_writable: host::c_drop_w,
    drop_readable: host::c_drop_r,
    new: f_new_tok,
};

impl Pay for Tok {
    const ELEM: Elem = Elem::Tok;
    fn make(vid: u64) -> Tok {
        Tok { vid, list: h(|x| x.list_new(ListState::Rust)) }
    }
    fn vid(&self) -> u64 {
        self.vid
    }
    fn svt() -> &'static StreamVtable<Tok> {
        &SVT_TOK
    }
    fn fvt() -> &'static FutureVtable<Tok> {
        &FVT_TOK
    }
    fn default_value() -> Tok {
        Tok::make(DEFAULT_VID)
    }
}
