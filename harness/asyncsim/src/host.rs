//! A mock component-model async host: waitable sets, stream/future rendezvous, subtasks,
//! context slots — the canonical built-ins the Rust async runtime calls, as a model that
//! records every protocol violation instead of trapping.
//!
//! Everything here is written from the component-model async explainer / canonical ABI
//! definitions, not from the runtime under test.
#![allow(clippy::missing_safety_doc)]
use std::cell::RefCell;
use std::collections::{BTreeMap, VecDeque};

pub const EVENT_NONE: u32 = 0;
pub const EVENT_SUBTASK: u32 = 1;
pub const EVENT_STREAM_READ: u32 = 2;
pub const EVENT_STREAM_WRITE: u32 = 3;
pub const EVENT_FUTURE_READ: u32 = 4;
pub const EVENT_FUTURE_WRITE: u32 = 5;
pub const EVENT_CANCEL: u32 = 6;

pub const BLOCKED: u32 = 0xffff_ffff;
pub const COMPLETED: u32 = 0;
pub const DROPPED: u32 = 1;
pub const CANCELLED: u32 = 2;

pub const ST_STARTING: u32 = 0;
pub const ST_STARTED: u32 = 1;
pub const ST_RETURNED: u32 = 2;
pub const ST_STARTED_CANCELLED: u32 = 3;
pub const ST_RETURNED_CANCELLED: u32 = 4;

/// size of one lowered `Tok` element: (value id, list token)
pub const TOK_SIZE: usize = 16;

#[derive(Clone, Copy, PartialEq, Eq, Debug)]
pub enum Elem {
    U8,
    Tok,
    Unit,
}

impl Elem {
    pub fn size(self) -> usize {
        match self {
            Elem::U8 => 1,
            Elem::Tok => TOK_SIZE,
            Elem::Unit => 0,
        }
    }
}

#[derive(Clone, Copy, PartialEq, Eq, Debug)]
pub enum Holder {
    Guest,
    Host,
}

#[derive(Clone, Copy, PartialEq, Eq, Debug)]
pub enum WKind {
    ChanR(usize),
    ChanW(usize),
    Sub(usize),
}

#[derive(Debug)]
pub struct Waitable {
    pub kind: WKind,
    pub set: u32,
    pub event: Option<(u32, u32)>,
    pub alive: bool,
}

#[derive(Debug, Default, Clone, Copy)]
pub struct Pend {
    pub ptr: usize,
    pub len: usize,
}

#[derive(Debug)]
pub struct Chan {
    pub is_future: bool,
    pub elem: Elem,
    pub r_holder: Holder,
    pub w_holder: Holder,
    pub r_handle: u32,
    pub w_handle: u32,
    pub r_dropped: bool,
    pub w_dropped: bool,
    pub pend_w: Option<Pend>,
    pub pend_r: Option<Pend>,
    /// host reader waiting with this capacity
    pub host_r_cap: usize,
    /// host writer's buffered items
    pub host_w_items: VecDeque<u64>,
    /// value ids that left the writer, in order
    pub sent: Vec<u64>,
    /// value ids that arrived at the reader, in order
    pub recv: Vec<u64>,
    /// number of start-write / start-read calls (unit streams: wakeup accounting)
    pub writes_started: u32,
    pub reads_started: u32,
    pub read_cancels: u32,
}

#[derive(Debug)]
pub struct Sub {
    pub handle: u32,
    pub state: u32,
    /// the state the guest has been told about (return value, delivered event or cancel result)
    pub delivered: Option<u32>,
    pub params_token: u64,
    pub results_ptr: usize,
    pub result_value: u64,
    pub dropped: u32,
    pub cancels: u32,
    /// ledger of the instrumented `Subtask` implementation
    pub dealloc_lists: u32,
    pub dealloc_lists_and_own: u32,
    pub results_lift: u32,
    pub started_seen_params_alive: Option<bool>,
    /// a cancellation that arrives while STARTING finds the callee already started and
    /// finished (RETURNED_CANCELLED) instead of not started (STARTED_CANCELLED)
    pub cancel_late: bool,
}

#[derive(Clone, Copy, PartialEq, Eq, Debug)]
pub enum ListState {
    /// owned by a Rust value
    Rust,
    /// owned by a lowered ABI slot
    Abi,
    Freed,
}

#[derive(Default)]
pub struct TaskInfo {
    pub ctx: usize,
    pub sets: Vec<u32>,
    pub exited: bool,
    pub callbacks: u32,
    pub yields: u32,
    pub waits: u32,
}

#[derive(Default)]
pub struct Host {
    pub viol: Vec<(String, String)>,
    pub trace: Vec<String>,
    pub cur_task: usize,
    pub tasks: Vec<TaskInfo>,
    pub p3: usize,
    pub in_callback: bool,
    next: u32,
    /// set handle -> (alive, creating task)
    pub sets: BTreeMap<u32, (bool, usize)>,
    pub w: BTreeMap<u32, Waitable>,
    pub chans: Vec<Chan>,
    pub subs: Vec<Sub>,
    pub lists: BTreeMap<u64, ListState>,
    next_list: u64,
    /// what the next `[stream-new-unit]`-style constructor call should create
    pub unit_chans: Vec<usize>,
    pub task_cancels: u32,
    /// reads and writes started in this scenario (a runaway guest loop is cut off)
    pub ops: u32,
}

thread_local! {
    pub static H: RefCell<Host> = RefCell::new(Host::default());
}

pub fn h<R>(f: impl FnOnce(&mut Host) -> R) -> R {
    // the host's own bookkeeping is not part of the guest heap
    crate::alloc_track::pause(|| H.with(|x| f(&mut x.borrow_mut())))
}

pub fn reset() {
    h(|x| {
        *x = Host::default();
        x.next = 10;
        x.next_list = 1;
    })
}

impl Host {
    pub fn violation(&mut self, sig: &str, msg: String) {
        self.trace.push(format!("!! {sig}: {msg}"));
        if self.viol.len() < 16 {
            self.viol.push((sig.to_string(), msg));
        }
    }

    pub fn t(&mut self, s: String) {
        if self.trace.len() < 400 {
            self.trace.push(s);
        }
    }

    /// no scenario needs more than a few hundred reads/writes: beyond the budget the host
    /// answers DROPPED so that a guest loop that never terminates is reported, not run forever
    fn over_budget(&mut self, what: &str) -> bool {
        self.ops += 1;
        if self.ops == 5000 {
            self.violation("livelock", format!("the guest started {} stream/future operations (last: {what}) without finishing its program: it loops without making progress", self.ops));
        }
        self.ops >= 5000
    }

    fn fresh(&mut self) -> u32 {
        self.next += 1;
        self.next
    }

    // ------------------------------------------------------------- list ledger

    pub fn list_new(&mut self, st: ListState) -> u64 {
        self.next_list += 1;
        self.lists.insert(self.next_list, st);
        self.next_list
    }

    pub fn list_transition(&mut self, tok: u64, from: ListState, to: ListState, what: &str) {
        match self.lists.get(&tok).copied() {
            Some(s) if s == from => {
                self.lists.insert(tok, to);
            }
            other => self.violation("heap-ledger", format!("{what}: list buffer #{tok} is {other:?}, expected {from:?} (double free, use after free or free of memory owned elsewhere)")),
        }
    }

    // ------------------------------------------------------------- channels

    pub fn new_chan(&mut self, is_future: bool, elem: Elem, r_holder: Holder, w_holder: Holder) -> usize {
        let (r, w) = (self.fresh(), self.fresh());
        let idx = self.chans.len();
        self.chans.push(Chan {
            is_future,
            elem,
            r_holder,
            w_holder,
            r_handle: r,
            w_handle: w,
            r_dropped: false,
            w_dropped: false,
            pend_w: None,
            pend_r: None,
            host_r_cap: 0,
            host_w_items: VecDeque::new(),
            sent: vec![],
            recv: vec![],
            writes_started: 0,
            reads_started: 0,
            read_cancels: 0,
        });
        if r_holder == Holder::Guest {
            self.w.insert(r, Waitable { kind: WKind::ChanR(idx), set: 0, event: None, alive: true });
        }
        if w_holder == Holder::Guest {
            self.w.insert(w, Waitable { kind: WKind::ChanW(idx), set: 0, event: None, alive: true });
        }
        self.t(format!("chan#{idx} new future={is_future} {elem:?} r={r}({r_holder:?}) w={w}({w_holder:?})"));
        idx
    }

    fn chan_of(&mut self, handle: u32, want_writer: bool, what: &str) -> Option<usize> {
        match self.w.get(&handle) {
            Some(Waitable { kind: WKind::ChanW(c), alive: true, .. }) if want_writer => Some(*c),
            Some(Waitable { kind: WKind::ChanR(c), alive: true, .. }) if !want_writer => Some(*c),
            other => {
                let d = format!("{other:?}");
                self.violation("bad-handle", format!("{what}({handle}): not a live {} end ({d})", if want_writer { "writable" } else { "readable" }));
                None
            }
        }
    }

    /// copy `k` items from the writer side to the reader side
    unsafe fn transfer(&mut self, c: usize, k: usize, src: Option<usize>, dst: Option<usize>) {
        let elem = self.chans[c].elem;
        for i in 0..k {
            // read one item
            let vid: u64 = match (src, elem) {
                (Some(p), Elem::U8) => *((p + i) as *const u8) as u64,
                (Some(p), Elem::Tok) => {
                    let slot = (p + i * TOK_SIZE) as *const u64;
                    let (vid, tok) = (*slot, *slot.add(1));
                    // the host reads the list while copying: it must still be owned by the ABI slot
                    if self.lists.get(&tok).copied() != Some(ListState::Abi) {
                        let st = self.lists.get(&tok).copied();
                        self.violation("heap-ledger", format!("host copies item {vid} of chan#{c} but its list buffer #{tok} is {st:?}, not owned by the lowered slot"));
                    }
                    vid
                }
                (Some(_), Elem::Unit) => 0,
                (None, _) => self.chans[c].host_w_items.pop_front().expect("host writer has the items"),
            };
            self.chans[c].sent.push(vid);
            match (dst, elem) {
                (Some(p), Elem::U8) => *((p + i) as *mut u8) = vid as u8,
                (Some(p), Elem::Tok) => {
                    let tok = self.list_new(ListState::Abi);
                    let slot = (p + i * TOK_SIZE) as *mut u64;
                    *slot = vid;
                    *slot.add(1) = tok;
                }
                _ => {}
            }
            self.chans[c].recv.push(vid);
        }
    }

    fn code(&self, c: usize, kind: u32, k: usize) -> u32 {
        if self.chans[c].is_future {
            kind
        } else {
            kind | ((k as u32) << 4)
        }
    }

    pub unsafe fn chan_write(&mut self, handle: u32, ptr: usize, len: usize) -> u32 {
        let Some(c) = self.chan_of(handle, true, "write") else { return DROPPED };
        self.chans[c].writes_started += 1;
        if self.over_budget("write") {
            return self.code(c, DROPPED, 0);
        }
        let len = if self.chans[c].is_future { 1 } else { len };
        if self.chans[c].pend_w.is_some() || self.w[&handle].event.is_some() {
            self.violation("busy-end", format!("write({handle}) while a previous write on that end is in flight or its completion is undelivered (the host traps)"));
            return self.code(c, DROPPED, 0);
        }
        if self.chans[c].is_future && !self.chans[c].sent.is_empty() {
            self.violation("future-written-twice", format!("future.write({handle}) after a value was already delivered"));
        }
        if self.chans[c].r_dropped {
            self.t(format!("write({handle}) -> DROPPED"));
            return self.code(c, DROPPED, 0);
        }
        if let Some(pr) = self.chans[c].pend_r.take() {
            let k = len.min(pr.len);
            self.transfer(c, k, Some(ptr), Some(pr.ptr));
            let rh = self.chans[c].r_handle;
            let ev = if self.chans[c].is_future { EVENT_FUTURE_READ } else { EVENT_STREAM_READ };
            let code = self.code(c, COMPLETED, k);
            self.w.get_mut(&rh).unwrap().event = Some((ev, code));
            self.t(format!("write({handle}, len {len}) met pending guest read: {k} items"));
            return code;
        }
        if self.chans[c].r_holder == Holder::Host && self.chans[c].host_r_cap > 0 {
            let k = len.min(self.chans[c].host_r_cap);
            self.chans[c].host_r_cap = 0;
            self.transfer(c, k, Some(ptr), None);
            self.t(format!("write({handle}, len {len}) met waiting host reader: {k} items"));
            return self.code(c, COMPLETED, k);
        }
        self.chans[c].pend_w = Some(Pend { ptr, len });
        self.t(format!("write({handle}, len {len}) -> BLOCKED"));
        BLOCKED
    }

    pub unsafe fn chan_read(&mut self, handle: u32, ptr: usize, cap: usize) -> u32 {
        let Some(c) = self.chan_of(handle, false, "read") else { return DROPPED };
        self.chans[c].reads_started += 1;
        if self.over_budget("read") {
            return self.code(c, DROPPED, 0);
        }
        let cap = if self.chans[c].is_future { 1 } else { cap };
        if self.chans[c].pend_r.is_some() || self.w[&handle].event.is_some() {
            self.violation("busy-end", format!("read({handle}) while a previous read on that end is in flight or its completion is undelivered (the host traps)"));
            return self.code(c, DROPPED, 0);
        }
        if let Some(pw) = self.chans[c].pend_w.take() {
            let k = cap.min(pw.len);
            self.transfer(c, k, Some(pw.ptr), Some(ptr));
            let wh = self.chans[c].w_handle;
            let ev = if self.chans[c].is_future { EVENT_FUTURE_WRITE } else { EVENT_STREAM_WRITE };
            let code = self.code(c, COMPLETED, k);
            self.w.get_mut(&wh).unwrap().event = Some((ev, code));
            self.t(format!("read({handle}, cap {cap}) met pending guest write: {k} items"));
            return code;
        }
        if !self.chans[c].host_w_items.is_empty() {
            let k = cap.min(self.chans[c].host_w_items.len());
            self.transfer(c, k, None, Some(ptr));
            // a host writer that dropped after buffering: report it together with the last items
            let kind = if self.chans[c].w_dropped && self.chans[c].host_w_items.is_empty() && !self.chans[c].is_future { DROPPED } else { COMPLETED };
            self.t(format!("read({handle}, cap {cap}) took {k} buffered host items"));
            return self.code(c, kind, k);
        }
        if self.chans[c].w_dropped {
            self.t(format!("read({handle}) -> DROPPED"));
            return self.code(c, DROPPED, 0);
        }
        self.chans[c].pend_r = Some(Pend { ptr, len: cap });
        self.t(format!("read({handle}, cap {cap}) -> BLOCKED"));
        BLOCKED
    }

    pub fn chan_cancel(&mut self, handle: u32, writer: bool) -> u32 {
        let what = if writer { "cancel-write" } else { "cancel-read" };
        let Some(c) = self.chan_of(handle, writer, what) else { return CANCELLED };
        if !writer {
            self.chans[c].read_cancels += 1;
        }
        if self.w[&handle].set != 0 {
            let s = self.w[&handle].set;
            self.violation("cancel-while-joined", format!("{what}({handle}) while the waitable is still joined to set {s}"));
        }
        if let Some((_, payload)) = self.w.get_mut(&handle).unwrap().event.take() {
            self.t(format!("{what}({handle}) -> already completed, payload {payload:#x}"));
            return payload;
        }
        let pend = if writer { self.chans[c].pend_w.take() } else { self.chans[c].pend_r.take() };
        if pend.is_none() {
            self.violation("cancel-without-op", format!("{what}({handle}) but no operation is in flight on that end (the host traps)"));
        }
        self.t(format!("{what}({handle}) -> CANCELLED"));
        self.code(c, CANCELLED, 0)
    }

    pub fn chan_drop(&mut self, handle: u32, writer: bool) {
        let what = if writer { "drop-writable" } else { "drop-readable" };
        let Some(c) = self.chan_of(handle, writer, what) else { return };
        let wt = self.w.get_mut(&handle).unwrap();
        wt.alive = false;
        let (set, ev) = (wt.set, wt.event.take());
        if set != 0 {
            self.violation("drop-while-joined", format!("{what}({handle}) while the waitable is still joined to set {set}"));
            self.w.get_mut(&handle).unwrap().set = 0;
        }
        if ev.is_some() {
            self.violation("drop-with-pending-event", format!("{what}({handle}) while a completion event {ev:?} is undelivered (the host traps)"));
        }
        let busy = if writer { self.chans[c].pend_w.take().is_some() } else { self.chans[c].pend_r.take().is_some() };
        if busy {
            self.violation("drop-while-busy", format!("{what}({handle}) while a read/write on that end is still in flight (the host traps)"));
        }
        self.t(format!("{what}({handle})"));
        if writer {
            if self.chans[c].is_future && self.chans[c].sent.is_empty() && !self.chans[c].r_dropped {
                self.violation("future-writer-stranded", format!("future.drop-writable({handle}) before a value was written and while the readable end is alive (the host traps)"));
            }
            self.chans[c].w_dropped = true;
            if let Some(_pr) = self.chans[c].pend_r.take() {
                let rh = self.chans[c].r_handle;
                let ev = if self.chans[c].is_future { EVENT_FUTURE_READ } else { EVENT_STREAM_READ };
                let code = self.code(c, DROPPED, 0);
                if self.chans[c].is_future {
                    // a future reader never observes DROPPED: the writer above was a violation already
                } else {
                    self.w.get_mut(&rh).unwrap().event = Some((ev, code));
                }
            }
        } else {
            self.chans[c].r_dropped = true;
            if let Some(_pw) = self.chans[c].pend_w.take() {
                let wh = self.chans[c].w_handle;
                let ev = if self.chans[c].is_future { EVENT_FUTURE_WRITE } else { EVENT_STREAM_WRITE };
                let code = self.code(c, DROPPED, 0);
                self.w.get_mut(&wh).unwrap().event = Some((ev, code));
            }
        }
    }

    // ------------------------------------------------------------- host-side peer actions

    /// the host reader takes up to `n` items; `then_drop`: it drops its end right afterwards
    pub unsafe fn host_take(&mut self, c: usize, n: usize, then_drop: bool) -> bool {
        if self.chans[c].r_holder != Holder::Host || self.chans[c].r_dropped {
            return false;
        }
        let mut acted = false;
        if let Some(pw) = self.chans[c].pend_w.take() {
            let k = n.min(pw.len).max(1);
            self.transfer(c, k, Some(pw.ptr), None);
            let wh = self.chans[c].w_handle;
            let ev = if self.chans[c].is_future { EVENT_FUTURE_WRITE } else { EVENT_STREAM_WRITE };
            let kind = if then_drop && !self.chans[c].is_future { DROPPED } else { COMPLETED };
            let code = self.code(c, kind, k);
            self.w.get_mut(&wh).unwrap().event = Some((ev, code));
            self.t(format!("host takes {k} items from chan#{c} (then_drop={then_drop})"));
            acted = true;
        } else if !then_drop {
            if self.chans[c].host_r_cap == 0 {
                self.chans[c].host_r_cap = n.max(1);
                self.t(format!("host reader of chan#{c} waits for up to {n} items"));
                acted = true;
            }
        }
        if then_drop {
            self.chans[c].r_dropped = true;
            self.chans[c].host_r_cap = 0;
            self.t(format!("host drops the readable end of chan#{c}"));
            acted = true;
        }
        acted
    }

    /// the host writer offers `vids`; `then_drop`: it drops its end afterwards
    pub unsafe fn host_give(&mut self, c: usize, vids: &[u64], then_drop: bool) -> bool {
        if self.chans[c].w_holder != Holder::Host || self.chans[c].w_dropped {
            return false;
        }
        if self.chans[c].is_future && (!self.chans[c].sent.is_empty() || !self.chans[c].host_w_items.is_empty()) {
            return false;
        }
        self.chans[c].host_w_items.extend(vids.iter().copied());
        let mut left_waiting = false;
        if let Some(pr) = self.chans[c].pend_r.take() {
            let k = pr.len.min(self.chans[c].host_w_items.len());
            if k > 0 {
                self.transfer(c, k, None, Some(pr.ptr));
                let rh = self.chans[c].r_handle;
                let ev = if self.chans[c].is_future { EVENT_FUTURE_READ } else { EVENT_STREAM_READ };
                let kind = if then_drop && self.chans[c].host_w_items.is_empty() && !self.chans[c].is_future { DROPPED } else { COMPLETED };
                let code = self.code(c, kind, k);
                self.w.get_mut(&rh).unwrap().event = Some((ev, code));
            } else {
                self.chans[c].pend_r = Some(pr);
                left_waiting = true;
            }
        }
        self.t(format!("host gives {} items to chan#{c} (then_drop={then_drop})", vids.len()));
        if then_drop && !self.chans[c].is_future {
            self.chans[c].w_dropped = true;
            if left_waiting {
                let _ = self.chans[c].pend_r.take();
                let rh = self.chans[c].r_handle;
                let code = self.code(c, DROPPED, 0);
                self.w.get_mut(&rh).unwrap().event = Some((EVENT_STREAM_READ, code));
            }
        }
        true
    }

    /// host drops whichever end it holds (streams; a future's writable end must write first)
    pub fn host_drop_end(&mut self, c: usize) -> bool {
        if self.chans[c].r_holder == Holder::Host && !self.chans[c].r_dropped {
            self.chans[c].r_dropped = true;
            self.chans[c].host_r_cap = 0;
            if self.chans[c].pend_w.take().is_some() {
                let wh = self.chans[c].w_handle;
                let ev = if self.chans[c].is_future { EVENT_FUTURE_WRITE } else { EVENT_STREAM_WRITE };
                let code = self.code(c, DROPPED, 0);
                self.w.get_mut(&wh).unwrap().event = Some((ev, code));
            }
            self.t(format!("host drops the readable end of chan#{c}"));
            return true;
        }
        if self.chans[c].w_holder == Holder::Host && !self.chans[c].w_dropped && !self.chans[c].is_future {
            self.chans[c].w_dropped = true;
            if self.chans[c].host_w_items.is_empty() && self.chans[c].pend_r.take().is_some() {
                let rh = self.chans[c].r_handle;
                let code = self.code(c, DROPPED, 0);
                self.w.get_mut(&rh).unwrap().event = Some((EVENT_STREAM_READ, code));
            }
            self.t(format!("host drops the writable end of chan#{c}"));
            return true;
        }
        false
    }

    // ------------------------------------------------------------- subtasks

    /// `imm`: status returned by the call itself (STARTING, STARTED or RETURNED)
    pub unsafe fn sub_call(&mut self, idx: usize, imm: u32, params_token: u64, results_ptr: usize) -> u32 {
        let s = &mut self.subs[idx];
        s.params_token = params_token;
        s.results_ptr = results_ptr;
        s.state = imm;
        s.delivered = Some(imm);
        if imm >= ST_STARTED {
            self.sub_observe_start(idx);
        }
        if imm == ST_RETURNED {
            let v = self.subs[idx].result_value;
            *(results_ptr as *mut u64) = v;
            self.t(format!("import#{idx} call -> RETURNED immediately"));
            return ST_RETURNED;
        }
        let hnd = self.fresh();
        self.subs[idx].handle = hnd;
        self.w.insert(hnd, Waitable { kind: WKind::Sub(idx), set: 0, event: None, alive: true });
        self.t(format!("import#{idx} call -> status {imm} subtask {hnd}"));
        imm | (hnd << 4)
    }

    fn sub_observe_start(&mut self, idx: usize) {
        // the callee reads its parameters when it starts
        let tok = self.subs[idx].params_token;
        let alive = self.lists.get(&tok).copied() == Some(ListState::Abi);
        self.subs[idx].started_seen_params_alive = Some(alive);
        if !alive {
            let st = self.lists.get(&tok).copied();
            self.violation("params-freed-before-start", format!("import#{idx}: the callee starts and reads its lowered parameters, but their list buffer #{tok} is {st:?}"));
        }
    }

    /// the callee makes progress: STARTING -> STARTED -> RETURNED
    pub unsafe fn sub_advance(&mut self, idx: usize) -> bool {
        let (state, hnd) = (self.subs[idx].state, self.subs[idx].handle);
        if hnd == 0 || !self.w.get(&hnd).map(|w| w.alive).unwrap_or(false) || self.w[&hnd].event.is_some() {
            return false;
        }
        let next = match state {
            ST_STARTING => ST_STARTED,
            ST_STARTED => ST_RETURNED,
            _ => return false,
        };
        if next == ST_STARTED {
            self.sub_observe_start(idx);
        } else {
            let (p, v) = (self.subs[idx].results_ptr, self.subs[idx].result_value);
            if !crate::alloc_track::is_live(p, 8) {
                self.violation("results-buffer-freed", format!("import#{idx} returns and the host writes its result, but the results buffer {p:#x} is not a live allocation"));
            } else {
                *(p as *mut u64) = v;
            }
        }
        self.subs[idx].state = next;
        self.w.get_mut(&hnd).unwrap().event = Some((EVENT_SUBTASK, next));
        self.t(format!("import#{idx} subtask {hnd} -> status {next}"));
        true
    }

    pub fn sub_of(&self, hnd: u32) -> Option<usize> {
        match self.w.get(&hnd) {
            Some(Waitable { kind: WKind::Sub(i), .. }) => Some(*i),
            _ => None,
        }
    }

    pub fn subtask_cancel(&mut self, hnd: u32) -> u32 {
        let Some(idx) = self.sub_of(hnd) else {
            self.violation("bad-handle", format!("subtask.cancel({hnd}): no such subtask"));
            return ST_RETURNED_CANCELLED;
        };
        self.subs[idx].cancels += 1;
        if self.w[&hnd].set != 0 {
            let s = self.w[&hnd].set;
            self.violation("cancel-while-joined", format!("subtask.cancel({hnd}) while the subtask is still joined to set {s}"));
        }
        if let Some((_, st)) = self.w.get_mut(&hnd).unwrap().event.take() {
            self.subs[idx].delivered = Some(st);
            if st == ST_RETURNED {
                self.t(format!("subtask.cancel({hnd}) -> already RETURNED"));
                return st;
            }
            // a STARTED notification was pending: cancellation proceeds from STARTED
        }
        let st = self.subs[idx].state;
        let r = match st {
            ST_STARTING if self.subs[idx].cancel_late => {
                // the callee started (and read its parameters) before the cancellation reached it
                self.sub_observe_start(idx);
                ST_RETURNED_CANCELLED
            }
            ST_STARTING => ST_STARTED_CANCELLED,
            ST_STARTED => ST_RETURNED_CANCELLED,
            other => {
                self.violation("cancel-finished-subtask", format!("subtask.cancel({hnd}) in state {other}: only a call still in progress may be cancelled (the host traps)"));
                ST_RETURNED_CANCELLED
            }
        };
        self.subs[idx].state = r;
        self.subs[idx].delivered = Some(r);
        self.t(format!("subtask.cancel({hnd}) -> {r}"));
        r
    }

    pub fn subtask_drop(&mut self, hnd: u32) {
        let Some(idx) = self.sub_of(hnd) else {
            self.violation("bad-handle", format!("subtask.drop({hnd}): no such subtask"));
            return;
        };
        self.subs[idx].dropped += 1;
        let wt = self.w.get_mut(&hnd).unwrap();
        let (alive, set, ev) = (wt.alive, wt.set, wt.event.take());
        wt.alive = false;
        wt.set = 0;
        if !alive {
            self.violation("subtask-dropped-twice", format!("subtask.drop({hnd}) on a handle that was already dropped"));
        }
        if set != 0 {
            self.violation("drop-while-joined", format!("subtask.drop({hnd}) while the subtask is still joined to set {set}"));
        }
        if ev.is_some() {
            self.violation("drop-with-pending-event", format!("subtask.drop({hnd}) while a status event {ev:?} is undelivered"));
        }
        let d = self.subs[idx].delivered;
        if !matches!(d, Some(ST_RETURNED | ST_STARTED_CANCELLED | ST_RETURNED_CANCELLED)) {
            self.violation("subtask-dropped-unresolved", format!("subtask.drop({hnd}) while the last status the guest saw is {d:?}: the call is not resolved (the host traps)"));
        }
        self.t(format!("subtask.drop({hnd})"));
    }

    // ------------------------------------------------------------- waitable sets

    pub fn set_new(&mut self) -> u32 {
        let s = self.fresh();
        self.sets.insert(s, (true, self.cur_task));
        let t = self.cur_task;
        if let Some(ti) = self.tasks.get_mut(t) {
            ti.sets.push(s);
        }
        self.t(format!("waitable-set.new -> {s} (task {t})"));
        s
    }

    pub fn set_drop(&mut self, s: u32) {
        match self.sets.get_mut(&s) {
            Some((alive @ true, _)) => *alive = false,
            other => {
                let d = format!("{other:?}");
                self.violation("set-dropped-twice", format!("waitable-set.drop({s}): {d}"));
            }
        }
        let members: Vec<u32> = self.w.iter().filter(|(_, w)| w.set == s).map(|(h, _)| *h).collect();
        if !members.is_empty() {
            self.violation("set-dropped-nonempty", format!("waitable-set.drop({s}) while waitables {members:?} are still joined (the host traps)"));
            for m in members {
                self.w.get_mut(&m).unwrap().set = 0;
            }
        }
        self.t(format!("waitable-set.drop({s})"));
    }

    pub fn join(&mut self, wt: u32, s: u32) {
        if s != 0 && !self.sets.get(&s).map(|x| x.0).unwrap_or(false) {
            self.violation("join-dead-set", format!("waitable.join({wt}, {s}): the set does not exist"));
        }
        match self.w.get_mut(&wt) {
            Some(w) if w.alive => w.set = s,
            _ => {
                // un-joining a handle that is gone is tolerated by the runtime's bookkeeping only
                // if the host would not trap: it does trap on unknown handles
                self.violation("join-dead-waitable", format!("waitable.join({wt}, {s}): no such live waitable (the host traps)"));
            }
        }
        self.t(format!("waitable.join({wt}, {s})"));
    }

    /// an event ready for delivery in set `s`
    pub fn take_event(&mut self, s: u32) -> Option<(u32, u32, u32)> {
        let hnd = self.w.iter().find(|(_, w)| w.alive && w.set == s && w.event.is_some()).map(|(h, _)| *h)?;
        let (ev, payload) = self.w.get_mut(&hnd).unwrap().event.take().unwrap();
        if ev == EVENT_SUBTASK {
            if let Some(i) = self.sub_of(hnd) {
                self.subs[i].delivered = Some(payload);
            }
        }
        self.t(format!("deliver event {ev} waitable {hnd} payload {payload:#x} (set {s})"));
        Some((ev, hnd, payload))
    }

    /// waitables on which a guest operation is blocked in the host right now
    pub fn inflight(&self) -> Vec<(u32, String)> {
        let mut v = vec![];
        for (i, c) in self.chans.iter().enumerate() {
            if c.pend_r.is_some() && c.r_holder == Holder::Guest && !c.r_dropped {
                v.push((c.r_handle, format!("the read on channel {i}")));
            }
            if c.pend_w.is_some() && c.w_holder == Holder::Guest && !c.w_dropped {
                v.push((c.w_handle, format!("the write on channel {i}")));
            }
        }
        for s in &self.subs {
            if s.dropped == 0 && s.cancels == 0 && matches!(s.delivered, Some(0 | 1)) && s.state < 2 {
                v.push((s.handle, "the import call".to_string()));
            }
        }
        v
    }

    pub fn set_members(&self, s: u32) -> Vec<u32> {
        self.w.iter().filter(|(_, w)| w.alive && w.set == s).map(|(h, _)| *h).collect()
    }
}

// ----------------------------------------------------------------- built-ins (C symbols)

fn in_callback_check(what: &str) {
    h(|x| {
        if x.in_callback {
            let t = x.cur_task;
            if x.tasks.get(t).map(|t| t.ctx != 0).unwrap_or(false) {
                x.violation("context-set-during-callback", format!("{what} is called while task {t}'s callback runs, but its context slot still holds the task state (it must be absent while a callback runs)"));
            }
        }
    })
}

#[export_name = "[context-get-0]"]
pub extern "C" fn ctx_get() -> *mut u8 {
    h(|x| x.tasks.get(x.cur_task).map(|t| t.ctx).unwrap_or(0) as *mut u8)
}
#[export_name = "[context-set-0]"]
pub extern "C" fn ctx_set(v: *mut u8) {
    h(|x| {
        let t = x.cur_task;
        if let Some(ti) = x.tasks.get_mut(t) {
            ti.ctx = v as usize;
        }
    })
}
#[export_name = "wasip3_task_set"]
pub extern "C" fn task_set(p: *mut u8) -> *mut u8 {
    h(|x| {
        let o = x.p3;
        x.p3 = p as usize;
        o as *mut u8
    })
}
#[export_name = "[waitable-set-new]"]
pub extern "C" fn ws_new() -> u32 {
    in_callback_check("waitable-set.new");
    h(|x| x.set_new())
}
#[export_name = "[waitable-set-drop]"]
pub extern "C" fn ws_drop(s: u32) {
    h(|x| x.set_drop(s))
}
#[export_name = "[waitable-join]"]
pub extern "C" fn ws_join(w: u32, s: u32) {
    in_callback_check("waitable.join");
    h(|x| x.join(w, s))
}
#[export_name = "[waitable-set-poll]"]
pub unsafe extern "C" fn ws_poll(s: u32, p: *mut [u32; 2]) -> u32 {
    h(|x| match x.take_event(s) {
        Some((ev, w, pl)) => {
            *p = [w, pl];
            ev
        }
        None => {
            *p = [0, 0];
            EVENT_NONE
        }
    })
}
#[export_name = "[waitable-set-wait]"]
pub unsafe extern "C" fn ws_wait(s: u32, p: *mut [u32; 2]) -> u32 {
    // used by `block_on`: the host makes progress until an event is available
    for _ in 0..10_000 {
        if let Some((ev, w, pl)) = h(|x| x.take_event(s)) {
            *p = [w, pl];
            return ev;
        }
        if !crate::sched::host_step() {
            break;
        }
    }
    // `block_on` cannot be cancelled: a wait that can never return is reported as inconclusive
    let (m, trace) = h(|x| (x.set_members(s), x.trace.join("\n")));
    vcommon::harness_error(format!("waitable-set.wait({s}) under block_on: no event can ever arrive (members {m:?})\n{trace}"))
}
#[export_name = "[subtask-cancel]"]
pub extern "C" fn st_cancel(s: u32) -> u32 {
    h(|x| x.subtask_cancel(s))
}
#[export_name = "[subtask-drop]"]
pub extern "C" fn st_drop(s: u32) {
    h(|x| x.subtask_drop(s))
}
#[export_name = "[thread-yield]"]
pub extern "C" fn th_yield() -> bool {
    false
}
#[export_name = "[backpressure-inc]"]
pub extern "C" fn bp_inc() {}
#[export_name = "[backpressure-dec]"]
pub extern "C" fn bp_dec() {}
#[export_name = "[task-cancel]"]
pub extern "C" fn t_cancel() {
    h(|x| x.task_cancels += 1)
}
#[export_name = "[error-context-new-utf8]"]
pub extern "C" fn ec_new(_: *const u8, _: usize) -> u32 {
    1
}
#[export_name = "[error-context-drop]"]
pub extern "C" fn ec_drop(_: u32) {}
#[export_name = "[error-context-debug-message-utf8]"]
pub extern "C" fn ec_msg(_: u32, _: *mut u8) {}

// unit streams (the runtime's inter-task wakeup channel)
#[export_name = "[stream-new-unit]"]
pub extern "C" fn u_new() -> u64 {
    h(|x| {
        let c = x.new_chan(false, Elem::Unit, Holder::Guest, Holder::Guest);
        x.unit_chans.push(c);
        ((x.chans[c].w_handle as u64) << 32) | x.chans[c].r_handle as u64
    })
}
#[export_name = "[async-lower][stream-write-unit]"]
pub unsafe extern "C" fn u_w(w: u32, p: *const u8, n: usize) -> u32 {
    h(|x| x.chan_write(w, p as usize, n))
}
#[export_name = "[async-lower][stream-read-unit]"]
pub unsafe extern "C" fn u_r(r: u32, p: *mut u8, n: usize) -> u32 {
    h(|x| x.chan_read(r, p as usize, n))
}
#[export_name = "[stream-cancel-read-unit]"]
pub extern "C" fn u_cr(r: u32) -> u32 {
    h(|x| x.chan_cancel(r, false))
}
#[export_name = "[stream-cancel-write-unit]"]
pub extern "C" fn u_cw(w: u32) -> u32 {
    h(|x| x.chan_cancel(w, true))
}
#[export_name = "[stream-drop-readable-unit]"]
pub extern "C" fn u_dr(r: u32) {
    h(|x| x.chan_drop(r, false))
}
#[export_name = "[stream-drop-writable-unit]"]
pub extern "C" fn u_dw(w: u32) {
    h(|x| x.chan_drop(w, true))
}

// payload streams and futures: the functions the vtables point to
pub unsafe extern "C" fn s_write(s: u32, p: *const u8, n: usize) -> u32 {
    h(|x| x.chan_write(s, p as usize, n))
}
pub unsafe extern "C" fn s_read(s: u32, p: *mut u8, n: usize) -> u32 {
    h(|x| x.chan_read(s, p as usize, n))
}
pub unsafe extern "C" fn f_write(s: u32, p: *const u8) -> u32 {
    h(|x| x.chan_write(s, p as usize, 1))
}
pub unsafe extern "C" fn f_read(s: u32, p: *mut u8) -> u32 {
    h(|x| x.chan_read(s, p as usize, 1))
}
pub unsafe extern "C" fn c_cancel_w(s: u32) -> u32 {
    h(|x| x.chan_cancel(s, true))
}
pub unsafe extern "C" fn c_cancel_r(s: u32) -> u32 {
    h(|x| x.chan_cancel(s, false))
}
pub unsafe extern "C" fn c_drop_w(s: u32) {
    h(|x| x.chan_drop(s, true))
}
pub unsafe extern "C" fn c_drop_r(s: u32) {
    h(|x| x.chan_drop(s, false))
}
