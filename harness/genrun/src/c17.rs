//! C17 — async selection directives select exactly the documented functions.
//!
//! Model level: AsyncFilterSet::is_async / ensure_all_used / Display against a
//! reference "first matching directive in order, else the WIT default".
//! Generator level: Rust, C and MoonBit are run with the directive list and the
//! async-ABI names (`[async-lower]..`, `[async-lift]..`) found in their output
//! must be exactly those of the functions the reference selects.
use crate::backends::{self, GenOutcome, Input};
use proptest::prelude::*;
use serde::{Deserialize, Serialize};
use vcommon::{ensure, CaseResult, Check, Failure, Obs};
use wit_bindgen_core::AsyncFilterSet;
use wit_parser::*;

const WIT: &str = r#"
package ns:pkg@1.0.0;
interface ia {
  fa1: func(x: u32) -> u32;
  fa2: async func();
  resource ra {
    constructor();
    ma1: func();
    ma2: async func();
    sa1: static func();
  }
}
interface ib {
  fb1: func();
  fb2: async func() -> string;
}
world w {
  import ia;
  import ib;
  export ib;
  import wf1: func();
  export wf1: func();
  import wf2: async func();
  export wf3: func(s: string) -> string;
  import nm: interface { fn1: func(); fn2: async func(); }
  export ne: interface { fe1: func(); }
}
"#;

/// every (qualified name as directives spell it, direction, async in WIT, core marker name)
#[derive(Clone, Debug)]
pub struct Target {
    pub name: String,
    pub is_import: bool,
    pub wit_async: bool,
    /// string whose presence in generated code shows the async ABI is used
    pub async_marker: String,
}

fn targets(resolve: &Resolve, world: WorldId) -> Vec<Target> {
    let mut out = vec![];
    let w = &resolve.worlds[world];
    for (is_import, items) in [(true, &w.imports), (false, &w.exports)] {
        for (key, item) in items.iter() {
            let mut add = |iface: Option<String>, f: &Function| {
                let name = match &iface {
                    Some(i) => format!("{i}#{}", f.name),
                    None => f.name.clone(),
                };
                let wit_async = matches!(f.kind, FunctionKind::AsyncFreestanding | FunctionKind::AsyncMethod(_) | FunctionKind::AsyncStatic(_));
                let async_marker = if is_import {
                    format!("[async-lower]{}\"", f.name)
                } else {
                    format!("[async-lift]{name}\"")
                };
                out.push(Target { name, is_import, wit_async, async_marker });
            };
            match item {
                WorldItem::Function(f) => add(None, f),
                WorldItem::Interface { id, .. } => {
                    // spelled as the documentation says: `foo:bar/baz#method` / world key name
                    let key_name = match key {
                        WorldKey::Name(n) => n.clone(),
                        WorldKey::Interface(i) => {
                            let iface = &resolve.interfaces[*i];
                            let pkg = &resolve.packages[iface.package.unwrap()].name;
                            format!(
                                "{}:{}/{}{}",
                                pkg.namespace,
                                pkg.name,
                                iface.name.as_ref().unwrap(),
                                pkg.version.as_ref().map(|v| format!("@{v}")).unwrap_or_default()
                            )
                        }
                    };
                    for f in resolve.interfaces[*id].functions.values() {
                        add(Some(key_name.clone()), f);
                    }
                }
                WorldItem::Type { .. } => {}
            }
        }
    }
    out
}

#[derive(Clone, Debug, Hash, Serialize, Deserialize)]
pub struct Directive {
    pub negated: bool,
    /// 0 all, 1 plain, 2 import:, 3 export:
    pub kind: u8,
    /// index into the name pool
    pub name: u16,
}

fn name_pool(ts: &[Target]) -> Vec<String> {
    let mut v: Vec<String> = ts.iter().map(|t| t.name.clone()).collect();
    v.sort();
    v.dedup();
    // spellings that must not match anything
    v.extend(["nope".to_string(), "fa1".into(), "ns:pkg/ia#fa1".into()]);
    v
}

fn render(d: &Directive, pool: &[String]) -> String {
    let n = &pool[vcommon::pick_idx(d.name, pool.len())];
    let body = match d.kind % 4 {
        0 => "all".to_string(),
        1 => n.clone(),
        2 => format!("import:{n}"),
        _ => format!("export:{n}"),
    };
    if d.negated { format!("-{body}") } else { body }
}

/// reference: (enabled, filter) parsed independently
fn reference(dirs: &[String], t: &Target) -> (bool, Option<usize>) {
    for (i, d) in dirs.iter().enumerate() {
        let (body, enabled) = match d.strip_prefix('-') {
            Some(b) => (b, false),
            None => (d.as_str(), true),
        };
        let matches = if body == "all" {
            true
        } else if let Some(n) = body.strip_prefix("import:") {
            t.is_import && n == t.name
        } else if let Some(n) = body.strip_prefix("export:") {
            !t.is_import && n == t.name
        } else {
            body == t.name
        };
        if matches {
            return (enabled, Some(i));
        }
    }
    (t.wit_async, None)
}

fn find_func<'a>(resolve: &'a Resolve, world: WorldId, t: &Target) -> (Option<WorldKey>, &'a Function) {
    let w = &resolve.worlds[world];
    let items = if t.is_import { &w.imports } else { &w.exports };
    for (key, item) in items.iter() {
        match item {
            WorldItem::Function(f) if f.name == t.name => return (None, f),
            WorldItem::Interface { id, .. } => {
                for f in resolve.interfaces[*id].functions.values() {
                    if t.name.ends_with(&format!("#{}", f.name)) && t.name.starts_with(&resolve.name_world_key(key)) {
                        return (Some(key.clone()), f);
                    }
                }
            }
            _ => {}
        }
    }
    panic!("target {t:?} not found");
}

fn model_prop(dirs: &Vec<Directive>, obs: &mut Obs) -> CaseResult {
    let (resolve, world) = backends::resolve_input(&Input::Text(WIT), None).unwrap_or_else(|e| vcommon::harness_error(format!("{e:#}")));
    let ts = targets(&resolve, world);
    let pool = name_pool(&ts);
    let spelled: Vec<String> = dirs.iter().map(|d| render(d, &pool)).collect();
    let mut set = AsyncFilterSet::default();
    for s in &spelled {
        set.push(s);
    }
    // Display round trip
    let shown: Vec<String> = set.debug_opts().collect();
    ensure!(shown == spelled, "display-roundtrip", "directives {spelled:?} are displayed as {shown:?}");
    let mut decided_by = vec![false; spelled.len()];
    let mut shadowing = false;
    for t in &ts {
        let (key, f) = find_func(&resolve, world, t);
        let got = set.is_async(&resolve, key.as_ref(), f, t.is_import);
        let (want, idx) = reference(&spelled, t);
        ensure!(
            got == want,
            "selection-mismatch",
            "directives {spelled:?}: {} `{}` (async in WIT: {}) is bound {} but the first matching directive {:?} says {}",
            if t.is_import { "import" } else { "export" },
            t.name,
            t.wit_async,
            if got { "async" } else { "sync" },
            idx.map(|i| &spelled[i]),
            if want { "async" } else { "sync" }
        );
        if let Some(i) = idx {
            decided_by[i] = true;
            // a later directive would also have matched
            if spelled[i + 1..].iter().any(|d| reference(&[d.clone()], t).1.is_some()) {
                shadowing = true;
            }
        }
    }
    // ensure_all_used
    let matches_nothing: Vec<&String> = spelled
        .iter()
        .enumerate()
        .filter(|(_, d)| d.trim_start_matches('-') != "all")
        .filter(|(_, d)| !ts.iter().any(|t| reference(&[(*d).clone()], t).1.is_some()))
        .map(|(_, d)| d)
        .collect();
    let all_decide = spelled.iter().enumerate().all(|(i, d)| d.trim_start_matches('-') == "all" || decided_by[i]);
    let r = set.ensure_all_used();
    if !matches_nothing.is_empty() {
        ensure!(r.is_err(), "unused-directive-accepted", "directives {spelled:?}: {matches_nothing:?} match no function but ensure_all_used() is Ok");
        obs.label("has-directive-matching-nothing");
    } else if all_decide {
        ensure!(r.is_ok(), "used-directive-rejected", "directives {spelled:?}: every directive decided some function but ensure_all_used() = {r:?}");
    } else {
        obs.label("shadowed-directive:not-judged");
    }
    obs.evals = ts.len() as u64;
    let direction_specific = spelled.iter().any(|d| d.contains("import:") || d.contains("export:"));
    if spelled.len() >= 2 && (shadowing || direction_specific) {
        obs.nontrivial_by(&spelled);
        if shadowing {
            obs.label("earlier-directive-shadows-later");
        }
        if direction_specific {
            obs.label("direction-specific");
        }
        if spelled.len() <= 3 {
            obs.sample = Some(serde_json::json!(spelled));
        }
    }
    Ok(())
}

#[derive(Clone, Debug, Hash, Serialize, Deserialize)]
pub struct GenCase {
    pub dirs: Vec<Directive>,
    /// 0 rust, 1 c, 2 moonbit
    pub backend: u8,
    /// pass the directives comma-separated in one --async instead of one each
    pub comma: bool,
}

fn gen_prop(c: &GenCase, obs: &mut Obs) -> CaseResult {
    let (resolve, world) = backends::resolve_input(&Input::Text(WIT), None).unwrap_or_else(|e| vcommon::harness_error(format!("{e:#}")));
    let ts = targets(&resolve, world);
    let pool = name_pool(&ts);
    let spelled: Vec<String> = c.dirs.iter().map(|d| render(d, &pool)).filter(|s| !s.contains(' ')).collect();
    let backend = ["rust", "c", "moonbit"][c.backend as usize % 3];
    let mut args: Vec<String> = match backend {
        "rust" => vec!["--generate-all".into(), "--stubs".into()],
        "moonbit" => vec!["--derive-show".into()],
        _ => vec![],
    };
    if c.comma && !spelled.is_empty() {
        args.push(format!("--async={}", spelled.join(",")));
    } else {
        for s in &spelled {
            args.push(format!("--async={s}"));
        }
    }
    let argv: Vec<&str> = args.iter().map(|s| s.as_str()).collect();
    let tmp = tempfile::tempdir().map_err(|e| Failure::new("io", e.to_string()))?;
    let out = backends::generate(backend, &argv, &resolve, world, Some(tmp.path()));
    obs.label(backend.to_string());
    let matches_nothing = spelled
        .iter()
        .filter(|d| d.trim_start_matches('-') != "all")
        .any(|d| !ts.iter().any(|t| reference(&[d.clone()], t).1.is_some()));
    let files = match out {
        GenOutcome::Files(f) => {
            if backend == "rust" {
                ensure!(
                    !matches_nothing,
                    "rust-accepts-unused-directive",
                    "--async {spelled:?}: a directive matches no function but the Rust generator succeeded"
                );
            }
            f
        }
        GenOutcome::Error(e) => {
            if backend == "rust" && e.contains("unused async option") {
                let mut decided = vec![false; spelled.len()];
                for t in &ts {
                    if let (_, Some(i)) = reference(&spelled, t) {
                        decided[i] = true;
                    }
                }
                let all_decide = spelled.iter().enumerate().all(|(i, d)| d.trim_start_matches('-') == "all" || decided[i]);
                ensure!(
                    !all_decide,
                    "rust-rejects-used-directive",
                    "--async {spelled:?}: every directive decides some function but the Rust generator says: {e}"
                );
                obs.label("rust:unused-directive-rejected");
            } else {
                obs.label(format!("{backend}:error"));
            }
            return Ok(());
        }
        GenOutcome::Panic(_) => {
            obs.label(format!("{backend}:panic(C16)"));
            return Ok(());
        }
    };
    let text: String = files
        .iter()
        .filter(|(n, _)| !n.ends_with(".o"))
        .map(|(_, b)| String::from_utf8_lossy(b).to_string())
        .collect::<Vec<_>>()
        .join("\n");
    let mut n_async = 0;
    for t in &ts {
        let (want, idx) = reference(&spelled, t);
        let has = text.contains(&t.async_marker);
        if want {
            n_async += 1;
        }
        ensure!(
            has == want,
            format!("generator-selection-mismatch {backend}"),
            "{backend} --async {spelled:?}: {} `{}` (async in WIT: {}) {} the async ABI (`{}` {} in the output) but the first matching directive {:?} says {}",
            if t.is_import { "import" } else { "export" },
            t.name,
            t.wit_async,
            if has { "uses" } else { "does not use" },
            t.async_marker.trim_end_matches('"'),
            if has { "found" } else { "not found" },
            idx.map(|i| &spelled[i]),
            if want { "async" } else { "sync" }
        );
    }
    obs.evals = ts.len() as u64;
    if spelled.len() >= 2 && n_async > 0 && n_async < ts.len() {
        obs.nontrivial_by(&(&spelled, backend));
        if spelled.len() <= 3 {
            obs.sample = Some(serde_json::json!({"backend": backend, "async": spelled, "async_functions": n_async, "of": ts.len()}));
        }
    }
    Ok(())
}

fn directive() -> impl Strategy<Value = Directive> {
    (prop::bool::weighted(0.35), prop_oneof![1 => Just(0u8), 3 => Just(1u8), 2 => Just(2u8), 2 => Just(3u8)], any::<u16>()).prop_map(|(negated, kind, name)| Directive { negated, kind, name })
}

pub fn run(check: &mut Check) {
    check.rule = "directive lists of 0..6 entries over {all, name, import:name, export:name} x negation, names drawn from every function of a fixed world (world-level functions imported and exported under the same name, an interface both imported and exported, inline named interfaces, resource constructor/method/static, sync and async in WIT) plus spellings that must match nothing (unqualified, version-less, missing); \
        model level: AsyncFilterSet::is_async for every (function, direction) vs the reference `first matching directive in order, else WIT default`, Display round trip, ensure_all_used errs iff a directive matches no function; \
        generator level: Rust / C / MoonBit run with the list (separate --async options or comma-joined), `[async-lower]<f>` / `[async-lift]<iface>#<f>` names present in the output exactly for the selected functions, Rust errs iff a directive matches nothing; \
        non-trivial = >= 2 directives with shadowing or a direction-specific one (model) / a proper subset of functions async (generators); distinct by (directives, backend)".into();
    check.assumptions.push("a directive that names an existing function but is always shadowed by an earlier one is not judged for `unused` (the statement is silent)".into());
    let n = check.tier.pick(20_000, 400_000);
    check.prop("model", || prop::collection::vec(directive(), 0..6), n, model_prop);
    let n2 = check.tier.pick(1_500, 40_000);
    check.prop(
        "generators",
        || (prop::collection::vec(directive(), 0..5), 0u8..3, any::<bool>()).prop_map(|(dirs, backend, comma)| GenCase { dirs, backend, comma }),
        n2,
        gen_prop,
    );
}
