//! Engine B: world generator + in-process drivers for all generators.
mod backends;
mod c05;
mod c07;
mod c07x;
mod c11x;
mod c08;
mod c09;
mod c10;
mod c12;
mod c13;
mod c14;
mod c15;
mod c16;
mod c17;
mod c28;
mod c29;
mod c30;
mod c31;
mod c32;
mod c33;
mod exec;
mod execc;
mod wasmbuild;

use proptest::prelude::*;
use serde::{Deserialize, Serialize};

/// A generated world as a replayable case.
#[derive(Clone, Debug, Hash, Serialize, Deserialize)]
pub struct WorldCase {
    pub tape: Vec<u16>,
    pub backend: u8,
    pub variant: u8,
}

pub fn tape_strategy(max: usize) -> impl Strategy<Value = Vec<u16>> {
    // mix of short and long tapes; values biased so that both low (simple) and
    // high (feature-enabling) choices occur
    prop::collection::vec(prop_oneof![3 => any::<u16>(), 1 => Just(0u16), 1 => Just(u16::MAX)], 8..max)
}

fn main() {
    let args = vcommon::parse_args();
    if args.id == "probe" {
        probe(&args);
        return;
    }
    let mut check = vcommon::Check::new(&args);
    // checks that build in shared directories under /verif/target are serialised across
    // processes (two runs of them at once would overwrite each other's guest objects)
    let group = match args.id.as_str() {
        "C05" | "C06" | "C07" | "C08" | "C10" | "C11" | "C14" => Some("native"),
        "C09" | "C12" | "C31" | "C32" | "C33" => Some(args.id.as_str()),
        _ => None,
    };
    let _lock = group.map(|g| {
        extern "C" {
            fn flock(fd: i32, op: i32) -> i32;
        }
        let _ = std::fs::create_dir_all("/verif/target");
        let f = std::fs::OpenOptions::new().create(true).write(true).truncate(false).open(format!("/verif/target/.lock-{g}")).unwrap_or_else(|e| vcommon::harness_error(format!("lock file: {e}")));
        // LOCK_EX, blocking; released when the process exits
        unsafe { flock(std::os::fd::AsRawFd::as_raw_fd(&f), 2) };
        f
    });
    match args.id.as_str() {
        "C05" | "C06" => c05::run(&mut check),
        "C07" => c07::run(&mut check),
        "C08" => c08::run_check(&mut check),
        "C09" => c09::run(&mut check),
        "C10" | "C11" => c10::run(&mut check),
        "C12" => c12::run(&mut check),
        "C13" => c13::run(&mut check),
        "C14" => c14::run(&mut check),
        "C15" => c15::run(&mut check),
        "C16" => c16::run(&mut check),
        "C17" => c17::run(&mut check),
        "C28" => c28::run(&mut check),
        "C29" => c29::run(&mut check),
        "C30" => c30::run(&mut check),
        "C31" => c31::run(&mut check),
        "C32" => c32::run(&mut check),
        "C33" => c33::run(&mut check),
        other => vcommon::harness_error(format!("genrun does not serve {other}")),
    }
    check.finish()
}

/// development aid: generate worlds, report validity tiers and feature counts
fn probe(args: &vcommon::Args) {
    use std::collections::BTreeMap;
    let n: usize = args.rest.first().and_then(|s| s.parse().ok()).unwrap_or(500);
    let check = vcommon::Check::new(args);
    let tapes = check.draw("probe", &tape_strategy(400), n);
    let profile = witgen::Profile::full();
    let mut feats: BTreeMap<&'static str, u32> = BTreeMap::new();
    let (mut parse_fail, mut comp_invalid) = (0, 0);
    let mut shown = 0;
    for t in &tapes {
        let w = witgen::generate(t, &profile);
        let text = w.to_text();
        for f in &w.features {
            *feats.entry(f).or_insert(0) += 1;
        }
        match backends::resolve_input(&backends::Input::Text(&text), Some(&witgen::wit_name(&w.world)).map(|s| s.as_str())) {
            Err(e) => {
                parse_fail += 1;
                if shown < 5 {
                    shown += 1;
                    println!("PARSE FAIL: {e:#}\n{text}\n-----");
                }
            }
            Ok((r, wid)) => {
                if let Err(e) = backends::component_valid(&r, wid) {
                    comp_invalid += 1;
                    if shown < 5 {
                        shown += 1;
                        println!("COMPONENT-INVALID: {e}\n{text}\n-----");
                    }
                }
            }
        }
    }
    println!("worlds={} parse_fail={parse_fail} component_invalid={comp_invalid}", tapes.len());
    println!("features: {feats:?}");
    if let Some(t) = tapes.first() {
        println!("sample:\n{}", witgen::generate(t, &profile).to_text());
    }
}
