//! C13 — every backend's core imports/exports match the world's canonical ABI.
//!
//! The import/export declarations are *extracted* from the generated text
//! (attribute-anchored patterns per language), turned into a synthetic core
//! module (wasm-encoder) carrying the world's type information, and handed to
//! wit_component::ComponentEncoder with validation: unknown import names, wrong
//! core signatures and missing exports are rejected by wit-component (an oracle
//! independent of wit-bindgen). Since the encoder silently ignores unknown
//! exports, every extracted export name must also be one that wit-parser
//! enumerates for the world.
use crate::backends::{self, GenOutcome, Input};
use crate::c16::prepare;
use crate::{tape_strategy, WorldCase};
use proptest::prelude::*;
use regex::Regex;
use std::collections::{BTreeMap, BTreeSet};
use vcommon::{CaseResult, Check, Failure, Obs};
use wasm_encoder::ValType;
use wit_parser::*;

#[derive(Clone, Debug)]
pub struct Decl {
    pub import: Option<(String, String)>,
    pub export: Option<String>,
    /// None = some type could not be mapped (signature not judged)
    pub sig: Option<(Vec<ValType>, Vec<ValType>)>,
    pub raw: String,
}

const C13_BACKENDS: &[&str] = &["rust", "c", "cpp", "csharp", "go", "moonbit", "d"];

fn map_ty(lang: &str, t: &str) -> Option<Option<ValType>> {
    // Some(None) = no value (void/unit)
    let t = t.trim();
    let t = t.trim_start_matches("const ").trim();
    if t.is_empty() {
        return Some(None);
    }
    let ptr = t.ends_with('*') || t.starts_with('*');
    let v = match lang {
        "c" | "cpp" | "d" => {
            if ptr {
                ValType::I32
            } else {
                match t {
                    "void" => return Some(None),
                    "int32_t" | "uint32_t" | "int" | "uint" | "bool" | "size_t" | "uint8_t" | "int8_t" | "uint16_t" | "int16_t" | "ubyte" | "byte" | "ushort" | "short" | "dchar" => ValType::I32,
                    "int64_t" | "uint64_t" | "long" | "ulong" => ValType::I64,
                    "float" => ValType::F32,
                    "double" => ValType::F64,
                    _ => return None,
                }
            }
        }
        "rust" => {
            if ptr {
                ValType::I32
            } else {
                match t {
                    "i32" | "u32" | "usize" | "isize" => ValType::I32,
                    "i64" | "u64" => ValType::I64,
                    "f32" => ValType::F32,
                    "f64" => ValType::F64,
                    "()" => return Some(None),
                    _ => return None,
                }
            }
        }
        "go" => match t {
            "int32" | "uint32" | "uintptr" | "unsafe.Pointer" => ValType::I32,
            "int64" | "uint64" => ValType::I64,
            "float32" => ValType::F32,
            "float64" => ValType::F64,
            _ => return None,
        },
        "csharp" => {
            if ptr {
                ValType::I32
            } else {
                match t {
                    "int" | "uint" | "nint" | "nuint" => ValType::I32,
                    "long" | "ulong" => ValType::I64,
                    "float" => ValType::F32,
                    "double" => ValType::F64,
                    "void" => return Some(None),
                    _ => return None,
                }
            }
        }
        "moonbit" => match t {
            "Int" | "UInt" => ValType::I32,
            "Int64" | "UInt64" => ValType::I64,
            "Float" => ValType::F32,
            "Double" => ValType::F64,
            "Unit" => return Some(None),
            _ => return None,
        },
        _ => return None,
    };
    Some(Some(v))
}

fn split_params(s: &str) -> Vec<String> {
    let mut out = vec![];
    let mut depth = 0;
    let mut cur = String::new();
    for c in s.chars() {
        match c {
            '(' | '<' | '[' => {
                depth += 1;
                cur.push(c)
            }
            ')' | '>' | ']' => {
                depth -= 1;
                cur.push(c)
            }
            ',' if depth == 0 => {
                out.push(cur.trim().to_string());
                cur.clear();
            }
            _ => cur.push(c),
        }
    }
    if !cur.trim().is_empty() {
        out.push(cur.trim().to_string());
    }
    out
}

/// `params` text and `ret` text -> signature
fn sig_of(lang: &str, params: &str, ret: &str) -> Option<(Vec<ValType>, Vec<ValType>)> {
    let mut ps = vec![];
    let params = params.trim();
    if !(params.is_empty() || params == "void") {
        for p in split_params(params) {
            let ty = match lang {
                // `type name` or `type` (C prototypes may omit names); pointers may be glued to either side
                "c" | "cpp" | "d" | "csharp" => {
                    let p = p.replace(" *", "* ").replace("* *", "**");
                    let toks: Vec<&str> = p.split_whitespace().collect();
                    if toks.len() >= 2 && toks.last().map(|l| l.chars().all(|c| c.is_alphanumeric() || c == '_')).unwrap_or(false) && !matches!(*toks.last().unwrap(), "int32_t" | "int64_t" | "float" | "double" | "size_t" | "void") {
                        toks[..toks.len() - 1].join(" ")
                    } else {
                        toks.join(" ")
                    }
                }
                // `name: type` / `_: type`
                "rust" | "moonbit" => p.split_once(':').map(|x| x.1.trim().to_string()).unwrap_or(p.clone()),
                // `name type`
                "go" => p.split_whitespace().last().unwrap_or("").to_string(),
                _ => p.clone(),
            };
            match map_ty(lang, &ty)? {
                Some(v) => ps.push(v),
                None => return None,
            }
        }
    }
    let rs = match map_ty(lang, ret)? {
        Some(v) => vec![v],
        None => vec![],
    };
    Some((ps, rs))
}

pub fn extract(backend: &str, files: &BTreeMap<String, Vec<u8>>) -> Vec<Decl> {
    let mut out = vec![];
    let text_of = |b: &Vec<u8>| String::from_utf8_lossy(b).to_string();
    match backend {
        "c" | "cpp" => {
            let imp = Regex::new(r#"__import_module__\("([^"]*)"\),\s*__import_name__\("([^"]*)"\)\)\)\s*(?:extern\s+"C"\s+)?(?:extern\s+)?([A-Za-z_][A-Za-z0-9_ ]*?\s*\**)\s*([A-Za-z_][A-Za-z0-9_]*)\s*\(([^)]*)\)"#).unwrap();
            let exp = Regex::new(r#"__export_name__\("([^"]*)"\)\)\)\s*([A-Za-z_][A-Za-z0-9_ ]*?\s*\**)\s*([A-Za-z_][A-Za-z0-9_]*)\s*\(([^)]*)\)"#).unwrap();
            for (n, b) in files.iter().filter(|(n, _)| n.ends_with(".c") || n.ends_with(".cpp") || n.ends_with(".h")) {
                let _ = n;
                let t = text_of(b);
                for m in imp.captures_iter(&t) {
                    out.push(Decl { import: Some((m[1].to_string(), m[2].to_string())), export: None, sig: sig_of("c", &m[5], &m[3]), raw: m[0].chars().take(200).collect() });
                }
                for m in exp.captures_iter(&t) {
                    out.push(Decl { import: None, export: Some(m[1].to_string()), sig: sig_of("c", &m[4], &m[2]), raw: m[0].chars().take(200).collect() });
                }
            }
        }
        "rust" => {
            let block = Regex::new(r#"(?s)#\[link\(wasm_import_module = "([^"]*)"\)\]\s*unsafe extern "C" \{(.*?)\n\s*\}"#).unwrap();
            let item = Regex::new(r#"(?s)#\[link_name = "([^"]*)"\]\s*(?:pub )?fn\s+[A-Za-z0-9_]+\s*\(([^)]*)\)\s*(?:->\s*([^;]+))?;"#).unwrap();
            let exp = Regex::new(r#"(?s)#\[unsafe\(export_name = "([^"]*)"\)\]\s*unsafe extern "C" fn\s+[A-Za-z0-9_]+\s*\(([^)]*)\)\s*(?:->\s*([^\{]+))?\{"#).unwrap();
            for (_, b) in files.iter().filter(|(n, _)| n.ends_with(".rs")) {
                let t = text_of(b);
                for bm in block.captures_iter(&t) {
                    for m in item.captures_iter(&bm[2]) {
                        let ret = m.get(3).map(|r| r.as_str()).unwrap_or("");
                        out.push(Decl { import: Some((bm[1].to_string(), m[1].to_string())), export: None, sig: sig_of("rust", &m[2], ret), raw: m[0].chars().take(200).collect() });
                    }
                }
                for m in exp.captures_iter(&t) {
                    let ret = m.get(3).map(|r| r.as_str()).unwrap_or("");
                    out.push(Decl { import: None, export: Some(m[1].to_string()), sig: sig_of("rust", &m[2], ret), raw: m[0].chars().take(200).collect() });
                }
            }
        }
        "go" => {
            let imp = Regex::new(r#"//go:wasmimport (\S+) (\S+)\nfunc\s+[A-Za-z0-9_]+\(([^)]*)\)[ \t]*([A-Za-z0-9_.]*)"#).unwrap();
            let exp = Regex::new(r#"//go:wasmexport (\S+)\nfunc\s+[A-Za-z0-9_]+\(([^)]*)\)[ \t]*([A-Za-z0-9_.]*)"#).unwrap();
            for (_, b) in files.iter().filter(|(n, _)| n.ends_with(".go")) {
                let t = text_of(b);
                for m in imp.captures_iter(&t) {
                    out.push(Decl { import: Some((m[1].to_string(), m[2].to_string())), export: None, sig: sig_of("go", &m[3], &m[4]), raw: m[0].chars().take(200).collect() });
                }
                for m in exp.captures_iter(&t) {
                    out.push(Decl { import: None, export: Some(m[1].to_string()), sig: sig_of("go", &m[2], &m[3]), raw: m[0].chars().take(200).collect() });
                }
            }
        }
        "csharp" => {
            let imp = Regex::new(r#"(?s)DllImportAttribute\("([^"]*)",\s*EntryPoint\s*=\s*"([^"]*)"\)[^\]]*\]\s*(?:(?:public|internal|private|static|extern|unsafe)\s+)*([A-Za-z0-9_*]+)\s+[A-Za-z0-9_]+\s*\(([^)]*)\)"#).unwrap();
            let exp = Regex::new(r#"(?s)UnmanagedCallersOnlyAttribute\(EntryPoint\s*=\s*"([^"]*)"\)\]\s*(?:(?:public|internal|private|static|extern|unsafe)\s+)*([A-Za-z0-9_*]+)\s+[A-Za-z0-9_]+\s*\(([^)]*)\)"#).unwrap();
            for (_, b) in files.iter().filter(|(n, _)| n.ends_with(".cs")) {
                let t = text_of(b);
                for m in imp.captures_iter(&t) {
                    out.push(Decl { import: Some((m[1].to_string(), m[2].to_string())), export: None, sig: sig_of("csharp", &m[4], &m[3]), raw: m[0].chars().take(240).collect() });
                }
                for m in exp.captures_iter(&t) {
                    out.push(Decl { import: None, export: Some(m[1].to_string()), sig: sig_of("csharp", &m[3], &m[2]), raw: m[0].chars().take(240).collect() });
                }
            }
        }
        "moonbit" => {
            let imp = Regex::new(r#"(?m)^\s*(?:pub )?fn\s+([A-Za-z0-9_]+)\s*\(([^)]*)\)\s*(?:->\s*([A-Za-z0-9_]+))?\s*=\s*"([^"]*)"\s+"([^"]*)""#).unwrap();
            let def = Regex::new(r#"(?m)^\s*pub fn\s+([A-Za-z0-9_]+)\s*\(([^)]*)\)\s*(?:->\s*([A-Za-z0-9_]+))?\s*\{"#).unwrap();
            let mut defs: BTreeMap<String, Option<(Vec<ValType>, Vec<ValType>)>> = BTreeMap::new();
            for (_, b) in files.iter().filter(|(n, _)| n.ends_with(".mbt")) {
                let t = text_of(b);
                for m in imp.captures_iter(&t) {
                    let ret = m.get(3).map(|r| r.as_str()).unwrap_or("");
                    out.push(Decl { import: Some((m[4].to_string(), m[5].to_string())), export: None, sig: sig_of("moonbit", &m[2], ret), raw: m[0].chars().take(200).collect() });
                }
                for m in def.captures_iter(&t) {
                    let ret = m.get(3).map(|r| r.as_str()).unwrap_or("");
                    defs.insert(m[1].to_string(), sig_of("moonbit", &m[2], ret));
                }
            }
            for (n, b) in files.iter().filter(|(n, _)| n.ends_with("moon.pkg.json")) {
                let Ok(v) = serde_json::from_slice::<serde_json::Value>(b) else { continue };
                if let Some(ex) = v["link"]["wasm"]["exports"].as_array() {
                    for e in ex {
                        let Some(s) = e.as_str() else { continue };
                        let Some((func, name)) = s.split_once(':') else { continue };
                        out.push(Decl { import: None, export: Some(name.to_string()), sig: defs.get(func).cloned().flatten(), raw: format!("{n}: {s}") });
                    }
                }
            }
        }
        "d" => {
            let imp = Regex::new(r#"(?s)@wasmImport!\("([^"]*)",\s*"([^"]*)"\)\s*pragma\(mangle,[^\n]*\n\s*(?:(?:static|private|public|extern\(C\))\s+)*([A-Za-z0-9_*]+)\s+[A-Za-z0-9_]+\s*\(([^)]*)\)"#).unwrap();
            let exp = Regex::new(r#"(?s)@wasmExport!\("([^"]*)"\)\s*pragma\(mangle,[^\n]*\n\s*(?:(?:static|private|public|extern\(C\))\s+)*([A-Za-z0-9_*]+)\s+[A-Za-z0-9_]+\s*\(([^)]*)\)"#).unwrap();
            for (_, b) in files.iter().filter(|(n, _)| n.ends_with(".d")) {
                let t = text_of(b);
                for m in imp.captures_iter(&t) {
                    out.push(Decl { import: Some((m[1].to_string(), m[2].to_string())), export: None, sig: sig_of("d", &m[4], &m[3]), raw: m[0].chars().take(240).collect() });
                }
                for m in exp.captures_iter(&t) {
                    out.push(Decl { import: None, export: Some(m[1].to_string()), sig: sig_of("d", &m[3], &m[2]), raw: m[0].chars().take(240).collect() });
                }
            }
        }
        _ => {}
    }
    out
}

/// every export name wit-parser assigns to an item of the world (all ABI flavours)
pub fn allowed_exports(resolve: &Resolve, world: WorldId) -> BTreeSet<String> {
    let mut out = BTreeSet::new();
    let abis = [LiftLowerAbi::Sync, LiftLowerAbi::AsyncCallback, LiftLowerAbi::AsyncStackful];
    for abi in abis {
        let m = ManglingAndAbi::Legacy(abi);
        out.insert(resolve.wasm_export_name(m, WasmExport::Memory));
        out.insert(resolve.wasm_export_name(m, WasmExport::Realloc));
        out.insert(resolve.wasm_export_name(m, WasmExport::Initialize));
        for (key, item) in resolve.worlds[world].exports.iter() {
            match item {
                WorldItem::Function(f) => {
                    for kind in [WasmExportKind::Normal, WasmExportKind::PostReturn, WasmExportKind::Callback] {
                        // post-return exists only for sync lifts, callbacks only for async ones
                        if matches!((abi, &kind), (LiftLowerAbi::Sync, WasmExportKind::Callback) | (LiftLowerAbi::AsyncCallback | LiftLowerAbi::AsyncStackful, WasmExportKind::PostReturn) | (LiftLowerAbi::AsyncStackful, WasmExportKind::Callback)) {
                            continue;
                        }
                        out.insert(resolve.wasm_export_name(m, WasmExport::Func { interface: None, func: f, kind }));
                    }
                }
                WorldItem::Interface { id, .. } => {
                    for f in resolve.interfaces[*id].functions.values() {
                        for kind in [WasmExportKind::Normal, WasmExportKind::PostReturn, WasmExportKind::Callback] {
                            if matches!((abi, &kind), (LiftLowerAbi::Sync, WasmExportKind::Callback) | (LiftLowerAbi::AsyncCallback | LiftLowerAbi::AsyncStackful, WasmExportKind::PostReturn) | (LiftLowerAbi::AsyncStackful, WasmExportKind::Callback)) {
                                continue;
                            }
                            out.insert(resolve.wasm_export_name(m, WasmExport::Func { interface: Some(key), func: f, kind }));
                        }
                    }
                    for (_, ty) in resolve.interfaces[*id].types.iter() {
                        if matches!(resolve.types[*ty].kind, TypeDefKind::Resource) {
                            out.insert(resolve.wasm_export_name(m, WasmExport::ResourceDtor { interface: key, resource: *ty }));
                        }
                    }
                }
                WorldItem::Type { .. } => {}
            }
        }
    }
    out
}

fn expected_export_sig(resolve: &Resolve, world: WorldId, name: &str) -> Option<(Vec<ValType>, Vec<ValType>)> {
    // trusted (wit-parser) signature of a function export, used only when the
    // generated text's types could not be mapped
    let conv = |w: &abi::WasmType| match w {
        abi::WasmType::I32 | abi::WasmType::Pointer | abi::WasmType::Length => ValType::I32,
        abi::WasmType::I64 | abi::WasmType::PointerOrI64 => ValType::I64,
        abi::WasmType::F32 => ValType::F32,
        abi::WasmType::F64 => ValType::F64,
    };
    for (key, item) in resolve.worlds[world].exports.iter() {
        let mut try_f = |iface: Option<&WorldKey>, f: &Function| -> Option<(Vec<ValType>, Vec<ValType>)> {
            for (abi_, variant) in [(LiftLowerAbi::Sync, abi::AbiVariant::GuestExport), (LiftLowerAbi::AsyncCallback, abi::AbiVariant::GuestExportAsync)] {
                let m = ManglingAndAbi::Legacy(abi_);
                if resolve.wasm_export_name(m, WasmExport::Func { interface: iface, func: f, kind: WasmExportKind::Normal }) == name {
                    let s = resolve.wasm_signature(variant, f);
                    return Some((s.params.iter().map(conv).collect(), s.results.iter().map(conv).collect()));
                }
            }
            None
        };
        match item {
            WorldItem::Function(f) => {
                if let Some(s) = try_f(None, f) {
                    return Some(s);
                }
            }
            WorldItem::Interface { id, .. } => {
                for f in resolve.interfaces[*id].functions.values() {
                    if let Some(s) = try_f(Some(key), f) {
                        return Some(s);
                    }
                }
            }
            _ => {}
        }
    }
    None
}

pub fn synthetic_module(decls: &[Decl], resolve: &Resolve, world: WorldId, unjudged: &mut u32) -> Result<Vec<u8>, Failure> {
    use wasm_encoder::*;
    let mut types = TypeSection::new();
    let mut type_idx: BTreeMap<(Vec<u8>, Vec<u8>), u32> = BTreeMap::new();
    let key = |s: &(Vec<ValType>, Vec<ValType>)| {
        let enc = |v: &Vec<ValType>| v.iter().map(|t| match t { ValType::I32 => 0u8, ValType::I64 => 1, ValType::F32 => 2, ValType::F64 => 3, _ => 9 }).collect::<Vec<u8>>();
        (enc(&s.0), enc(&s.1))
    };
    let mut ty_of = |types: &mut TypeSection, s: &(Vec<ValType>, Vec<ValType>)| -> u32 {
        let k = key(s);
        if let Some(i) = type_idx.get(&k) {
            return *i;
        }
        let i = type_idx.len() as u32;
        types.ty().function(s.0.clone(), s.1.clone());
        type_idx.insert(k, i);
        i
    };
    let mut imports = ImportSection::new();
    let mut seen_imports: BTreeMap<(String, String), Option<(Vec<ValType>, Vec<ValType>)>> = BTreeMap::new();
    let mut n_imports = 0;
    for d in decls.iter().filter(|d| d.import.is_some()) {
        let (m, n) = d.import.clone().unwrap();
        if let Some(prev) = seen_imports.get(&(m.clone(), n.clone())) {
            if let (Some(a), Some(b)) = (prev, &d.sig) {
                if key(a) != key(b) {
                    return Err(Failure::new(
                        "conflicting-import-signatures",
                        format!("import `{m}` `{n}` is declared with two core signatures: {a:?} and {b:?}"),
                    ));
                }
            }
            continue;
        }
        seen_imports.insert((m.clone(), n.clone()), d.sig.clone());
        let Some(sig) = &d.sig else {
            *unjudged += 1;
            continue; // an import may be omitted from the module
        };
        let t = ty_of(&mut types, sig);
        imports.import(&m, &n, EntityType::Function(t));
        n_imports += 1;
    }
    let mut funcs = FunctionSection::new();
    let mut exports = ExportSection::new();
    let mut code = CodeSection::new();
    let mut seen_exports = BTreeSet::new();
    let mut n_funcs = 0;
    let mut add_export = |types: &mut TypeSection, funcs: &mut FunctionSection, code: &mut CodeSection, exports: &mut ExportSection, name: &str, sig: &(Vec<ValType>, Vec<ValType>)| {
        let t = ty_of(types, sig);
        funcs.function(t);
        let mut f = Function::new([]);
        f.instruction(&Instruction::Unreachable);
        f.instruction(&Instruction::End);
        code.function(&f);
        exports.export(name, ExportKind::Func, n_imports + n_funcs);
        n_funcs += 1;
    };
    for d in decls.iter().filter(|d| d.export.is_some()) {
        let name = d.export.clone().unwrap();
        if !seen_exports.insert(name.clone()) {
            return Err(Failure::new("duplicate-export", format!("export `{name}` is generated twice")));
        }
        let sig = match &d.sig {
            Some(s) => s.clone(),
            None => {
                *unjudged += 1;
                match expected_export_sig(resolve, world, &name) {
                    Some(s) => s,
                    None => continue,
                }
            }
        };
        add_export(&mut types, &mut funcs, &mut code, &mut exports, &name, &sig);
    }
    if !seen_exports.contains("cabi_realloc") {
        add_export(&mut types, &mut funcs, &mut code, &mut exports, "cabi_realloc", &(vec![ValType::I32; 4], vec![ValType::I32]));
    }
    let mut mems = MemorySection::new();
    mems.memory(MemoryType { minimum: 1, maximum: None, memory64: false, shared: false, page_size_log2: None });
    exports.export("memory", ExportKind::Memory, 0);
    let mut module = Module::new();
    module.section(&types);
    module.section(&imports);
    module.section(&funcs);
    module.section(&mems);
    module.section(&exports);
    module.section(&code);
    let mut bytes = module.finish();
    wit_component::embed_component_metadata(&mut bytes, resolve, world, wit_component::StringEncoding::UTF8)
        .map_err(|e| Failure::new("harness-embed", format!("{e:#}")))?;
    Ok(bytes)
}

fn classify_encoder_error(msg: &str) -> String {
    // strip names so that one root cause keeps one signature
    let m = msg.to_lowercase();
    let kind = if m.contains("type mismatch") || m.contains("signature") || m.contains("expected type") {
        "wrong-core-signature"
    } else if m.contains("failed to find export") || m.contains("missing") || m.contains("does not export") || m.contains("no export") || m.contains("failed to resolve export") {
        "missing-required-export"
    } else if m.contains("unknown") || m.contains("not defined") || m.contains("failed to resolve import") || m.contains("no top-level imported function") || m.contains("does not have") {
        "import-not-in-world"
    } else {
        "encoder-rejects"
    };
    // per-endpoint future/stream intrinsics are a family of their own
    let family = ["[future-", "[stream-"].iter().any(|p| msg.contains(p));
    if family {
        // `mod::[future-drop-readable-0]` with nothing after the bracket: no function name
        let nameless = regex::Regex::new(r"\[(future|stream)-[a-z\-]+-\d+\]`").unwrap().is_match(msg);
        format!("{kind} future/stream-intrinsic{}", if nameless { " without function name" } else { "" })
    } else {
        kind.to_string()
    }
}

pub fn judge(backend: &str, files: &BTreeMap<String, Vec<u8>>, resolve: &Resolve, world: WorldId, ctx: &str, obs: &mut Obs) -> CaseResult {
    let decls = extract(backend, files);
    let allowed = allowed_exports(resolve, world);
    for d in decls.iter().filter(|d| d.export.is_some()) {
        let n = d.export.as_ref().unwrap();
        if !allowed.contains(n) && n != "_start" {
            let shape = if n.contains("[dtor]") {
                "dtor"
            } else if n.starts_with("cabi_post_") {
                "post-return"
            } else if n.starts_with("[callback]") {
                "callback"
            } else {
                "function"
            };
            // world-level resources are imports; a destructor export for one is a shape of its own
            let shape = if shape == "dtor" && !n.contains('#') { "dtor-of-world-level-resource" } else { shape };
            let sig = format!("export-not-in-world {backend} {shape}");
            if !obs.extra_failures.iter().any(|f| f.sig == sig) {
                obs.extra_failures.push(Failure::new(
                    sig,
                    format!("{backend} generates the core export `{n}`, which the component model assigns to no item of the world (the encoder would ignore it silently); declaration: {}\n{ctx}", d.raw),
                ));
            }
        }
    }
    let mut unjudged = 0;
    let module = synthetic_module(&decls, resolve, world, &mut unjudged).map_err(|mut f| {
        f.sig = format!("{} {backend}", f.sig);
        f.msg = format!("{}\n{ctx}", f.msg);
        f
    })?;
    let n_imp = decls.iter().filter(|d| d.import.is_some()).count();
    let n_exp = decls.iter().filter(|d| d.export.is_some()).count();
    obs.evals = (n_imp + n_exp).max(1) as u64;
    if unjudged > 0 {
        obs.label(format!("{backend}:signature-not-mapped"));
    }
    // stage 1: names and core signatures against the world (no output validation)
    let enc = wit_component::ComponentEncoder::default().validate(false).module(&module).and_then(|e| e.encode());
    if let Err(e) = enc {
        let msg = format!("{e:#}");
        return Err(Failure::new(
            format!("{} {backend}", classify_encoder_error(&msg)),
            format!("wit-component rejects the core module made of {backend}'s extracted imports/exports ({n_imp} imports, {n_exp} exports): {msg}\n{ctx}"),
        ));
    }
    // stage 2: the resulting component must validate
    let enc = wit_component::ComponentEncoder::default().validate(true).module(&module).and_then(|e| e.encode());
    if let Err(e) = enc {
        let msg = format!("{e:#}");
        let sig = if msg.contains("`async` canonical option requires an async function type") {
            format!("async-abi-forced-on-sync-function {backend}")
        } else if msg.contains("is not a local resource") {
            format!("imported-resource-treated-as-exported {backend}")
        } else if msg.contains("requires a stream type") || msg.contains("requires a future type") {
            format!("future/stream-intrinsic-index-names-wrong-type {backend}")
        } else {
            format!("component-does-not-validate {backend}")
        };
        return Err(Failure::new(
            sig,
            format!("the component built from {backend}'s extracted imports/exports does not validate: {msg}\n{ctx}"),
        ));
    }
    Ok(())
}

fn prop(c: &WorldCase, obs: &mut Obs) -> CaseResult {
    // restrict to the seven backends that emit core declarations
    let bi = backends::BACKENDS.iter().position(|b| *b == C13_BACKENDS[c.backend as usize % C13_BACKENDS.len()]).unwrap() as u8;
    let c = WorldCase { tape: c.tape.clone(), backend: bi, variant: c.variant };
    let Some(p) = prepare(&c) else {
        obs.label("discarded-generator-invalid-world");
        return Ok(());
    };
    let tmp = tempfile::tempdir().map_err(|e| Failure::new("io", e.to_string()))?;
    let files = match backends::generate(p.backend, &p.args, &p.resolve, p.world, Some(tmp.path())) {
        GenOutcome::Files(f) => f,
        _ => return Ok(()),
    };
    obs.label(p.backend.to_string());
    let feats: BTreeSet<&str> = p.features.iter().copied().collect();
    if feats.contains("resource") || feats.contains("async") || p.resolve.worlds[p.world].imports.len() + p.resolve.worlds[p.world].exports.len() > 1 {
        obs.nontrivial_by(&(&p.text, p.backend, p.variant));
        if p.text.len() < 500 {
            obs.sample = Some(serde_json::json!({"backend": p.backend, "variant": p.variant, "wit": p.text}));
        }
    }
    judge(p.backend, &files, &p.resolve, p.world, &format!("backend {} variant {} args {:?}\nWIT:\n{}", p.backend, p.variant, p.args, p.text), obs)
}

pub fn run(check: &mut Check) {
    check.rule = "generated worlds (as C16, per-backend exclusions by construction) + the corpus x {rust, c, cpp, csharp, go, moonbit, d} x their option variants: import/export declarations are extracted from the generated text (C/C++ attributes, Rust link/export_name attributes, Go //go:wasmimport|wasmexport, C# DllImport/UnmanagedCallersOnly, MoonBit extern fn + moon.pkg.json exports, D @wasmImport/@wasmExport) with their core signatures; \
        oracle: a synthetic core module with exactly those imports/exports + the world's type metadata must be accepted by wit_component::ComponentEncoder with validation (unknown import, wrong signature, missing export => rejected) and every extracted export name must be one wit-parser enumerates for the world (so none is silently ignored); \
        non-trivial = world with resources, async, or more than one world item; distinct by (WIT, backend, variant)".into();
    check.assumptions.push("extraction patterns and the language-type -> core-type tables are part of the trusted base; a declaration whose types cannot be mapped is counted (label signature-not-mapped) and judged on its name only".into());
    check.assumptions.push("imports are only judged when the generated code declares them (the property says `actually references`)".into());
    if check.is_replay() {
        check.prop("worlds", || (tape_strategy(10), any::<u8>(), any::<u8>()).prop_map(|(tape, backend, variant)| WorldCase { tape, backend, variant }), 1, prop);
        return;
    }
    for (name, path, text) in backends::corpus() {
        let Ok((resolve, world)) = backends::resolve_input(&Input::Path(&path), None) else { continue };
        for b in C13_BACKENDS {
            for (variant, args) in backends::variants(b) {
                if backends::corpus_excluded(&name, &text, b, variant) {
                    continue;
                }
                // crates/test un-excludes this async file for C++ only because its output
                // happens to compile; async stays a declared-unsupported feature of C++
                if *b == "cpp" && name == "issue-1598.wit" {
                    continue;
                }
                let case = serde_json::json!({"corpus": name, "backend": b, "variant": variant});
                check.case("corpus", &case, |_, obs| {
                    let tmp = tempfile::tempdir().map_err(|e| Failure::new("io", e.to_string()))?;
                    let files = match backends::generate(b, &args, &resolve, world, Some(tmp.path())) {
                        GenOutcome::Files(f) => f,
                        _ => return Ok(()),
                    };
                    obs.nontrivial_by(&(&name, b, variant));
                    judge(b, &files, &resolve, world, &format!("tests/codegen/{name} backend {b} variant {variant}"), obs)
                });
            }
        }
    }
    let n = check.tier.pick(6_000, 150_000);
    check.prop("worlds", || (tape_strategy(900), any::<u8>(), any::<u8>()).prop_map(|(tape, backend, variant)| WorldCase { tape, backend, variant }), n, prop);
}
