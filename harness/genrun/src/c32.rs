//! C32 — the generate! macro records a build dependency on every WIT file it reads.
//!
//! Random package layouts are written to disk, one module per layout invokes
//! `wit_bindgen::generate!` (path / several paths / inline / inline+path / default
//! `wit` directory), the crates are `cargo check`ed and rustc's dep-info is read
//! back: every file wit-parser reads for the layout must be listed.
use proptest::prelude::*;
use serde::{Deserialize, Serialize};
use std::collections::BTreeSet;
use std::fmt::Write as _;
use std::path::{Path, PathBuf};
use std::process::Command;
use vcommon::{Check, Failure};

#[derive(Clone, Debug, Hash, Serialize, Deserialize)]
pub struct Layout {
    /// 0 single file, 1 directory, 2 directory with deps, 3 several paths, 4 inline only,
    /// 5 inline + path, 6 inline + several paths
    pub kind: u8,
    /// number of extra interface files in the main package directory
    pub extra_files: u8,
    /// dependency packages: (as directory?, number of files, used by the main package?)
    pub deps: Vec<(bool, u8, bool)>,
    /// shorthand `generate!("w" in "path")` instead of the braced form (kinds 0..=2)
    pub shorthand: bool,
}

fn layout() -> impl Strategy<Value = Layout> {
    (0u8..7, 0u8..3, prop::collection::vec((any::<bool>(), 1u8..3, prop::bool::weighted(0.7)), 0..3), any::<bool>()).prop_map(|(kind, extra_files, deps, shorthand)| Layout { kind, extra_files, deps, shorthand })
}

struct Written {
    /// the macro invocation text
    invocation: String,
    /// paths (relative to the crate) handed to the macro, in order
    paths: Vec<PathBuf>,
}

fn write(p: &Path, s: &str) {
    if let Some(d) = p.parent() {
        std::fs::create_dir_all(d).unwrap();
    }
    std::fs::write(p, s).unwrap();
}

/// materialise layout `l` as module `k` under `krate`/wits/k
fn materialise(krate: &Path, k: usize, l: &Layout) -> Written {
    let base = PathBuf::from(format!("wits/m{k}"));
    let abs = krate.join(&base);
    let _ = std::fs::remove_dir_all(&abs);
    let pkg = format!("lay:m{k}");
    let mut uses = String::new();
    let mut dep_paths = vec![];
    // dependencies (for kinds that have a directory)
    let with_deps = matches!(l.kind, 2 | 3 | 5 | 6);
    if with_deps {
        for (di, (as_dir, nfiles, used)) in l.deps.iter().enumerate() {
            let dname = format!("dep{di}");
            let dpkg = format!("lay:m{k}d{di}");
            let mut files = vec![format!("package {dpkg};\ninterface types {{ record r{di} {{ a: u32 }} }}\n")];
            for f in 1..*nfiles {
                files.push(format!("package {dpkg};\ninterface extra{f} {{ type t{f} = u8; }}\n"));
            }
            if l.kind == 2 || l.kind == 5 {
                // deps/ folder of the main package
                if *as_dir {
                    for (fi, text) in files.iter().enumerate() {
                        write(&abs.join(format!("main/deps/{dname}/f{fi}.wit")), text);
                    }
                } else {
                    // a single-file dependency holds one file only
                    write(&abs.join(format!("main/deps/{dname}.wit")), &files[0]);
                }
            } else {
                // separate earlier path
                for (fi, text) in files.iter().enumerate() {
                    write(&abs.join(format!("{dname}/f{fi}.wit")), text);
                }
                dep_paths.push(base.join(&dname));
            }
            if *used {
                writeln!(uses, "  use {dpkg}/types.{{r{di}}};\n  import g{di}: func(x: r{di});").unwrap();
            }
        }
    }
    let world_body = format!("{uses}  import f: func(a: u32) -> string;\n  import local;\n");
    let main_text = format!("package {pkg};\ninterface local {{ record p {{ x: u8 }} h: func(a: p); }}\nworld w {{\n{world_body}}}\n");
    let mut invocation = String::new();
    let mut paths = vec![];
    match l.kind {
        0 => {
            write(&abs.join("single.wit"), &main_text);
            paths.push(base.join("single.wit"));
        }
        1 | 2 => {
            write(&abs.join("main/world.wit"), &main_text);
            for e in 0..l.extra_files {
                write(&abs.join(format!("main/extra{e}.wit")), &format!("package {pkg};\ninterface more{e} {{ type q{e} = u16; }}\n"));
            }
            paths.push(base.join("main"));
        }
        3 => {
            write(&abs.join("main/world.wit"), &main_text);
            paths.extend(dep_paths.clone());
            paths.push(base.join("main"));
        }
        4 => {}
        _ => {
            // inline + path(s): the path holds a package the inline world uses
            write(&abs.join("main/iface.wit"), &format!("package {pkg};\ninterface local {{ record p {{ x: u8 }} h: func(a: p); }}\n"));
            for e in 0..l.extra_files {
                write(&abs.join(format!("main/extra{e}.wit")), &format!("package {pkg};\ninterface more{e} {{ type q{e} = u16; }}\n"));
            }
            if l.kind == 6 {
                paths.extend(dep_paths.clone());
            }
            paths.push(base.join("main"));
        }
    }
    let path_list = |ps: &[PathBuf]| {
        if ps.len() == 1 {
            format!("path: \"{}\"", ps[0].display())
        } else {
            format!("path: [{}]", ps.iter().map(|p| format!("\"{}\"", p.display())).collect::<Vec<_>>().join(", "))
        }
    };
    match l.kind {
        // (without `generate_all` the macro demands a `with` entry for interfaces of other packages)
        0..=2 if l.shorthand && uses.is_empty() => write!(invocation, "wit_bindgen::generate!(\"w\" in \"{}\");", paths[0].display()).unwrap(),
        0..=2 => write!(invocation, "wit_bindgen::generate!({{ world: \"w\", {}, generate_all }});", path_list(&paths)).unwrap(),
        // several main packages: the world has to be qualified
        3 => write!(invocation, "wit_bindgen::generate!({{ world: \"{pkg}/w\", {}, generate_all }});", path_list(&paths)).unwrap(),
        4 => write!(invocation, "wit_bindgen::generate!({{ inline: r#\"package lay:inl{k}; world w {{ import f: func(a: u32); }}\"#, generate_all }});").unwrap(),
        _ => {
            let inline_uses = if l.kind == 6 { uses.clone() } else { String::new() };
            write!(
                invocation,
                "wit_bindgen::generate!({{ inline: r#\"package lay:inl{k}; world w {{\n{inline_uses}  import {pkg}/local;\n}}\"#, {}, generate_all }});",
                path_list(&paths)
            )
            .unwrap()
        }
    }
    Written { invocation, paths }
}

fn expected_files(krate: &Path, paths: &[PathBuf]) -> Result<BTreeSet<PathBuf>, String> {
    let mut resolve = wit_parser::Resolve::default();
    let mut out = BTreeSet::new();
    for p in paths {
        let abs = std::fs::canonicalize(krate.join(p)).map_err(|e| format!("{e}"))?;
        let (_, sources) = resolve.push_path(&abs).map_err(|e| format!("{e:#}"))?;
        out.extend(sources.paths().map(|p| p.to_path_buf()));
    }
    Ok(out)
}

fn dep_info(target: &Path, krate: &str) -> BTreeSet<PathBuf> {
    let mut out = BTreeSet::new();
    let deps = target.join("debug/deps");
    let Ok(rd) = std::fs::read_dir(&deps) else { return out };
    for e in rd.flatten() {
        let n = e.file_name().to_string_lossy().to_string();
        if n.starts_with(&format!("{krate}-")) && n.ends_with(".d") {
            let text = std::fs::read_to_string(e.path()).unwrap_or_default();
            for line in text.lines() {
                if let Some((_, rest)) = line.split_once(": ") {
                    for f in rest.split(' ') {
                        if !f.is_empty() {
                            out.insert(PathBuf::from(f));
                        }
                    }
                }
            }
        }
    }
    out
}

pub fn run(check: &mut Check) {
    check.rule = "random package layouts on disk (single file; directory with 1..3 files; directory with a deps/ folder holding dependency packages as directories or single files, used or unused; several ordered paths; inline only; inline + path; inline + several paths; plus a crate that uses the default `wit/` directory with and without `inline`) x invocation forms (braced options, `\"w\" in \"path\"` shorthand); all layouts of a run are compiled in one cargo workspace (one module per layout) and rustc's dep-info is parsed; \
        oracle: every file wit_parser::Resolve::push_path reads for the layout's paths occurs in the crate's dep-info; non-trivial = layout with >= 2 WIT files; distinct by layout".into();
    check.assumptions.push("dependency tracking is observed through rustc's dep-info (.d) file, which is what cargo uses to decide recompilation".into());
    check.assumptions.push("the set of files read is taken from wit-parser's PackageSourceMap (the macro's own reader)".into());
    if check.is_replay() {
        vcommon::harness_error("C32 has no single-case replay: re-run ./check C32 quick (layouts are a function of VERIF_SEED)");
    }
    let n = check.tier.pick(40usize, 400);
    let layouts = check.draw("layouts", &layout(), n);
    let ws = PathBuf::from("/verif/target/c32ws");
    let target = PathBuf::from("/verif/target/c32");
    let _ = std::fs::remove_dir_all(&ws);
    // crate 1: explicit sources; three more crates use the default `wit` directory, one
    // invocation form each (dep-info is per crate)
    let k1 = ws.join("c32host");
    let dflt_forms: [(&str, &str); 3] = [
        ("c32dflt-plain", "wit_bindgen::generate!({ world: \"w\", generate_all });"),
        ("c32dflt-short", "wit_bindgen::generate!(\"s\");"),
        ("c32dflt-inline", "wit_bindgen::generate!({ inline: r#\"package lay:inl; world v { import lay:dflt/types; }\"#, generate_all });"),
    ];
    write(&ws.join("Cargo.toml"), "[workspace]\nresolver = \"2\"\nmembers = [\"c32host\", \"c32dflt-plain\", \"c32dflt-short\", \"c32dflt-inline\"]\n");
    let _ = std::fs::copy("/repo/Cargo.lock", ws.join("Cargo.lock"));
    let manifest = |name: &str| format!("[package]\nname = \"{name}\"\nversion = \"0.0.0\"\nedition = \"2021\"\n[dependencies]\nwit-bindgen = {{ path = \"/repo/crates/guest-rust\" }}\n[lib]\npath = \"src/lib.rs\"\n");
    write(&k1.join("Cargo.toml"), &manifest("c32host"));
    let mut lib = String::from("#![allow(dead_code, unused)]\n");
    let mut written = vec![];
    for (k, l) in layouts.iter().enumerate() {
        let w = materialise(&k1, k, l);
        writeln!(lib, "pub mod m{k} {{ {} }}", w.invocation).unwrap();
        written.push(w);
    }
    write(&k1.join("src/lib.rs"), &lib);
    // default-directory crates: wit/ with 2 files + a deps package of 2 files
    for (name, inv) in dflt_forms {
        let k = ws.join(name);
        write(&k.join("Cargo.toml"), &manifest(name));
        write(&k.join("wit/world.wit"), "package lay:dflt;\nworld w { import f: func(); import types; use lay:dfltdep/types.{r}; import g: func(x: r); }\nworld s { import f: func(a: u32) -> string; }\n");
        write(&k.join("wit/types.wit"), "package lay:dflt;\ninterface types { type t = u32; }\n");
        write(&k.join("wit/deps/dfltdep/a.wit"), "package lay:dfltdep;\ninterface types { record r { a: u32 } }\n");
        write(&k.join("wit/deps/dfltdep/b.wit"), "package lay:dfltdep;\ninterface other { type o = u8; }\n");
        write(&k.join("src/lib.rs"), &format!("#![allow(dead_code, unused)]\n{inv}\n"));
    }
    let out = Command::new("cargo")
        .args(["check", "--offline", "--workspace", "--manifest-path"])
        .arg(ws.join("Cargo.toml"))
        .arg("--target-dir")
        .arg(&target)
        .env("CARGO_NET_OFFLINE", "true")
        .env_remove("RUSTFLAGS")
        .output()
        .unwrap_or_else(|e| vcommon::harness_error(format!("cannot run cargo: {e}")));
    if !out.status.success() {
        let err = String::from_utf8_lossy(&out.stderr);
        vcommon::harness_error(format!("the layout crates do not build (generator/harness problem, not a C32 verdict):\n{}", err.lines().filter(|l| l.contains("error")).take(12).collect::<Vec<_>>().join("\n")));
    }
    let deps1 = dep_info(&target, "c32host");
    if deps1.is_empty() {
        vcommon::harness_error("no dep-info found for the layout crate");
    }
    for (k, (l, w)) in layouts.iter().zip(&written).enumerate() {
        check.case("layouts", l, |l, obs| {
            let expected = expected_files(&k1, &w.paths).map_err(|e| Failure::new("harness-expected", e))?;
            obs.evals = expected.len().max(1) as u64;
            if expected.len() >= 2 {
                obs.nontrivial_by(l);
            }
            obs.label(format!("kind{}", l.kind));
            obs.sample = Some(serde_json::json!({"module": k, "invocation": w.invocation.chars().take(200).collect::<String>(), "files": expected.len()}));
            let missing: Vec<&PathBuf> = expected.iter().filter(|f| !deps1.contains(*f)).collect();
            if !missing.is_empty() {
                let form = match l.kind {
                    0 => "single-file path",
                    1 => "directory path",
                    2 => "directory with deps",
                    3 => "several paths",
                    4 => "inline",
                    5 => "inline + path",
                    _ => "inline + several paths",
                };
                return Err(Failure::new(
                    format!("untracked-wit-file {form}"),
                    format!("module m{k} `{}` reads {} WIT file(s) but rustc's dep-info lacks {:?}", w.invocation.replace('\n', " "), expected.len(), missing),
                ));
            }
            Ok(())
        });
    }
    for (name, inv) in dflt_forms {
        let case = serde_json::json!({"crate": name, "invocation": inv});
        let k = ws.join(name);
        let deps = dep_info(&target, &name.replace('-', "_"));
        check.case("default-dir", &case, |_, obs| {
            let expected = expected_files(&k, &[PathBuf::from("wit")]).map_err(|e| Failure::new("harness-expected", e))?;
            obs.nontrivial_by(&name);
            obs.evals = expected.len() as u64;
            let missing: Vec<&PathBuf> = expected.iter().filter(|f| !deps.contains(*f)).collect();
            if deps.is_empty() {
                return Err(Failure::new("harness-no-depinfo", format!("no dep-info for {name}")));
            }
            if !missing.is_empty() {
                return Err(Failure::new(format!("untracked-wit-file default wit directory ({name})"), format!("`{inv}` reads the default `wit` directory ({} files) but dep-info lacks {missing:?}", expected.len())));
            }
            Ok(())
        });
    }
    let _ = std::fs::remove_dir_all(&ws);
}
