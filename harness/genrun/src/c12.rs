//! C12 — generated C builds for wasm32 and componentizes as exactly the requested world.
use crate::backends::{self, GenOutcome, Input};
use crate::c16::prepare;
use crate::wasmbuild::{self, CBuildError};
use crate::{tape_strategy, WorldCase};
use proptest::prelude::*;
use std::collections::BTreeMap;
use vcommon::{CaseResult, Check, Failure, Obs};
use wit_parser::{Resolve, WorldId};

fn c_index() -> u8 {
    backends::BACKENDS.iter().position(|b| *b == "c").unwrap() as u8
}

fn norm_diag(e: &str) -> String {
    // first diagnostic without paths and quoted names
    let first = e.lines().find(|l| l.contains("error")).unwrap_or(e.lines().next().unwrap_or(""));
    let msg = first.split("error: ").nth(1).unwrap_or(first);
    let re = regex::Regex::new(r"'[^']*'|`[^`]*`").unwrap();
    re.replace_all(msg, "'_'").chars().take(80).collect()
}

pub fn judge(files: &BTreeMap<String, Vec<u8>>, resolve: &Resolve, world: WorldId, variant: &str, ctx: &str, obs: &mut Obs) -> CaseResult {
    let tmp = tempfile::tempdir().map_err(|e| Failure::new("io", e.to_string()))?;
    let module = match wasmbuild::build_c_module(files, tmp.path(), &[], false) {
        Ok(m) => m,
        Err(CBuildError::Compile(e)) => {
            // listed finding: a type declared in the world itself and named `string` gets the C
            // name of the world's own string type
            let w = &resolve.worlds[world];
            let wsnake = heck::ToSnakeCase::to_snake_case(w.name.as_str());
            let first = e.lines().find(|l| l.contains("error")).unwrap_or("");
            let world_type_named_like_builtin = backends::C_HEADER_OWN_TYPES.iter().any(|n| {
                let c_name = format!("{wsnake}_{}", heck::ToSnakeCase::to_snake_case(*n));
                resolve.types.iter().any(|(_, t)| t.name.as_deref() == Some(*n) && t.owner == wit_parser::TypeOwner::World(world)) && (first.contains(&format!("{c_name}_t")) || first.contains(&format!("struct {c_name}'")))
            });
            if world_type_named_like_builtin && first.contains("redefinition") {
                return Err(Failure::new(backends::KF_C_WORLD_TYPE_NAMED_STRING, format!("clang --target=wasm32 rejects the generated C ({variant}): {e}\n{ctx}")));
            }
            // listed finding: `stream<%bool>` and `stream<bool>` (likewise futures) share one set
            // of helper functions
            let named = |p: &str| resolve.types.iter().any(|(_, t)| t.name.as_deref() == Some(p));
            if (first.contains("redefinition") || first.contains("conflicting types")) && backends::PRIMITIVE_NAMES.iter().any(|p| named(p) && (first.contains(&format!("_stream_{p}_")) || first.contains(&format!("_future_{p}_")))) {
                return Err(Failure::new(backends::KF_C_PAYLOAD_NAMED_LIKE_PRIMITIVE, format!("clang --target=wasm32 rejects the generated C ({variant}): {e}\n{ctx}")));
            }
            return Err(Failure::new(format!("c-compile-error: {}", norm_diag(&e)), format!("clang --target=wasm32 rejects the generated C ({variant}): {e}\n{ctx}")));
        }
        Err(CBuildError::Link(e)) => {
            return Err(Failure::new(format!("c-link-error: {}", norm_diag(&e)), format!("wasm-ld cannot link the generated C with its component-type object ({variant}): {e}\n{ctx}")));
        }
    };
    obs.evals = 3;
    // names/signatures first, then full validation (forcing the async ABI on sync function
    // types is a listed C13 finding and judged there)
    let comp = wasmbuild::componentize(&module, false).map_err(|e| Failure::new(format!("c-not-a-component-of-the-world {variant}"), format!("wit-component rejects the linked module ({variant}): {e}\n{ctx}")))?;
    if let Err(e) = wasmbuild::componentize(&module, true) {
        if e.contains("`async` canonical option requires an async function type") {
            // the component cannot be decoded either; names and signatures were judged above
            obs.label("async-forced-on-sync-type(C13 finding)");
            return Ok(());
        } else {
            return Err(Failure::new(format!("c-component-does-not-validate {variant}"), format!("the component does not validate ({variant}): {e}\n{ctx}")));
        }
    }
    let extra = wasmbuild::unassigned_exports(&module, resolve, world).map_err(|e| Failure::new("c-module-unreadable", e))?;
    if !extra.is_empty() {
        return Err(Failure::new(format!("c-export-not-in-world {variant}"), format!("the linked module exports {extra:?}, which the component model assigns to no item of the world (the encoder ignores it silently) ({variant})\n{ctx}")));
    }
    wasmbuild::compare_world(&comp, resolve, world).map_err(|e| {
        let head = e.split(':').next().unwrap_or("").to_string();
        Failure::new(format!("c-world-mismatch {head}"), format!("the component's world differs from the requested one ({variant}): {e}\n{ctx}"))
    })
}

fn prop(c: &WorldCase, obs: &mut Obs) -> CaseResult {
    let c = WorldCase { tape: c.tape.clone(), backend: c_index(), variant: c.variant };
    let Some(p) = prepare(&c) else {
        obs.label("discarded-generator-invalid-world");
        return Ok(());
    };
    let files = match backends::generate("c", &p.args, &p.resolve, p.world, None) {
        GenOutcome::Files(f) => f,
        _ => {
            obs.label("generator-error-or-panic");
            return Ok(());
        }
    };
    obs.label(p.variant.to_string());
    if p.text.contains('%') || p.resolve.interfaces.len() >= 2 {
        obs.nontrivial_by(&(&p.text, p.variant));
        if p.text.len() < 500 {
            obs.sample = Some(serde_json::json!({"variant": p.variant, "wit": p.text}));
        }
    }
    judge(&files, &p.resolve, p.world, p.variant, &format!("variant {} args {:?}\nWIT:\n{}", p.variant, p.args, p.text), obs)
}

pub fn run(check: &mut Check) {
    // every shrink step is a compiler run
    vcommon::SHRINK_ITERS.store(150, std::sync::atomic::Ordering::Relaxed);
    check.rule = "generated worlds within the C backend's declared feature set (adversarial names: C keywords, names that collide after mangling, generator temporaries) + the corpus minus crates/test/src/c.rs exclusions x {default, --no-sig-flattening, --autodrop-borrows=yes, --string-encoding=utf16, --async=all}: the generated C is compiled with clang --target=wasm32-unknown-unknown (implicit declarations are errors), linked by wasm-ld with its *_component_type.o, encoded by wit_component::ComponentEncoder, validated, decoded again; \
        oracle: every step succeeds, the decoded component exports exactly the requested world's exports with identical function types and imports a subset of its imports; non-trivial = world with escaped names or >= 2 interfaces; distinct by (WIT, variant)".into();
    check.assumptions.push("a four-header libc shim and a bump allocator stand in for wasi-libc; unimplemented export bodies are resolved by wasm-ld to trapping stubs (--unresolved-symbols=ignore-all), so imports are only checked as a subset".into());
    if check.is_replay() {
        check.prop("worlds", || (tape_strategy(10), Just(0u8), any::<u8>()).prop_map(|(tape, backend, variant)| WorldCase { tape, backend, variant }), 1, prop);
        return;
    }
    let stride = check.tier.pick(6usize, 1);
    for (i, (name, path, text)) in backends::corpus().into_iter().enumerate() {
        let Ok((resolve, world)) = backends::resolve_input(&Input::Path(&path), None) else { continue };
        for (vi, (variant, args)) in backends::variants("c").into_iter().enumerate() {
            if backends::corpus_excluded(&name, &text, "c", variant) {
                continue;
            }
            // quick tier: every file with the default options, other variants on a stride
            if variant != "default" && (i + vi) % stride != 0 {
                continue;
            }
            let case = serde_json::json!({"corpus": name, "variant": variant});
            check.case("corpus", &case, |_, obs| {
                let files = match backends::generate("c", &args, &resolve, world, None) {
                    GenOutcome::Files(f) => f,
                    _ => return Ok(()),
                };
                obs.nontrivial_by(&(&name, variant));
                judge(&files, &resolve, world, variant, &format!("tests/codegen/{name} variant {variant}"), obs)
            });
        }
    }
    // witness of the listed finding (a different failure of this world is still reported)
    {
        let wit = "package a:b;\nworld w {\n  enum %string { a }\n  import f: func(x: %string, y: string);\n}\n";
        check.case("witness-world-type-named-string", &serde_json::json!({"wit": wit}), |_, obs| {
            let (resolve, world) = backends::resolve_input(&Input::Text(wit), None).map_err(|e| Failure::new("harness", format!("{e:#}")))?;
            let files = match backends::generate("c", &[], &resolve, world, None) {
                GenOutcome::Files(f) => f,
                _ => return Ok(()),
            };
            judge(&files, &resolve, world, "default", wit, obs)
        });
    }
    {
        let wit = "package a:b;\ninterface i {\n  enum %bool { a, b }\n  f: func(x: stream<%bool>) -> stream<bool>;\n}\nworld w {\n  import i;\n}\n";
        check.case("witness-payload-named-like-primitive", &serde_json::json!({"wit": wit}), |_, obs| {
            let (resolve, world) = backends::resolve_input(&Input::Text(wit), None).map_err(|e| Failure::new("harness", format!("{e:#}")))?;
            let files = match backends::generate("c", &[], &resolve, world, None) {
                GenOutcome::Files(f) => f,
                _ => return Ok(()),
            };
            judge(&files, &resolve, world, "default", wit, obs)
        });
    }
    // (a world costs a clang + wasm-ld run: ~4000 worlds are about half an hour on 16 cores)
    let n = check.tier.pick(160, 4_000);
    check.prop("worlds", || (tape_strategy(700), Just(0u8), any::<u8>()).prop_map(|(tape, backend, variant)| WorldCase { tape, backend, variant }), n, prop);
    wasmbuild::cleanup_shim();
}
