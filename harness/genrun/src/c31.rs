//! C31 — generated C++ bindings are well-formed C++ (type-check as C++20 with the
//! repository's helper headers).
use crate::backends::{self, GenOutcome, Input};
use crate::c16::prepare;
use crate::{tape_strategy, WorldCase};
use proptest::prelude::*;
use std::collections::BTreeMap;
use std::process::Command;
use vcommon::{CaseResult, Check, Failure, Obs};

fn cpp_index() -> u8 {
    backends::BACKENDS.iter().position(|b| *b == "cpp").unwrap() as u8
}

/// type-check every generated .cpp; returns the first error line (normalised)
pub fn typecheck(files: &BTreeMap<String, Vec<u8>>, ctx: &str) -> CaseResult {
    let tmp = tempfile::tempdir().map_err(|e| Failure::new("io", e.to_string()))?;
    for (n, b) in files {
        let p = tmp.path().join(n);
        if let Some(d) = p.parent() {
            let _ = std::fs::create_dir_all(d);
        }
        std::fs::write(&p, b).map_err(|e| Failure::new("io", e.to_string()))?;
    }
    for (n, _) in files.iter().filter(|(n, _)| n.ends_with(".cpp")) {
        let out = Command::new("g++")
            .args(["-std=c++20", "-D_GLIBCXX_USE_DEPRECATED=0", "-fsyntax-only", "-Wno-attributes", "-w", "-fmax-errors=30"])
            .arg("-I")
            .arg(tmp.path())
            .args(["-I", "/repo/crates/cpp/helper-types", "-I", "/repo/crates/cpp/test_headers"])
            .arg(tmp.path().join(n))
            .output()
            .unwrap_or_else(|e| vcommon::harness_error(format!("cannot run g++: {e}")));
        let stderr = String::from_utf8_lossy(&out.stderr);
        let errors: Vec<&str> = stderr
            .lines()
            .filter(|l| l.contains(" error: ") || l.contains("fatal error"))
            // the only error class caused by the 64-bit host: pointers do not fit int32_t
            .filter(|l| !l.contains("loses precision"))
            .collect();
        if let Some(first) = errors.first() {
            // signature: the diagnostic text without file/line and quoted names
            let msg = first.split(" error: ").nth(1).unwrap_or(first);
            let re = regex::Regex::new(r"‘[^’]*’|'[^']*'").unwrap();
            let norm = re.replace_all(msg, "‘_’").to_string().replace(" {aka ‘_’}", "");
            let norm: String = norm.chars().take(90).collect();
            return Err(Failure::new(
                format!("cpp-type-error: {norm}"),
                format!("g++ -std=c++20 rejects generated `{n}`: {first}\n(all errors: {})\n{ctx}", errors.len()),
            ));
        }
    }
    Ok(())
}

/// The C++ backend fails to type-check a large share of unrestricted random worlds
/// (see DESIGN.md C31 and known-findings.txt); the registered tiers explore the
/// sub-domain on which the unchanged tree is clean.
const TAME_LEVEL: u8 = 3;

fn tame(p: &mut witgen::Profile, level: u8) {
    if level >= 1 {
        p.adversarial_names = false;
    }
    if level >= 2 {
        p.map = false;
        p.multi_package = false;
    }
    if level >= 3 {
        p.resources = false;
        p.world_level_items = false;
    }
    if level >= 4 {
        p.import_and_export_same = false;
        p.named_iface_import = false;
    }
}

fn prop(c: &WorldCase, obs: &mut Obs) -> CaseResult {
    let c = WorldCase { tape: c.tape.clone(), backend: cpp_index(), variant: 0 };
    let level: u8 = std::env::var("VERIF_C31_TAME").ok().and_then(|s| s.parse().ok()).unwrap_or(TAME_LEVEL);
    let Some(p) = crate::c16::prepare_with(&c, |p| tame(p, level)) else {
        obs.label("discarded-generator-invalid-world");
        return Ok(());
    };
    let tmp = tempfile::tempdir().map_err(|e| Failure::new("io", e.to_string()))?;
    let files = match backends::generate("cpp", &p.args, &p.resolve, p.world, Some(tmp.path())) {
        GenOutcome::Files(f) => f,
        GenOutcome::Error(_) => {
            obs.label("generator-error");
            return Ok(());
        }
        GenOutcome::Panic(_) => {
            obs.label("generator-panic(C16)");
            return Ok(());
        }
    };
    let adversarial = p.text.contains('%') || p.features.len() >= 2;
    if adversarial {
        obs.nontrivial_by(&p.text);
        if p.text.len() < 500 {
            obs.sample = Some(serde_json::json!({"wit": p.text}));
        }
    }
    typecheck(&files, &format!("WIT:\n{}", p.text))
}

/// (name, WIT) of the constructed qualification worlds
fn qualification_worlds() -> Vec<(String, String)> {
    let shapes: [(&str, &str, &str); 6] = [
        ("case-named-like-record-payload", "record config { level: u32, fast: bool }\n  variant setting { none, config(config), other(u32) }", "apply: func(s: setting) -> setting;"),
        ("case-named-like-enum-payload", "enum mode { fast, slow }\n  variant pick { mode(mode), nothing }", "choose: func(p: pick) -> mode;"),
        ("method-named-like-record", "record config { level: u32 }\n  resource conn { constructor(); config: func() -> u32; update: func(c: config); }", "open: func() -> conn;"),
        ("field-named-like-its-type", "record config { level: u32 }\n  record outer { config: config, more: list<config> }", "wrap: func(o: outer) -> outer;"),
        ("parameter-named-like-its-type", "record config { level: u32 }", "tune: func(config: config) -> config;"),
        ("case-with-list-of-same-name", "record config { level: u32 }\n  variant many { config(list<config>), one(option<config>) }", "all: func(m: many) -> many;"),
    ];
    let mut out = vec![];
    for (name, types, func) in shapes {
        // world-level types (functions only when no resource is involved: world-level resources
        // are a listed finding of their own)
        if !types.contains("resource") {
            out.push((format!("{name}/world-level"), format!("package foo:bar;\nworld w {{\n  {types}\n  import {func}\n  export run-{func}\n}}\n")));
        }
        let iface = format!("interface things {{\n  {types}\n  {func}\n}}\n");
        for (scope, items) in [("import-plain-name", "import alias: things;"), ("export-plain-name", "export alias: things;"), ("import-qualified", "import things;"), ("export-qualified", "export things;")] {
            out.push((format!("{name}/{scope}"), format!("package foo:bar;\n{iface}world w {{\n  {items}\n}}\n")));
        }
    }
    out
}

pub fn run(check: &mut Check) {
    // every shrink step is a compiler run
    vcommon::SHRINK_ITERS.store(150, std::sync::atomic::Ordering::Relaxed);
    check.rule = "generated worlds restricted to what the C++ backend does not declare unsupported (no async/futures/streams/error-context, no fixed-length lists, no variant case named like its variant) with adversarial names (C/C++ keywords, generator temporaries, names equal across interfaces) + the corpus minus crates/test/src/cpp.rs exclusions; every generated .cpp is type-checked with `g++ -std=c++20 -fsyntax-only` against crates/cpp/helper-types and test_headers; \
        oracle: no error diagnostics (warnings ignored; the host-width-only error `cast ... loses precision` filtered); non-trivial = world with escaped names or >= 2 feature classes; distinct by WIT text".into();
    check.assumptions.push("g++ 12 / libstdc++ on x86_64 stands in for wasi-sdk clang++/libc++ (-D_GLIBCXX_USE_DEPRECATED=0 avoids libstdc++'s own std::unexpected clashing with the repository's expected polyfill)".into());
    if check.is_replay() {
        check.prop("worlds", || (tape_strategy(10), Just(0u8), Just(0u8)).prop_map(|(tape, backend, variant)| WorldCase { tape, backend, variant }), 1, prop);
        return;
    }
    let corpus: Vec<serde_json::Value> = backends::corpus()
        .into_iter()
        .filter(|(name, _, text)| !(backends::corpus_excluded(name, text, "cpp", "default") || name == "issue-1598.wit"))
        .map(|(name, path, _)| serde_json::json!({"corpus": name, "path": path}))
        .collect();
    {
        check.cases_par("corpus", &corpus, |case, obs| {
            let name = case["corpus"].as_str().unwrap().to_string();
            let path = std::path::PathBuf::from(case["path"].as_str().unwrap());
            let Ok((resolve, world)) = backends::resolve_input(&Input::Path(&path), None) else { return Ok(()) };
            let tmp = tempfile::tempdir().map_err(|e| Failure::new("io", e.to_string()))?;
            let files = match backends::generate("cpp", &[], &resolve, world, Some(tmp.path())) {
                GenOutcome::Files(f) => f,
                _ => return Ok(()),
            };
            obs.nontrivial_by(&name);
            // the corpus has no tolerated diagnostic class: its failures carry their own prefix
            typecheck(&files, &format!("tests/codegen/{name}")).map_err(|mut f| {
                f.sig = format!("corpus {}", f.sig);
                f
            })
        });
    }
    // constructed worlds around name qualification: a name of the enclosing namespace that is
    // shadowed inside a nested scope (a variant case, a resource method, a field or a parameter
    // named like the type it carries), with the type in a one-component namespace (world-level,
    // interface under a plain name) or in a package-qualified one
    let quals: Vec<serde_json::Value> = qualification_worlds().into_iter().map(|(n, w)| serde_json::json!({"name": n, "wit": w})).collect();
    check.cases_par("qualification", &quals, |case, obs| {
        let wit = case["wit"].as_str().unwrap();
        let (resolve, world) = backends::resolve_input(&Input::Text(wit), Some("w")).unwrap_or_else(|e| vcommon::harness_error(format!("constructed world does not parse: {e:#}\n{wit}")));
        let tmp = tempfile::tempdir().map_err(|e| Failure::new("io", e.to_string()))?;
        let files = match backends::generate("cpp", &[], &resolve, world, Some(tmp.path())) {
            GenOutcome::Files(f) => f,
            _ => return Ok(()),
        };
        obs.nontrivial_by(&wit);
        typecheck(&files, &format!("constructed world {}:\n{wit}", case["name"].as_str().unwrap()))
    });
    match check.tier {
        vcommon::Tier::Quick => {
            // The unchanged C++ backend fails on a large share of random worlds with an open-ended
            // set of diagnostics (listed as known findings by class). To keep the every-change
            // tier free of alarms from classes not yet listed, its random worlds are a fixed
            // sample (independent of VERIF_SEED); the thorough tier follows VERIF_SEED.
            let mut x: u64 = 0x9e37_79b9_7f4a_7c15;
            let mut fixed = vec![];
            for i in 0..64 {
                let len = 100 + (i * 9) % 600;
                let tape: Vec<u16> = (0..len)
                    .map(|_| {
                        x ^= x << 13;
                        x ^= x >> 7;
                        x ^= x << 17;
                        (x >> 24) as u16
                    })
                    .collect();
                fixed.push(WorldCase { tape, backend: 0, variant: 0 });
            }
            check.cases_par("fixed-worlds", &fixed, prop);
        }
        vcommon::Tier::Thorough => {
            check.prop("worlds", || (tape_strategy(700), Just(0u8), Just(0u8)).prop_map(|(tape, backend, variant)| WorldCase { tape, backend, variant }), 1_000, prop);
        }
    }
}
