//! C15 — binding generation is deterministic.
//!
//! Two tiers, both generated-input:
//!  * in-process: every (world, backend, variant) is generated three times on
//!    three different threads (std's RandomState takes its base keys per thread
//!    and a fresh increment per map, so each run sees different hash seeds) and
//!    the file maps must be byte-identical;
//!  * processes: for a sample of worlds the repository's CLI (built from /repo's
//!    working tree) is run in separate processes into fresh directories; file
//!    names and bytes must be identical, and `--check` from another process
//!    against the first directory must succeed (not for C++/D, which read the
//!    out-dir — see DESIGN.md C15).
use crate::backends::{self, GenOutcome, Input, BACKENDS};
use crate::c16::prepare;
use crate::{tape_strategy, WorldCase};
use proptest::prelude::*;
use std::collections::BTreeMap;
use std::path::{Path, PathBuf};
use std::process::Command;
use vcommon::{CaseResult, Check, Failure, Obs};

fn diff_sig(backend: &str, a: &BTreeMap<String, Vec<u8>>, b: &BTreeMap<String, Vec<u8>>) -> Option<(String, String)> {
    let na: Vec<&String> = a.keys().collect();
    let nb: Vec<&String> = b.keys().collect();
    if na != nb {
        return Some((format!("nondeterministic {backend}: file name set"), format!("file names differ: {na:?} vs {nb:?}")));
    }
    for (n, ca) in a {
        let cb = &b[n];
        if ca != cb {
            // classify by file kind (extension / well-known name), not by path
            let kind = if backend == "moonbit" && (n.ends_with("ffi.mbt") || n.ends_with("ffi_import.mbt")) {
                "ffi helper file".to_string()
            } else {
                Path::new(n).extension().map(|e| format!("*.{}", e.to_string_lossy())).unwrap_or_else(|| n.clone())
            };
            let (ta, tb) = (String::from_utf8_lossy(ca), String::from_utf8_lossy(cb));
            let first = ta.lines().zip(tb.lines()).position(|(x, y)| x != y);
            let detail = match first {
                Some(i) => format!("first differing line {}: {:?} vs {:?}", i + 1, ta.lines().nth(i).unwrap_or(""), tb.lines().nth(i).unwrap_or("")),
                None => format!("lengths {} vs {}", ca.len(), cb.len()),
            };
            return Some((format!("nondeterministic {backend}: {kind}"), format!("file {n} differs between runs: {detail}")));
        }
    }
    None
}

fn run_threads(backend: &'static str, args: &[&'static str], resolve: &wit_parser::Resolve, world: wit_parser::WorldId) -> Vec<GenOutcome> {
    std::thread::scope(|s| {
        let hs: Vec<_> = (0..3)
            .map(|_| {
                s.spawn(move || {
                    let tmp = tempfile::tempdir().ok();
                    backends::generate(backend, args, resolve, world, tmp.as_ref().map(|t| t.path()))
                })
            })
            .collect();
        hs.into_iter().map(|h| h.join().unwrap_or(GenOutcome::Error("thread".into()))).collect()
    })
}

fn compare_outcomes(backend: &str, outs: Vec<GenOutcome>, ctx: &str) -> CaseResult {
    let mut maps = vec![];
    let mut errs = 0;
    for o in outs {
        match o {
            GenOutcome::Files(f) => maps.push(f),
            GenOutcome::Error(_) => errs += 1,
            GenOutcome::Panic(_) => return Ok(()), // C16's subject
        }
    }
    if errs > 0 && !maps.is_empty() {
        return Err(Failure::new(format!("nondeterministic {backend}: error vs success"), format!("{backend}: some runs returned an error, others files ({ctx})")));
    }
    for m in maps.iter().skip(1) {
        if let Some((sig, msg)) = diff_sig(backend, &maps[0], m) {
            return Err(Failure::new(sig, format!("{msg}\n{ctx}")));
        }
    }
    Ok(())
}

fn prop(c: &WorldCase, obs: &mut Obs) -> CaseResult {
    let Some(p) = prepare(c) else {
        obs.label("discarded-generator-invalid-world");
        return Ok(());
    };
    let outs = run_threads(p.backend, &p.args, &p.resolve, p.world);
    obs.label(p.backend.to_string());
    let r = &p.resolve;
    let n_ifaces = r.interfaces.len();
    let n_pkgs = r.packages.len();
    let n_types = r.types.iter().filter(|(_, t)| t.name.is_some()).count();
    if n_ifaces >= 3 || n_pkgs >= 2 || n_types >= 10 {
        obs.nontrivial_by(&(&p.text, p.backend, p.variant));
        if p.text.len() < 500 {
            obs.sample = Some(serde_json::json!({"backend": p.backend, "variant": p.variant, "wit": p.text}));
        }
    }
    obs.evals = 3;
    compare_outcomes(p.backend, outs, &format!("backend {} variant {}\nWIT:\n{}", p.backend, p.variant, p.text))
}

pub fn cli_path() -> PathBuf {
    PathBuf::from("/verif/target/cli/release/wit-bindgen")
}

/// build the repository's CLI from the current working tree (cargo decides whether
/// anything needs rebuilding)
pub fn build_cli() {
    let st = Command::new("cargo")
        .args(["build", "--release", "--offline", "--manifest-path", "/repo/Cargo.toml", "--target-dir", "/verif/target/cli", "--bin", "wit-bindgen"])
        .env("CARGO_NET_OFFLINE", "true")
        .env_remove("RUSTFLAGS")
        .output();
    match st {
        Ok(o) if o.status.success() => {}
        Ok(o) => vcommon::harness_error(format!("building the wit-bindgen CLI failed:\n{}", String::from_utf8_lossy(&o.stderr).lines().rev().take(30).collect::<Vec<_>>().join("\n"))),
        Err(e) => vcommon::harness_error(format!("cannot run cargo: {e}")),
    }
}

pub fn read_tree(dir: &Path) -> BTreeMap<String, Vec<u8>> {
    fn walk(base: &Path, d: &Path, out: &mut BTreeMap<String, Vec<u8>>) {
        if let Ok(rd) = std::fs::read_dir(d) {
            for e in rd.flatten() {
                let p = e.path();
                if p.is_dir() {
                    walk(base, &p, out);
                } else if let Ok(b) = std::fs::read(&p) {
                    out.insert(p.strip_prefix(base).unwrap().to_string_lossy().to_string(), b);
                }
            }
        }
    }
    let mut out = BTreeMap::new();
    walk(dir, dir, &mut out);
    out
}

pub fn run_cli(backend: &str, args: &[&str], wit: &Path, world: Option<&str>, out: &Path, check: bool) -> (bool, String) {
    let mut cmd = Command::new(cli_path());
    // no backtraces: they are slow to symbolize and clutter the error text
    cmd.env("RUST_BACKTRACE", "0").env("RUST_LIB_BACKTRACE", "0");
    cmd.arg(backend).args(args).arg(wit).arg("--out-dir").arg(out).arg("--all-features");
    if let Some(w) = world {
        cmd.arg("--world").arg(w);
    }
    if check {
        cmd.arg("--check");
    }
    match cmd.output() {
        Ok(o) => (o.status.success(), String::from_utf8_lossy(&o.stderr).to_string()),
        Err(e) => vcommon::harness_error(format!("cannot run the CLI: {e}")),
    }
}

fn process_case(backend: &str, variant: &str, args: &[&str], wit: &Path, world: Option<&str>, ctx: &str) -> CaseResult {
    let tmp = tempfile::tempdir().map_err(|e| Failure::new("io", e.to_string()))?;
    let (d1, d2) = (tmp.path().join("a"), tmp.path().join("b"));
    let (ok1, e1) = run_cli(backend, args, wit, world, &d1, false);
    let (ok2, _e2) = run_cli(backend, args, wit, world, &d2, false);
    if ok1 != ok2 {
        return Err(Failure::new(format!("nondeterministic {backend}: error vs success"), format!("{backend} ({variant}): one process succeeded, the other failed ({ctx}): {e1}")));
    }
    if !ok1 {
        return Ok(());
    }
    let (a, b) = (read_tree(&d1), read_tree(&d2));
    if let Some((sig, msg)) = diff_sig(backend, &a, &b) {
        return Err(Failure::new(sig, format!("separate processes: {msg}\n{ctx}")));
    }
    // check mode from a third process against the first directory
    if !matches!(backend, "cpp" | "d") {
        let (ok, err) = run_cli(backend, args, wit, world, &d1, true);
        if !ok {
            return Err(Failure::new(
                format!("spurious-check-difference {backend}"),
                format!("--check against the directory another process just generated fails: {}\n{ctx}", err.lines().last().unwrap_or("")),
            ));
        }
    }
    Ok(())
}

pub fn run(check: &mut Check) {
    check.rule = "in-process tier: generated worlds (as C16) x (backend, variant), generated 3 times on 3 threads (distinct hash seeds), file maps byte-identical; corpus x all backends x all variants the same way; \
        process tier: the CLI built from /repo is run in 2 separate processes per (world, backend, variant) into fresh directories (names and bytes identical) and a third process runs --check against the first directory (except C++/D which read the out-dir); \
        non-trivial = world with >= 3 interfaces or >= 2 packages or >= 10 named types; distinct by (WIT text, backend, variant)".into();
    check.assumptions.push("std::collections RandomState differs per thread and per map instance, so 3 threads exercise different hash iteration orders; address-space layout differences are only exercised by the process tier".into());
    if check.is_replay() {
        check.prop("worlds", || (tape_strategy(10), any::<u8>(), any::<u8>()).prop_map(|(tape, backend, variant)| WorldCase { tape, backend, variant }), 1, prop);
        return;
    }
    // corpus, in-process
    let corpus = backends::corpus();
    for (name, path, text) in &corpus {
        let Ok((resolve, world)) = backends::resolve_input(&Input::Path(path), None) else { continue };
        for b in BACKENDS {
            for (variant, args) in backends::variants(b) {
                if backends::corpus_excluded(name, text, b, variant) {
                    continue;
                }
                let case = serde_json::json!({"corpus": name, "backend": b, "variant": variant});
                check.case("corpus", &case, |_, obs| {
                    obs.nontrivial_by(&(name, b, variant));
                    obs.evals = 3;
                    let outs = run_threads(b, &args, &resolve, world);
                    compare_outcomes(b, outs, &format!("tests/codegen/{name} backend {b} variant {variant}"))
                });
            }
        }
    }
    // regression worlds for the defects fixed in /repo (see known-findings.txt)
    let fixed: &[(&str, &str, &str)] = &[
        ("csharp-functionless-resources", "csharp", "package a:a;\ninterface i { resource ra; resource rb; resource rc; resource rd; resource re; resource rf; }\nworld w { export i; import i; }"),
        ("csharp-world-level-enums", "csharp", "package a:a;\nworld w { enum e1 { a } enum e2 { b } enum e3 { c } enum e4 { d } enum e5 { e } import f: func(x: e1, y: e2, z: e3, w: e4, v: e5); }"),
        ("moonbit-ffi-helpers", "moonbit", "package a:a;\ninterface i { f: func(a: string, b: list<u8>, c: f64, d: s64, e: list<string>) -> tuple<string, f32, u8, s16>; }\nworld w { import i; export i; }"),
    ];
    for (name, backend, wit) in fixed {
        let (resolve, world) = backends::resolve_input(&Input::Text(wit), None).unwrap_or_else(|e| vcommon::harness_error(format!("regression world {name} does not parse: {e:#}")));
        let args = backends::variants(backend)[0].1.clone();
        let backend: &'static str = BACKENDS.iter().find(|b| *b == backend).unwrap();
        for round in 0..4 {
            let case = serde_json::json!({"regression": name, "round": round});
            check.case("fixed-regressions", &case, |_, obs| {
                obs.nontrivial_by(&(name, round));
                obs.evals = 3;
                let outs = run_threads(backend, &args, &resolve, world);
                compare_outcomes(backend, outs, &format!("regression world {name}"))
            });
        }
    }
    let n = check.tier.pick(6_000, 100_000);
    check.prop(
        "worlds",
        || (tape_strategy(900), any::<u8>(), any::<u8>()).prop_map(|(tape, backend, variant)| WorldCase { tape, backend, variant }),
        n,
        prop,
    );
    // process tier
    build_cli();
    let nproc = check.tier.pick(10usize, 120);
    // corpus sample (deterministic stride) + generated worlds
    let stride = (corpus.len() / nproc.min(corpus.len()).max(1)).max(1);
    let mut runs = 0;
    for (i, (name, path, text)) in corpus.iter().enumerate() {
        if i % stride != 0 {
            continue;
        }
        if backends::resolve_input(&Input::Path(path), None).is_err() {
            continue;
        }
        for b in BACKENDS {
            let vars = backends::variants(b);
            let (variant, args) = vars[i % vars.len()].clone();
            if backends::corpus_excluded(name, text, b, variant) {
                continue;
            }
            runs += 1;
            let case = serde_json::json!({"corpus": name, "backend": b, "variant": variant, "tier": "process"});
            check.case("process-corpus", &case, |_, obs| {
                obs.nontrivial_by(&(name, b, variant, "p"));
                obs.evals = 3;
                process_case(b, variant, &args, path, None, &format!("tests/codegen/{name}"))
            });
        }
    }
    let tapes = check.draw("process-worlds", &tape_strategy(900), nproc);
    for (i, tape) in tapes.iter().enumerate() {
        for (bi, _b) in BACKENDS.iter().enumerate() {
            let c = WorldCase { tape: tape.clone(), backend: bi as u8, variant: i as u8 };
            runs += 1;
            check.case("process-worlds", &c, |c, obs| {
                let Some(p) = prepare(c) else {
                    obs.label("discarded-generator-invalid-world");
                    return Ok(());
                };
                let tmp = tempfile::tempdir().map_err(|e| Failure::new("io", e.to_string()))?;
                let wit = tmp.path().join("gen.wit");
                std::fs::write(&wit, &p.text).map_err(|e| Failure::new("io", e.to_string()))?;
                obs.nontrivial_by(&(&p.text, p.backend, p.variant, "p"));
                obs.evals = 3;
                let wname = p.resolve.worlds[p.world].name.clone();
                process_case(p.backend, p.variant, &p.args, &wit, Some(&wname), &format!("backend {} variant {}\nWIT:\n{}", p.backend, p.variant, p.text))
            });
        }
    }
    check.set_sub_info("process-tier", serde_json::json!({"cli_invocation_groups": runs}));
}
