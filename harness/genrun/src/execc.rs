//! Engine D, C flavour: the generated C bindings of a proxy world (see exec.rs) are compiled
//! natively together with a generated glue file — forwarding export implementations, import
//! stand-ins that call the host callback, export trampolines, a malloc/free ledger — into one
//! shared object per world, which `exec::run_world` then drives.
use crate::exec::{self, export_flat_params, export_flat_result, ProxyWorld};
use refabi::Flat;
use std::path::{Path, PathBuf};

const GLUE_HEAD: &str = r#"#include <stdint.h>
#include <stddef.h>
#include <stdbool.h>
#include <string.h>
#include <stdlib.h>
#include "w.h"

/* ---- ledger of the blocks the generated code allocates and frees ---- */
#define V_CAP 16384
static struct { void *p; size_t n; } v_live[V_CAP];
static uint64_t v_count, v_bytes, v_errs, v_total;
static void v_add(void *p, size_t n) {
  if (!p) return;
  for (size_t i = 0; i < V_CAP; i++) if (!v_live[i].p) { v_live[i].p = p; v_live[i].n = n; v_count++; v_bytes += n; v_total++; return; }
  v_errs++;
}
static int v_del(void *p) {
  for (size_t i = 0; i < V_CAP; i++) if (v_live[i].p == p) { v_live[i].p = 0; v_count--; v_bytes -= v_live[i].n; return 1; }
  return 0;
}
void *v_malloc(size_t n) { void *p = malloc(n ? n : 1); v_add(p, n); return p; }
void *v_calloc(size_t a, size_t b) { void *p = calloc(a ? a : 1, b ? b : 1); v_add(p, a * b); return p; }
void v_free(void *p) {
  if (!p) return;
  /* a free of a block that is not live (double free, foreign or interior pointer) is counted
     and not passed on, so that the process survives to report it */
  if (!v_del(p)) { v_errs++; return; }
  free(p);
}
void *v_realloc(void *p, size_t n) {
  if (p && !v_del(p)) { v_errs++; p = 0; }
  void *q = realloc(p, n ? n : 1);
  v_add(q, n);
  return q;
}
void __verif_stats(uint64_t *out) { out[0] = v_count; out[1] = v_bytes; out[2] = v_errs; out[3] = v_total; }
size_t __verif_dump(uint64_t *out, size_t max) {
  size_t k = 0;
  for (size_t i = 0; i < V_CAP && k < max; i++) if (v_live[i].p) { out[2 * k] = (uint64_t)(uintptr_t)v_live[i].p; out[2 * k + 1] = v_live[i].n; k++; }
  return k;
}
uint32_t __verif_is_live(size_t p, size_t n) {
  for (size_t i = 0; i < V_CAP; i++) if (v_live[i].p && (size_t)(uintptr_t)v_live[i].p <= p && p + n <= (size_t)(uintptr_t)v_live[i].p + v_live[i].n) return 1;
  return 0;
}
/* defined by the component-type object on wasm32, which is not linked natively */
void __component_type_object_force_link_w(void) {}
extern void *cabi_realloc(void *ptr, size_t old_size, size_t align, size_t new_size);
void *__verif_realloc(void *old, size_t old_size, size_t align, size_t new_size) { return cabi_realloc(old, old_size, align, new_size); }

typedef void (*verif_host_fn)(uint32_t id, const uint64_t *args, size_t nargs, uint64_t *ret);
static verif_host_fn v_host;
void __verif_set_host(verif_host_fn f) { v_host = f; }
static inline uint64_t v_f32(float f) { uint32_t b; memcpy(&b, &f, 4); return b; }
static inline uint64_t v_f64(double f) { uint64_t b; memcpy(&b, &f, 8); return b; }
static inline float v_tof32(uint64_t b) { uint32_t x = (uint32_t)b; float f; memcpy(&f, &x, 4); return f; }
static inline double v_tof64(uint64_t b) { double f; memcpy(&f, &b, 8); return f; }
/* value digest (FNV-1a over 64-bit words) of the local `h` */
#define H(x) (h = (h ^ (uint64_t)(x)) * 0x100000001b3ull)
"#;

/// C statements that add value `e` of type `t`, read through the generated C types, to the
/// digest `h` (the walk of `exec::probe_digest`)
fn c_walk(t: &refabi::Ty, e: &str, depth: usize) -> String {
    use refabi::Ty;
    match t {
        Ty::Bool => format!("H(({e}) ? 1 : 0);\n"),
        Ty::U8 | Ty::U16 | Ty::U32 | Ty::U64 | Ty::S8 | Ty::S16 | Ty::S32 | Ty::S64 => format!("H((uint64_t)(int64_t)({e}));\n"),
        Ty::Char => format!("H((uint64_t)(uint32_t)({e}));\n"),
        Ty::F32 => format!("{{ float f = ({e}); H(f != f ? 0x7fc00000ull : v_f32(f)); }}\n"),
        Ty::F64 => format!("{{ double f = ({e}); H(f != f ? 0x7ff8000000000000ull : v_f64(f)); }}\n"),
        Ty::String => format!("H(({e}).len); for (size_t i{depth} = 0; i{depth} < ({e}).len; i{depth}++) H(({e}).ptr[i{depth}]);\n"),
        Ty::List(t) => format!("H(({e}).len); for (size_t i{depth} = 0; i{depth} < ({e}).len; i{depth}++) {{\n{}}}\n", c_walk(t, &format!("({e}).ptr[i{depth}]"), depth + 1)),
        Ty::Record(fs) => fs.iter().map(|(n, t)| c_walk(t, &format!("({e}).{n}"), depth + 1)).collect(),
        Ty::Tuple(ts) => ts.iter().enumerate().map(|(i, t)| c_walk(t, &format!("({e}).f{i}"), depth + 1)).collect(),
        Ty::Option(t) => format!("if (({e}).is_some) {{ H(1);\n{}}} else {{ H(0); }}\n", c_walk(t, &format!("({e}).val"), depth + 1)),
        Ty::Result(a, b) => format!(
            "if (({e}).is_err) {{ H(1);\n{}}} else {{ H(0);\n{}}}\n",
            b.as_ref().map(|t| c_walk(t, &format!("({e}).val.err"), depth + 1)).unwrap_or_default(),
            a.as_ref().map(|t| c_walk(t, &format!("({e}).val.ok"), depth + 1)).unwrap_or_default()
        ),
        Ty::Variant(cs) => {
            let arms: String = cs.iter().enumerate().map(|(i, (n, t))| format!("case {i}: {{\n{}break; }}\n", t.as_ref().map(|t| c_walk(t, &format!("({e}).val.{n}"), depth + 1)).unwrap_or_default())).collect();
            format!("H(({e}).tag); switch (({e}).tag) {{\n{arms}}}\n")
        }
        Ty::Enum(_) | Ty::Flags(_) => format!("H((uint64_t)({e}));\n"),
        _ => String::new(),
    }
}

fn c_pack(ty: &str, e: &str) -> String {
    match ty.trim() {
        "int32_t" => format!("(uint64_t)(uint32_t)({e})"),
        "int64_t" => format!("(uint64_t)({e})"),
        "float" => format!("v_f32({e})"),
        "double" => format!("v_f64({e})"),
        "size_t" => format!("(uint64_t)({e})"),
        t if t.ends_with('*') => format!("(uint64_t)(uintptr_t)({e})"),
        other => format!("#error unknown core type {other}"),
    }
}

fn c_unpack(ty: &str, e: &str) -> String {
    match ty.trim() {
        "int32_t" => format!("(int32_t)(uint32_t)({e})"),
        "int64_t" => format!("(int64_t)({e})"),
        "float" => format!("v_tof32({e})"),
        "double" => format!("v_tof64({e})"),
        "size_t" => format!("(size_t)({e})"),
        t if t.ends_with('*') => format!("({t})(uintptr_t)({e})"),
        other => format!("#error unknown core type {other}"),
    }
}

fn c_flat(f: Flat) -> &'static str {
    match f {
        Flat::I32 => "int32_t",
        Flat::I64 => "int64_t",
        Flat::F32 => "float",
        Flat::F64 => "double",
    }
}

fn c_unpack_flat(f: Flat, i: usize) -> String {
    match f {
        Flat::I32 => format!("(int32_t)(uint32_t)a[{i}]"),
        Flat::I64 => format!("(int64_t)a[{i}]"),
        Flat::F32 => format!("v_tof32(a[{i}])"),
        Flat::F64 => format!("v_tof64(a[{i}])"),
    }
}

fn c_pack_flat(f: Flat, e: &str) -> String {
    match f {
        Flat::I32 => format!("(uint64_t)(uint32_t)({e})"),
        Flat::I64 => format!("(uint64_t)({e})"),
        Flat::F32 => format!("v_f32({e})"),
        Flat::F64 => format!("v_f64({e})"),
    }
}

/// the glue file for the generated `w.h` / `w.c`; returns it with the import table in id order
pub fn c_glue(world: &ProxyWorld, header: &str, source: &str) -> Result<(String, Vec<(String, String)>), String> {
    let mut g = String::from(GLUE_HEAD);
    // ---- import stand-ins
    let imp = regex::Regex::new(r#"__attribute__\(\(__import_module__\("([^"]+)"\), __import_name__\("([^"]+)"\)\)\)\s*extern\s+([A-Za-z0-9_ \*]+?)\s*(__wasm_import_[A-Za-z0-9_]+)\(([^)]*)\);"#).unwrap();
    let mut table = vec![];
    for c in imp.captures_iter(source) {
        let (module, name, ret, fname, params) = (c[1].to_string(), c[2].to_string(), c[3].trim().to_string(), c[4].to_string(), c[5].to_string());
        let id = table.len();
        table.push((module, name));
        let tys: Vec<String> = params.split(',').map(|x| x.trim().to_string()).filter(|x| !x.is_empty() && x != "void").collect();
        let decl: Vec<String> = tys.iter().enumerate().map(|(i, t)| format!("{t} a{i}")).collect();
        let packed: Vec<String> = tys.iter().enumerate().map(|(i, t)| c_pack(t, &format!("a{i}"))).collect();
        g.push_str(&format!(
            "{ret} {fname}({}) {{ uint64_t args[{}] = {{ {} }}; uint64_t r = 0; v_host({id}, args, {}, &r); {} }}\n",
            if decl.is_empty() { "void".to_string() } else { decl.join(", ") },
            tys.len().max(1),
            if packed.is_empty() { "0".to_string() } else { packed.join(", ") },
            tys.len(),
            if ret == "void" { "(void)r;".to_string() } else { format!("return {};", c_unpack(&ret, "r")) }
        ));
    }
    if table.len() != world.funcs.len() {
        return Err(format!("harness: found {} import declarations in w.c for {} functions", table.len(), world.funcs.len()));
    }
    // ---- forwarding export implementations
    let frees: Vec<String> = regex::Regex::new(r"void ([A-Za-z0-9_]+)_free\(").unwrap().captures_iter(header).map(|c| c[1].to_string()).collect();
    for i in 0..world.funcs.len() {
        let proto = regex::Regex::new(&format!(r"(?m)^([A-Za-z0-9_ \*]+?)\s*exports_v_w_api_f{i}\(([^)]*)\);")).unwrap();
        let Some(c) = proto.captures(header) else { return Err(format!("harness: no prototype of exports_v_w_api_f{i} in w.h")) };
        let (ret, params) = (c[1].trim().to_string(), c[2].to_string());
        let ps: Vec<(String, String)> = params
            .split(',')
            .map(|x| x.trim())
            .filter(|x| !x.is_empty() && *x != "void")
            .map(|x| {
                let idx = x.rfind(|ch: char| !(ch.is_ascii_alphanumeric() || ch == '_')).map(|k| k + 1).unwrap_or(0);
                (x[..idx].trim().to_string(), x[idx..].to_string())
            })
            .collect();
        // pointers are passed on through `void *`: the import-side and export-side typedefs of an
        // anonymous type are distinct but structurally identical C types
        let args: Vec<String> = ps.iter().map(|(t, n)| if t.ends_with('*') { format!("(void *){n}") } else { n.clone() }).collect();
        let call = format!("v_w_api_f{i}({})", args.join(", "));
        let mut body = String::new();
        // the implementation looks at what it received through the generated C types and
        // reports a digest of it (the host recomputes it from the values it sent)
        body.push_str("{ uint64_t h = 0xcbf29ce484222325ull;\n");
        for (j, t) in world.funcs[i].params.iter().enumerate() {
            let Some((cty, n)) = ps.iter().find(|(_, n)| *n == format!("p{j}")) else { return Err(format!("harness: no C parameter p{j} in the prototype of exports_v_w_api_f{i}")) };
            let e = if cty.ends_with('*') { format!("(*{n})") } else { n.clone() };
            body.push_str(&c_walk(t, &e, 0));
        }
        body.push_str(&format!("uint64_t pr = 0; v_host({}, &h, 1, &pr); }}\n", 8000 + i));
        if ret == "void" {
            body.push_str(&format!("{call};\n"));
        } else {
            body.push_str(&format!("{ret} r = {call};\n"));
        }
        // the exported function owns its arguments (crates/c/README.md): release them
        for (t, n) in &ps {
            let is_param = n.starts_with('p') && n[1..].chars().all(|ch| ch.is_ascii_digit());
            if !is_param || !t.ends_with('*') {
                continue;
            }
            let base = t.trim_end_matches('*').trim().trim_end_matches("_t");
            if frees.iter().any(|f| f == base) {
                body.push_str(&format!("{base}_free({n});\n"));
            }
        }
        if ret != "void" {
            body.push_str("return r;\n");
        }
        g.push_str(&format!("{ret} exports_v_w_api_f{i}({}) {{\n{body}}}\n", if params.trim().is_empty() { "void" } else { &params }));
    }
    // ---- export trampolines
    for i in 0..world.funcs.len() {
        let def = regex::Regex::new(&format!(r#"__attribute__\(\(__export_name__\("v:w/api#f{i}"\)\)\)\s*([A-Za-z0-9_ \*]+?)\s*(__wasm_export_[A-Za-z0-9_]+)\("#)).unwrap();
        let Some(c) = def.captures(source) else { return Err(format!("no export named `v:w/api#f{i}` in w.c")) };
        let fname = c[2].to_string();
        let ps = export_flat_params(world, i);
        let rs = export_flat_result(world, i);
        let decl: Vec<&str> = ps.iter().map(|f| c_flat(*f)).collect();
        let rty = rs.map(c_flat).unwrap_or("void");
        g.push_str(&format!("extern {rty} {fname}({});\n", if decl.is_empty() { "void".to_string() } else { decl.join(", ") }));
        let args: Vec<String> = ps.iter().enumerate().map(|(k, f)| c_unpack_flat(*f, k)).collect();
        let call = format!("{fname}({})", args.join(", "));
        let body = match rs {
            Some(f) => format!("*ret = {};", c_pack_flat(f, &call)),
            None => format!("(void)ret; {call};"),
        };
        g.push_str(&format!("void __verif_export_{i}(const uint64_t *a, uint64_t *ret) {{ (void)a; {body} }}\n"));
        if world.needs_post_return(i) {
            let post = regex::Regex::new(&format!(r#"__export_name__\("cabi_post_v:w/api#f{i}"\)\)\)\s*void\s*([A-Za-z0-9_]+)\("#)).unwrap();
            let Some(c) = post.captures(source) else { return Err(format!("no post-return export `cabi_post_v:w/api#f{i}` in w.c although the result owns heap data")) };
            let pname = c[1].to_string();
            let f = rs.unwrap();
            g.push_str(&format!("extern void {pname}({});\nvoid __verif_post_{i}(const uint64_t *a) {{ {pname}({}); }}\n", c_flat(f), c_unpack_flat(f, 0)));
        }
    }
    Ok((g, table))
}

pub struct CMember {
    pub world: ProxyWorld,
    pub wit: String,
    pub variant: String,
    pub built: Result<PathBuf, String>,
    pub imports: Vec<(String, String)>,
}

/// generate, glue, compile and link the C member for `world` in directory `dir`
pub fn c_member(dir: &Path, world: &ProxyWorld, variant: &str, args: &[&str]) -> CMember {
    use crate::backends::{self, GenOutcome, Input};
    let wit = world.wit(0).replace("package v:w0;", "package v:w;");
    let mut m = CMember { world: world.clone(), wit: wit.clone(), variant: variant.to_string(), built: Err(String::new()), imports: vec![] };
    let (resolve, wid) = match backends::resolve_input(&Input::Text(&wit), Some("w")) {
        Ok(x) => x,
        Err(e) => {
            m.built = Err(format!("harness: proxy world does not parse: {e:#}"));
            return m;
        }
    };
    let _ = std::fs::remove_dir_all(dir);
    std::fs::create_dir_all(dir).unwrap();
    let files = match backends::generate("c", args, &resolve, wid, Some(dir)) {
        GenOutcome::Files(f) => f,
        GenOutcome::Error(e) => {
            m.built = Err(format!("generator error: {e}"));
            return m;
        }
        GenOutcome::Panic(p) => {
            m.built = Err(format!("generator panic: {}", p.render()));
            return m;
        }
    };
    let get = |n: &str| files.iter().find(|(k, _)| k.as_str() == n).map(|(_, b)| String::from_utf8_lossy(b).to_string());
    let (Some(h), Some(c)) = (get("w.h"), get("w.c")) else {
        m.built = Err("harness: w.h / w.c missing from the generator output".into());
        return m;
    };
    let (glue, table) = match c_glue(world, &h, &c) {
        Ok(x) => x,
        Err(e) => {
            m.built = Err(e);
            return m;
        }
    };
    m.imports = table;
    std::fs::write(dir.join("w.h"), &h).unwrap();
    std::fs::write(dir.join("w.c"), &c).unwrap();
    std::fs::write(dir.join("glue.c"), &glue).unwrap();
    let cc = |extra: &[&str], src: &str, obj: &str| {
        std::process::Command::new("clang")
            .args(["-c", "-fPIC", "-O1", "-fstack-protector-all", "-w", "-Werror=implicit-function-declaration", "-Werror=incompatible-pointer-types", "-Werror=int-conversion", "-I"])
            .arg(dir)
            .args(extra)
            .arg(dir.join(src))
            .arg("-o")
            .arg(dir.join(obj))
            .output()
    };
    // the generated file allocates and frees through the ledger
    let o1 = cc(&["-Dmalloc=v_malloc", "-Dfree=v_free", "-Drealloc=v_realloc", "-Dcalloc=v_calloc"], "w.c", "w.o");
    let o2 = cc(&[], "glue.c", "glue.o");
    for (what, o) in [("w.c", o1), ("glue.c", o2)] {
        match o {
            Ok(o) if o.status.success() => {}
            Ok(o) => {
                let e = String::from_utf8_lossy(&o.stderr).to_string();
                m.built = Err(format!("error: compiling {what} failed\n{}", e.lines().filter(|l| l.contains("error")).take(6).collect::<Vec<_>>().join("\n")));
                return m;
            }
            Err(e) => {
                m.built = Err(format!("harness: cannot run clang: {e}"));
                return m;
            }
        }
    }
    let so = dir.join("libw.so");
    let o = std::process::Command::new("clang").args(["-shared", "-o"]).arg(&so).arg(dir.join("w.o")).arg(dir.join("glue.o")).output();
    match o {
        Ok(o) if o.status.success() => m.built = Ok(so),
        Ok(o) => m.built = Err(format!("error: linking failed\n{}", String::from_utf8_lossy(&o.stderr).lines().take(6).collect::<Vec<_>>().join("\n"))),
        Err(e) => m.built = Err(format!("harness: cannot run clang: {e}")),
    }
    let _ = exec::WS;
    m
}
