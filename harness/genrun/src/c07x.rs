//! C07, second half — exported resources: "An exported resource's Rust value is reached through
//! every handle to it and destroyed exactly once, when the host drops it."
//!
//! One interface with an exported resource (constructor — plain or fallible —, methods, statics)
//! and functions whose parameters and results carry own/borrow handles directly and inside
//! records, variants, options, results, lists and tuples. The guest implementation is written by
//! this file (it is the "user code": a value `MyR { x }` per resource whose `Drop` reports `x` to
//! the host); everything between it and the host is generated code. The host plays the
//! component-model side of an exported resource: `resource.new` / `resource.rep` /
//! `resource.drop` with a handle table, the `[dtor]` export when an own handle is dropped, reps
//! for borrows. Host-chosen sequences of create / read / borrow / transfer / return / drop are
//! interpreted against that guest and a model of which value sits behind which handle.
use crate::backends::{self, GenOutcome, Input};
use crate::exec::{self, Lib, Member, ProxyWorld, ABI};
use proptest::prelude::*;
use refabi::{Flat, Ty, Val};
use serde::{Deserialize, Serialize};
use std::cell::RefCell;
use std::collections::BTreeMap;
use vcommon::Failure;

pub const NAMES: &[&str] = &["r", "big-res", "my-type", "x1", "http-request-2", "thing"];
pub const VARIANTS: &[(&str, &[&str])] = &[("default", &[]), ("no-std", &["--std-feature"]), ("merge-equal", &["--merge-structurally-equal-types"])];

#[derive(Clone, Debug, Hash, Serialize, Deserialize, PartialEq, Eq)]
pub struct Flavour {
    pub name: usize,
    pub fallible: bool,
    pub variant: usize,
}

/// one host operation; indices pick among the resources the host currently owns
#[derive(Clone, Debug, Hash, Serialize, Deserialize)]
pub enum Op {
    /// `[constructor]`; the flag asks a fallible constructor to fail
    Ctor(bool),
    Make,
    Get(u16),
    Add(u16, u16),
    Consume(u16),
    Unwrap(u16),
    Pass(u16),
    Peek(u16, Vec<u16>, Option<u16>),
    Many(Vec<u16>, Option<u16>),
    /// variant case (0 = own payload, 1 = none, 2 = number), result ok?
    TakeAgg(u8, bool),
    TakeBorrowed(u16),
    /// borrows handed to functions of interfaces that `use` the resource at one and two removes
    PeekFar(u16, Option<u16>),
    /// variant case, result ok?, option some?, list length
    GiveAgg(u8, bool, bool, u8),
    Drop(u16),
}

pub fn op() -> impl Strategy<Value = Op> {
    prop_oneof![
        2 => any::<bool>().prop_map(Op::Ctor),
        2 => Just(Op::Make),
        2 => any::<u16>().prop_map(Op::Get),
        1 => (any::<u16>(), any::<u16>()).prop_map(|(a, b)| Op::Add(a, b)),
        2 => any::<u16>().prop_map(Op::Consume),
        2 => any::<u16>().prop_map(Op::Unwrap),
        2 => any::<u16>().prop_map(Op::Pass),
        2 => (any::<u16>(), prop::collection::vec(any::<u16>(), 0..4), prop::option::of(any::<u16>())).prop_map(|(a, b, c)| Op::Peek(a, b, c)),
        2 => (prop::collection::vec(any::<u16>(), 0..4), prop::option::of(any::<u16>())).prop_map(|(a, o)| Op::Many(a, o)),
        2 => (0u8..3, any::<bool>()).prop_map(|(v, r)| Op::TakeAgg(v, r)),
        1 => any::<u16>().prop_map(Op::TakeBorrowed),
        1 => (any::<u16>(), prop::option::of(any::<u16>())).prop_map(|(a, b)| Op::PeekFar(a, b)),
        2 => (0u8..3, any::<bool>(), any::<bool>(), 0u8..4).prop_map(|(v, r, o, n)| Op::GiveAgg(v, r, o, n)),
        2 => any::<u16>().prop_map(Op::Drop),
    ]
}

pub fn sequence() -> impl Strategy<Value = Vec<Op>> {
    prop::collection::vec(op(), 1..24)
}

fn camel(n: &str) -> String {
    heck::ToUpperCamelCase::to_upper_camel_case(n)
}

pub fn wit(f: &Flavour) -> String {
    let n = NAMES[f.name];
    let ctor = if f.fallible { format!("constructor(x: u32) -> result<{n}, u32>;") } else { "constructor(x: u32);".to_string() };
    format!(
        "package v:w;\ninterface api {{\n  resource {n} {{\n    {ctor}\n    get: func() -> u32;\n    add: func(other: borrow<{n}>) -> u32;\n    make: static func(x: u32) -> {n};\n    consume: static func(a: {n}) -> u32;\n    unwrap: static func(a: {n}) -> u32;\n    pass: static func(a: {n}) -> {n};\n    peek: static func(a: borrow<{n}>, b: list<borrow<{n}>>, c: option<borrow<{n}>>) -> u32;\n    many: static func(a: list<{n}>, o: option<{n}>, nx: u32) -> tuple<{n}, u32>;\n  }}\n  record rec {{ a: {n}, b: u32 }}\n  variant va {{ a({n}), b, c(u32) }}\n  record brec {{ a: borrow<{n}>, b: u32 }}\n  take-agg: func(r: rec, v: va, t: result<{n}, u32>, u: tuple<{n}, {n}>) -> u32;\n  take-borrowed: func(r: brec) -> u32;\n  give-agg: func(xs: list<u32>) -> tuple<rec, va, result<{n}, u32>, option<{n}>, list<{n}>>;\n}}\ninterface mid {{\n  use api.{{{n}}};\n  peek-mid: func(a: borrow<{n}>) -> u32;\n}}\ninterface far {{\n  use mid.{{{n}}};\n  type again = {n};\n  peek-far: func(a: borrow<{n}>, b: option<borrow<again>>) -> u32;\n}}\nworld w {{\n  export api;\n  export mid;\n  export far;\n}}\n"
    )
}

/// the user code of the guest
fn implementation(f: &Flavour) -> String {
    let c = camel(NAMES[f.name]);
    let ctor = if f.fallible { "fn new(x: u32) -> Result<Self, u32> { if x % 2 == 1 { Err(x) } else { Ok(MyR { x }) } }" } else { "fn new(x: u32) -> Self { MyR { x } }" };
    format!(
        r#"
pub struct MyR {{ x: u32 }}
impl Drop for MyR {{
    fn drop(&mut self) {{ unsafe {{ crate::host_call(9000, &[self.x as u64]); }} }}
}}
use exports::v::w::api as xapi;
fn mk(x: u32) -> xapi::{c} {{ xapi::{c}::new(MyR {{ x }}) }}
fn val(r: &xapi::{c}) -> u32 {{ r.get::<MyR>().x }}
fn bval(r: &xapi::{c}Borrow<'_>) -> u32 {{ r.get::<MyR>().x }}
impl xapi::Guest{c} for MyR {{
    {ctor}
    fn get(&self) -> u32 {{ self.x }}
    fn add(&self, other: xapi::{c}Borrow<'_>) -> u32 {{ self.x + bval(&other) }}
    fn make(x: u32) -> xapi::{c} {{ mk(x) }}
    fn consume(a: xapi::{c}) -> u32 {{ let v = val(&a); drop(a); v }}
    fn unwrap(a: xapi::{c}) -> u32 {{ let m: MyR = a.into_inner(); m.x }}
    fn pass(a: xapi::{c}) -> xapi::{c} {{ a }}
    fn peek(a: xapi::{c}Borrow<'_>, b: _rt::Vec<xapi::{c}Borrow<'_>>, c: Option<xapi::{c}Borrow<'_>>) -> u32 {{
        bval(&a) + b.iter().map(bval).sum::<u32>() + c.as_ref().map(bval).unwrap_or(0)
    }}
    fn many(a: _rt::Vec<xapi::{c}>, o: Option<xapi::{c}>, nx: u32) -> (xapi::{c}, u32) {{
        let s = a.iter().map(val).sum::<u32>() + o.as_ref().map(val).unwrap_or(0);
        (mk(nx), s)
    }}
}}
impl xapi::Guest for MyR {{
    type {c} = MyR;
    fn take_agg(r: xapi::Rec, v: xapi::Va, t: Result<xapi::{c}, u32>, u: (xapi::{c}, xapi::{c})) -> u32 {{
        let mut s = val(&r.a) + r.b;
        s += match &v {{ xapi::Va::A(h) => val(h), xapi::Va::B => 0, xapi::Va::C(n) => *n }};
        s += match &t {{ Ok(h) => val(h), Err(n) => *n }};
        s + val(&u.0) + val(&u.1)
    }}
    fn take_borrowed(r: xapi::Brec<'_>) -> u32 {{ bval(&r.a) + r.b }}
    fn give_agg(xs: _rt::Vec<u32>) -> (xapi::Rec, xapi::Va, Result<xapi::{c}, u32>, Option<xapi::{c}>, _rt::Vec<xapi::{c}>) {{
        let rec = xapi::Rec {{ a: mk(xs[0]), b: xs[1] }};
        let va = match xs[2] {{ 0 => xapi::Va::A(mk(xs[3])), 1 => xapi::Va::B, _ => xapi::Va::C(xs[3]) }};
        let res = if xs[4] == 0 {{ Ok(mk(xs[5])) }} else {{ Err(xs[5]) }};
        let opt = if xs[6] == 0 {{ Some(mk(xs[7])) }} else {{ None }};
        (rec, va, res, opt, xs[8..].iter().map(|x| mk(*x)).collect())
    }}
}}
impl exports::v::w::mid::Guest for MyR {{
    fn peek_mid(a: xapi::{c}Borrow<'_>) -> u32 {{ bval(&a) + 2 }}
}}
impl exports::v::w::far::Guest for MyR {{
    fn peek_far(a: xapi::{c}Borrow<'_>, b: Option<xapi::{c}Borrow<'_>>) -> u32 {{ bval(&a) + b.as_ref().map(bval).unwrap_or(0) + 1 }}
}}
export!(MyR);
"#
    )
}

pub struct XFunc {
    pub name: String,
    pub params: Vec<Ty>,
    pub result: Option<Ty>,
    pub method: bool,
}

fn rec_ty() -> Ty {
    Ty::Record(vec![("a".into(), Ty::Own), ("b".into(), Ty::U32)])
}
fn va_ty() -> Ty {
    Ty::Variant(vec![("a".into(), Some(Ty::Own)), ("b".into(), None), ("c".into(), Some(Ty::U32))])
}
fn brec_ty() -> Ty {
    Ty::Record(vec![("a".into(), Ty::Borrow), ("b".into(), Ty::U32)])
}
fn res_ty() -> Ty {
    Ty::Result(Some(Box::new(Ty::Own)), Some(Box::new(Ty::U32)))
}

const CTOR: usize = 0;
const GET: usize = 1;
const ADD: usize = 2;
const MAKE: usize = 3;
const CONSUME: usize = 4;
const UNWRAP: usize = 5;
const PASS: usize = 6;
const PEEK: usize = 7;
const MANY: usize = 8;
const TAKE_AGG: usize = 9;
const TAKE_BORROWED: usize = 10;
const GIVE_AGG: usize = 11;
const PEEK_MID: usize = 12;
const PEEK_FAR: usize = 13;

pub fn funcs(f: &Flavour) -> Vec<XFunc> {
    let n = NAMES[f.name];
    let x = |name: String, params: Vec<Ty>, result: Option<Ty>, method: bool| XFunc { name, params, result, method };
    vec![
        x(format!("[constructor]{n}"), vec![Ty::U32], Some(if f.fallible { res_ty() } else { Ty::Own }), false),
        x(format!("[method]{n}.get"), vec![Ty::Borrow], Some(Ty::U32), true),
        x(format!("[method]{n}.add"), vec![Ty::Borrow, Ty::Borrow], Some(Ty::U32), true),
        x(format!("[static]{n}.make"), vec![Ty::U32], Some(Ty::Own), false),
        x(format!("[static]{n}.consume"), vec![Ty::Own], Some(Ty::U32), false),
        x(format!("[static]{n}.unwrap"), vec![Ty::Own], Some(Ty::U32), false),
        x(format!("[static]{n}.pass"), vec![Ty::Own], Some(Ty::Own), false),
        x(format!("[static]{n}.peek"), vec![Ty::Borrow, Ty::List(Box::new(Ty::Borrow)), Ty::Option(Box::new(Ty::Borrow))], Some(Ty::U32), false),
        x(format!("[static]{n}.many"), vec![Ty::List(Box::new(Ty::Own)), Ty::Option(Box::new(Ty::Own)), Ty::U32], Some(Ty::Tuple(vec![Ty::Own, Ty::U32])), false),
        x("take-agg".into(), vec![rec_ty(), va_ty(), res_ty(), Ty::Tuple(vec![Ty::Own, Ty::Own])], Some(Ty::U32), false),
        x("take-borrowed".into(), vec![brec_ty()], Some(Ty::U32), false),
        x("give-agg".into(), vec![Ty::List(Box::new(Ty::U32))], Some(Ty::Tuple(vec![rec_ty(), va_ty(), res_ty(), Ty::Option(Box::new(Ty::Own)), Ty::List(Box::new(Ty::Own))])), false),
        // the same resource reached through one and through two `use`s (and a type alias)
        x("mid#peek-mid".into(), vec![Ty::Borrow], Some(Ty::U32), false),
        x("far#peek-far".into(), vec![Ty::Borrow, Ty::Option(Box::new(Ty::Borrow))], Some(Ty::U32), false),
    ]
}

impl XFunc {
    fn core_params(&self) -> Vec<Flat> {
        let mut v: Vec<Flat> = self.params.iter().flat_map(|t| ABI.flatten(t)).collect();
        if self.method {
            // `self` of an exported resource's method is its representation, a pointer
            v[0] = Flat::I64;
        }
        v
    }
    fn core_result(&self) -> Option<Flat> {
        let r: Vec<Flat> = self.result.as_ref().map(|t| ABI.flatten(t)).unwrap_or_default();
        match r.len() {
            0 => None,
            1 => Some(r[0]),
            _ => Some(Flat::I64),
        }
    }
    fn post(&self) -> bool {
        self.result.as_ref().map(refabi::has_heap).unwrap_or(false)
    }
}

/// an allocator handing out addresses below 4 GiB: the generated code carries the
/// representation of an exported resource (a heap address of the guest) in 32-bit handle slots,
/// as on wasm32
const LOW_ALLOC: &str = r#"
pub struct Low;
static mut LOW_BASE: usize = 0;
static mut LOW_OFF: usize = 0;
static mut LOW_FREE: [usize; 40] = [0; 40];
const LOW_LEN: usize = 1 << 24;
extern "C" { fn mmap(addr: *mut u8, len: usize, prot: i32, flags: i32, fd: i32, off: i64) -> *mut u8; }
fn low_class(l: &Layout) -> usize { l.size().max(l.align()).max(16).next_power_of_two().trailing_zeros() as usize }
unsafe impl GlobalAlloc for Low {
    unsafe fn alloc(&self, l: Layout) -> *mut u8 {
        let c = low_class(&l);
        if LOW_FREE[c] != 0 {
            let p = LOW_FREE[c];
            LOW_FREE[c] = *(p as *const usize);
            return p as *mut u8;
        }
        if LOW_BASE == 0 {
            // PROT_READ|PROT_WRITE, MAP_PRIVATE|MAP_ANONYMOUS|MAP_32BIT|MAP_NORESERVE
            let p = mmap(std::ptr::null_mut(), LOW_LEN, 3, 0x02 | 0x20 | 0x40 | 0x4000, -1, 0);
            if p as isize == -1 || (p as usize) >> 32 != 0 { std::process::abort(); }
            LOW_BASE = p as usize;
        }
        let size = 1usize << c;
        let align = size.min(4096);
        let a = (LOW_BASE + LOW_OFF + align - 1) & !(align - 1);
        LOW_OFF = a + size - LOW_BASE;
        if LOW_OFF > LOW_LEN { std::process::abort(); }
        a as *mut u8
    }
    unsafe fn dealloc(&self, p: *mut u8, l: Layout) {
        let c = low_class(&l);
        *(p as *mut usize) = LOW_FREE[c];
        LOW_FREE[c] = p as usize;
    }
}
"#;

fn trampolines(fs: &[XFunc], name: &str) -> String {
    let mut s = String::from("extern \"C\" {\n");
    for (i, f) in fs.iter().enumerate() {
        let decl: Vec<String> = f.core_params().iter().enumerate().map(|(k, t)| format!("a{k}: {}", exec::rust_flat(*t))).collect();
        let ret = f.core_result().map(|t| format!(" -> {}", exec::rust_flat(t))).unwrap_or_default();
        let link = if f.name.contains('#') { format!("v:w/{}", f.name) } else { format!("v:w/api#{}", f.name) };
        s.push_str(&format!("    #[link_name = \"{link}\"]\n    fn __e{i}({}){ret};\n", decl.join(", ")));
        if f.post() {
            s.push_str(&format!("    #[link_name = \"cabi_post_v:w/api#{}\"]\n    fn __p{i}(a0: i64);\n", f.name));
        }
    }
    s.push_str(&format!("    #[link_name = \"v:w/api#[dtor]{name}\"]\n    fn __dtor(rep: *mut u8);\n}}\n"));
    for (i, f) in fs.iter().enumerate() {
        let ps = f.core_params();
        let args: Vec<String> = ps.iter().enumerate().map(|(k, t)| exec::unpack(*t, k)).collect();
        let call = format!("__e{i}({})", args.join(", "));
        let body = match f.core_result() {
            Some(t) => format!("*ret = {};", exec::pack(t, &call)),
            None => format!("{call};"),
        };
        s.push_str(&format!("#[no_mangle]\npub unsafe extern \"C\" fn __verif_export_{i}(args: *const u64, ret: *mut u64) {{ let a = std::slice::from_raw_parts(args, {}); {body} }}\n", ps.len().max(1)));
        if f.post() {
            s.push_str(&format!("#[no_mangle]\npub unsafe extern \"C\" fn __verif_post_{i}(args: *const u64) {{ let a = std::slice::from_raw_parts(args, 1); __p{i}(a[0] as i64); }}\n"));
        }
    }
    s.push_str("#[no_mangle]\npub unsafe extern \"C\" fn __verif_dtor(rep: u64) { __dtor(rep as usize as *mut u8) }\n");
    s
}

pub fn member(f: &Flavour) -> Member {
    let text = wit(f);
    let (vname, vargs) = VARIANTS[f.variant];
    let variant = format!("{} {}{}", NAMES[f.name], vname, if f.fallible { " fallible-constructor" } else { "" });
    let mut m = Member { world: ProxyWorld { funcs: vec![], calls: vec![] }, wit: text.clone(), variant, sources: Err(String::new()), imports: vec![], async_rt: false };
    let (resolve, wid) = match backends::resolve_input(&Input::Text(&text), Some("w")) {
        Ok(x) => x,
        Err(e) => {
            m.sources = Err(format!("harness: the resource world does not parse: {e:#}"));
            return m;
        }
    };
    let tmp = tempfile::tempdir().unwrap();
    let mut all: Vec<&str> = vec!["--generate-all"];
    all.extend(vargs.iter().copied());
    let files = match backends::generate("rust", &all, &resolve, wid, Some(tmp.path())) {
        GenOutcome::Files(f) => f,
        GenOutcome::Error(e) => {
            m.sources = Err(format!("generator error: {e}"));
            return m;
        }
        GenOutcome::Panic(p) => {
            m.sources = Err(format!("generator panic: {}", p.render()));
            return m;
        }
    };
    let Some((_, b)) = files.iter().find(|(n, _)| n.ends_with(".rs")) else {
        m.sources = Err("no .rs output".into());
        return m;
    };
    match exec::patch_rust_bindings(&String::from_utf8_lossy(b), &[]) {
        Ok((patched, table)) => {
            let head = exec::RUST_GLUE_HEAD.replace("System.alloc(", "Low.alloc(").replace("System.dealloc(", "Low.dealloc(").replace("System.realloc(", "Low.realloc(");
            let glue = format!("{head}\n{LOW_ALLOC}\n{}", trampolines(&funcs(f), NAMES[f.name]));
            m.imports = table;
            m.sources = Ok(vec![("lib.rs".into(), glue), ("b.rs".into(), format!("{patched}\n{}", implementation(f)))]);
        }
        Err(e) => m.sources = Err(format!("harness: cannot adapt the bindings for native execution: {e}")),
    }
    m
}

// ---------------------------------------------------------------- host

#[derive(Clone, Copy, PartialEq)]
enum Kind {
    New,
    Rep,
    Drop,
    Other,
}

#[derive(Default)]
struct Host {
    kinds: Vec<Kind>,
    /// handle -> (representation, held by the guest?)
    table: BTreeMap<u32, (u64, bool)>,
    next: u32,
    /// `x` of every value whose destructor ran during the current call
    notes: Vec<u32>,
    /// handles created with resource.new during the current call
    news: Vec<u32>,
    dtor: Option<unsafe extern "C" fn(u64)>,
}

thread_local! {
    static HOST: RefCell<Host> = RefCell::new(Host::default());
}

fn host<R>(f: impl FnOnce(&mut Host) -> R) -> R {
    HOST.with(|h| f(&mut h.borrow_mut()))
}

unsafe extern "C" fn host_call(id: u32, args: *const u64, nargs: usize, ret: *mut u64) {
    let args = std::slice::from_raw_parts(args, nargs).to_vec();
    *ret = 0;
    if id == 9000 {
        host(|h| h.notes.push(args[0] as u32));
        return;
    }
    match host(|h| h.kinds.get(id as usize).copied()) {
        Some(Kind::New) => {
            let rep = args[0];
            *ret = host(|h| {
                h.next += 1;
                let n = h.next;
                h.table.insert(n, (rep, true));
                h.news.push(n);
                n
            }) as u64;
            if rep == 0 || rep >> 32 != 0 {
                exec::fail("harness", format!("resource.new with representation {rep:#x}: outside the 32-bit range this check runs in"));
            }
        }
        Some(Kind::Rep) => {
            let hd = args[0] as u32;
            match host(|h| h.table.get(&hd).copied()) {
                Some((rep, true)) => *ret = rep,
                Some((rep, false)) => {
                    exec::fail("handle-use-after-transfer", format!("resource.rep of handle {hd}, which the guest no longer holds (it was returned to the host or never given to the guest)"));
                    *ret = rep;
                }
                None => {
                    exec::fail("handle-use-after-transfer", format!("resource.rep of handle {hd}, which does not exist (already dropped)"));
                    // the guest is about to dereference this: point it at an empty representation
                    static EMPTY: [u64; 8] = [0; 8];
                    *ret = EMPTY.as_ptr() as u64;
                }
            }
        }
        Some(Kind::Drop) => {
            let hd = args[0] as u32;
            match host(|h| h.table.get(&hd).copied()) {
                Some((rep, true)) => {
                    let d = host(|h| {
                        h.table.remove(&hd);
                        h.dtor
                    });
                    // dropping an own handle of a resource the component defines runs its destructor
                    if let Some(d) = d {
                        d(rep);
                    }
                }
                Some((_, false)) => exec::fail("handle-drop", format!("resource.drop of handle {hd}, which the guest does not hold (it was returned to the host)")),
                None => exec::fail("handle-drop", format!("resource.drop of handle {hd}, which does not exist (double drop)")),
            }
        }
        _ => exec::fail("import-unexpected", format!("import #{id} called by the exported-resource guest")),
    }
}

/// a resource the host owns: handle, representation, the value behind it
#[derive(Clone, Copy, Debug)]
struct Ent {
    h: u32,
    x: u32,
}

pub struct Loaded {
    lib: Lib,
    funcs: Vec<XFunc>,
    fallible: bool,
}

pub fn load(so: &std::path::Path, f: &Flavour, imports: &[(String, String)]) -> Result<Loaded, String> {
    let lib = Lib::open(so)?;
    let n = NAMES[f.name];
    let kinds: Vec<Kind> = imports
        .iter()
        .map(|(m, name)| {
            if m != "[export]v:w/api" {
                Kind::Other
            } else if *name == format!("[resource-new]{n}") {
                Kind::New
            } else if *name == format!("[resource-rep]{n}") {
                Kind::Rep
            } else if *name == format!("[resource-drop]{n}") {
                Kind::Drop
            } else {
                Kind::Other
            }
        })
        .collect();
    for k in [Kind::New, Kind::Rep, Kind::Drop] {
        if !kinds.contains(&k) {
            return Err(format!("the bindings do not import all three resource intrinsics from `[export]v:w/api` (found {imports:?})"));
        }
    }
    let set_host: unsafe extern "C" fn(unsafe extern "C" fn(u32, *const u64, usize, *mut u64)) = unsafe { std::mem::transmute(lib.sym("__verif_set_host").ok_or("glue symbol")?) };
    unsafe { set_host(host_call) };
    let dtor = unsafe { std::mem::transmute(lib.sym("__verif_dtor").ok_or("glue symbol")?) };
    HOST.with(|h| *h.borrow_mut() = Host { kinds, dtor: Some(dtor), ..Default::default() });
    Ok(Loaded { lib, funcs: funcs(f), fallible: f.fallible })
}

struct Run<'a> {
    l: &'a Loaded,
    pool: Vec<Ent>,
    next_x: u32,
    evals: u64,
}

fn hv(h: u32) -> Val {
    Val::Handle(h)
}

impl Run<'_> {
    fn fresh_x(&mut self) -> u32 {
        // even, unique, small enough that sums never overflow
        self.next_x += 2;
        self.next_x
    }

    /// call export `i`; returns the lifted result
    fn call(&mut self, i: usize, params: Vec<Val>) -> Option<Val> {
        let f = &self.l.funcs[i];
        self.evals += 1;
        host(|h| {
            h.notes.clear();
            h.news.clear();
        });
        let mut mem = exec::real_mem();
        let mut args: Vec<u64> = params.iter().zip(&f.params).flat_map(|(v, t)| ABI.lower_flat(&mut mem, v, t).into_iter().map(|x| x.1)).collect();
        if args.is_empty() {
            args.push(0);
        }
        let export: unsafe extern "C" fn(*const u64, *mut u64) = unsafe { std::mem::transmute(self.l.lib.sym(&format!("__verif_export_{i}")).expect("trampoline")) };
        let mut ret = 0u64;
        unsafe { export(args.as_ptr(), &mut ret) };
        let t = f.result.as_ref()?;
        let mem = exec::real_mem();
        let got = exec::decode(&format!("result of {}", f.name), || {
            if ABI.flatten(t).len() > 1 {
                exec::add_valid(ret, ABI.size(t));
                refabi::load(&ABI, &mem, t, ret)
            } else {
                let v = [ret];
                let mut it = v.iter();
                refabi::lift_flat(&ABI, &mem, t, &mut it)
            }
        });
        if f.post() {
            let post: unsafe extern "C" fn(*const u64) = unsafe { std::mem::transmute(self.l.lib.sym(&format!("__verif_post_{i}")).expect("trampoline")) };
            let a = [ret];
            unsafe { post(a.as_ptr()) };
        }
        exec::clear_valid();
        got
    }

    /// representation behind a handle the host owns (what a borrow is lowered to)
    fn rep(&self, e: Ent) -> u32 {
        host(|h| h.table.get(&e.h).map(|x| x.0).unwrap_or(0)) as u32
    }

    /// hand an own handle to the guest
    fn give(&self, e: Ent) -> Val {
        host(|h| {
            if let Some(x) = h.table.get_mut(&e.h) {
                x.1 = true;
            }
        });
        hv(e.h)
    }

    /// an own handle came back from the guest
    fn accept(&mut self, what: &str, h: u32, x: u32) {
        let ok = host(|t| match t.table.get_mut(&h) {
            Some(e) if e.1 => {
                e.1 = false;
                true
            }
            _ => false,
        });
        if !ok {
            exec::fail("handle-transfer", format!("{what}: the guest returns own handle {h}, which it does not hold"));
            return;
        }
        self.pool.push(Ent { h, x });
    }

    /// what happened during the last call, against what had to happen
    fn settle(&mut self, what: &str, mut dropped: Vec<u32>, created: usize) {
        let (mut notes, news, left): (Vec<u32>, Vec<u32>, Vec<u32>) = host(|h| (h.notes.clone(), h.news.clone(), h.table.iter().filter(|(_, e)| e.1).map(|(k, _)| *k).collect()));
        notes.sort();
        dropped.sort();
        if notes != dropped {
            exec::fail("exported-value-destroyed", format!("{what}: the Rust values with x = {dropped:?} had to be destroyed exactly once during this call, the destructor ran for {notes:?}"));
        }
        if news.len() != created {
            exec::fail("resource-new-count", format!("{what}: {created} resources are created by this call, resource.new was called {} times", news.len()));
        }
        let _ = left;
    }

    /// after an operation (and after the handles it returned were accepted) the guest holds nothing
    fn leaks(&mut self, what: &str) {
        let left: Vec<u32> = host(|h| h.table.iter().filter(|(_, e)| e.1).map(|(k, _)| *k).collect());
        if !left.is_empty() {
            exec::fail("handle-leak", format!("{what}: after the call the guest still holds own handles {left:?} (neither returned nor dropped)"));
            host(|h| left.iter().for_each(|k| {
                h.table.remove(k);
            }));
        }
    }

    /// every handle must lead to the value it was created with
    fn verify(&mut self, what: &str, e: Ent) {
        let rep = self.rep(e);
        match self.call(GET, vec![hv(rep)]) {
            Some(Val::U32(x)) if x == e.x => {}
            other => exec::fail("exported-value-reached", format!("{what}: handle {} was created for the value x = {}, `get` through it gives {other:?}", e.h, e.x)),
        }
        self.settle(&format!("{what} (get)"), vec![], 0);
    }

    fn take(&mut self, raw: u16) -> Ent {
        if self.pool.is_empty() {
            self.create(false);
        }
        if self.pool.is_empty() {
            // creation failed (and was reported): go on with a handle that does not exist
            return Ent { h: 0, x: 0 };
        }
        let i = (raw as usize * self.pool.len()) >> 16;
        self.pool.remove(i)
    }

    fn peek_at(&mut self, raw: u16) -> Ent {
        if self.pool.is_empty() {
            self.create(false);
        }
        if self.pool.is_empty() {
            return Ent { h: 0, x: 0 };
        }
        self.pool[(raw as usize * self.pool.len()) >> 16]
    }

    fn create(&mut self, by_ctor: bool) {
        let x = self.fresh_x();
        let (i, what) = if by_ctor { (CTOR, "constructor") } else { (MAKE, "make") };
        let got = self.call(i, vec![Val::U32(x)]);
        let h = match (by_ctor && self.l.fallible, got) {
            (false, Some(Val::Handle(h))) => Some(h),
            (true, Some(Val::Result(Ok(Some(b))))) => match *b {
                Val::Handle(h) => Some(h),
                _ => None,
            },
            _ => None,
        };
        self.settle(what, vec![], 1);
        match h {
            Some(h) => {
                self.accept(what, h, x);
                if let Some(e) = self.pool.last().copied().filter(|e| e.h == h) {
                    self.verify(what, e);
                }
            }
            None => exec::fail("exported-value-reached", format!("{what}({x}) did not return an own handle")),
        }
        self.leaks(what);
    }

    fn step(&mut self, op: &Op) {
        self.step_inner(op);
        self.leaks(&format!("{op:?}"));
    }

    fn step_inner(&mut self, op: &Op) {
        match op {
            Op::Ctor(fail) => {
                if *fail && self.l.fallible {
                    // odd values are refused: nothing is created, nothing destroyed
                    let x = self.fresh_x() + 1;
                    let got = self.call(CTOR, vec![Val::U32(x)]);
                    if got != Some(Val::Result(Err(Some(Box::new(Val::U32(x)))))) {
                        exec::fail("exported-value-reached", format!("fallible constructor({x}) must return err({x}), returned {got:?}"));
                    }
                    // the value built before the failure is the user code's own business
                    self.settle("constructor (failing)", vec![], 0);
                } else {
                    self.create(true)
                }
            }
            Op::Make => self.create(false),
            Op::Get(a) => {
                let e = self.peek_at(*a);
                self.verify("get", e);
            }
            Op::Add(a, b) => {
                let (ea, eb) = (self.peek_at(*a), self.peek_at(*b));
                let (ra, rb) = (self.rep(ea), self.rep(eb));
                let got = self.call(ADD, vec![hv(ra), hv(rb)]);
                if got != Some(Val::U32(ea.x + eb.x)) {
                    exec::fail("exported-value-reached", format!("add(self = x {}, other = x {}) returned {got:?}", ea.x, eb.x));
                }
                self.settle("add", vec![], 0);
            }
            Op::Consume(a) | Op::Unwrap(a) => {
                let e = self.take(*a);
                let (i, what) = if matches!(op, Op::Consume(_)) { (CONSUME, "consume") } else { (UNWRAP, "unwrap (into_inner)") };
                let p = self.give(e);
                let got = self.call(i, vec![p]);
                if got != Some(Val::U32(e.x)) {
                    exec::fail("exported-value-reached", format!("{what}(x {}) returned {got:?}", e.x));
                }
                self.settle(what, vec![e.x], 0);
            }
            Op::Pass(a) => {
                let e = self.take(*a);
                let p = self.give(e);
                let got = self.call(PASS, vec![p]);
                self.settle("pass", vec![], 0);
                match got {
                    Some(Val::Handle(h)) => {
                        self.accept("pass", h, e.x);
                        if let Some(e) = self.pool.last().copied().filter(|e| e.h == h) {
                            self.verify("pass", e);
                        }
                    }
                    other => exec::fail("exported-value-reached", format!("pass returned {other:?}")),
                }
            }
            Op::Peek(a, b, c) => {
                let ea = self.peek_at(*a);
                let eb: Vec<Ent> = b.iter().map(|i| self.peek_at(*i)).collect();
                let ec = c.map(|i| self.peek_at(i));
                let want = ea.x + eb.iter().map(|e| e.x).sum::<u32>() + ec.map(|e| e.x).unwrap_or(0);
                let params = vec![hv(self.rep(ea)), Val::List(eb.iter().map(|e| hv(self.rep(*e))).collect()), Val::Option(ec.map(|e| Box::new(hv(self.rep(e)))))];
                let got = self.call(PEEK, params);
                if got != Some(Val::U32(want)) {
                    exec::fail("exported-value-reached", format!("peek over borrows of x {:?} returned {got:?}, expected {want}", (ea.x, eb.iter().map(|e| e.x).collect::<Vec<_>>(), ec.map(|e| e.x))));
                }
                self.settle("peek", vec![], 0);
            }
            Op::Many(a, o) => {
                let ea: Vec<Ent> = a.iter().map(|i| self.take(*i)).collect();
                let eo = o.map(|i| self.take(i));
                let nx = self.fresh_x();
                let want = ea.iter().map(|e| e.x).sum::<u32>() + eo.map(|e| e.x).unwrap_or(0);
                let params = vec![Val::List(ea.iter().map(|e| self.give(*e)).collect()), Val::Option(eo.map(|e| Box::new(self.give(e)))), Val::U32(nx)];
                let got = self.call(MANY, params);
                let mut dropped: Vec<u32> = ea.iter().map(|e| e.x).collect();
                dropped.extend(eo.map(|e| e.x));
                self.settle("many", dropped, 1);
                match got {
                    Some(Val::Tuple(t)) if t.len() == 2 && t[1] == Val::U32(want) => {
                        if let Val::Handle(h) = t[0] {
                            self.accept("many", h, nx);
                            if let Some(e) = self.pool.last().copied().filter(|e| e.h == h) {
                                self.verify("many", e);
                            }
                        }
                    }
                    other => exec::fail("exported-value-reached", format!("many returned {other:?}, expected (handle, {want})")),
                }
            }
            Op::TakeAgg(v, ok) => {
                // all picks first (a pick may have to create a resource), then the hand-over
                let r = self.take(0x5555);
                let ev = if *v == 0 { Some(self.take(0xaaaa)) } else { None };
                let er = if *ok { Some(self.take(0x1000)) } else { None };
                let (t0, t1) = (self.take(0xffff), self.take(0));
                let mut dropped = vec![r.x];
                let mut want = r.x + 7;
                let va = match v {
                    0 => {
                        let e = ev.unwrap();
                        dropped.push(e.x);
                        want += e.x;
                        Val::Variant(0, Some(Box::new(self.give(e))))
                    }
                    1 => Val::Variant(1, None),
                    _ => {
                        want += 11;
                        Val::Variant(2, Some(Box::new(Val::U32(11))))
                    }
                };
                let res = if *ok {
                    let e = er.unwrap();
                    dropped.push(e.x);
                    want += e.x;
                    Val::Result(Ok(Some(Box::new(self.give(e)))))
                } else {
                    want += 13;
                    Val::Result(Err(Some(Box::new(Val::U32(13)))))
                };
                dropped.extend([t0.x, t1.x]);
                want += t0.x + t1.x;
                let params = vec![Val::Record(vec![self.give(r), Val::U32(7)]), va, res, Val::Tuple(vec![self.give(t0), self.give(t1)])];
                let got = self.call(TAKE_AGG, params);
                if got != Some(Val::U32(want)) {
                    exec::fail("exported-value-reached", format!("take-agg over x {dropped:?} returned {got:?}, expected {want}"));
                }
                self.settle("take-agg", dropped, 0);
            }
            Op::TakeBorrowed(a) => {
                let e = self.peek_at(*a);
                let got = self.call(TAKE_BORROWED, vec![Val::Record(vec![hv(self.rep(e)), Val::U32(5)])]);
                if got != Some(Val::U32(e.x + 5)) {
                    exec::fail("exported-value-reached", format!("take-borrowed(x {}) returned {got:?}", e.x));
                }
                self.settle("take-borrowed", vec![], 0);
            }
            Op::PeekFar(a, b) => {
                let ea = self.peek_at(*a);
                let eb = b.map(|i| self.peek_at(i));
                let got = self.call(PEEK_MID, vec![hv(self.rep(ea))]);
                if got != Some(Val::U32(ea.x + 2)) {
                    exec::fail("exported-value-reached", format!("peek-mid (interface one `use` away) over a borrow of x {} returned {got:?}", ea.x));
                }
                self.settle("peek-mid", vec![], 0);
                let want = ea.x + eb.map(|e| e.x).unwrap_or(0) + 1;
                let got = self.call(PEEK_FAR, vec![hv(self.rep(ea)), Val::Option(eb.map(|e| Box::new(hv(self.rep(e)))))]);
                if got != Some(Val::U32(want)) {
                    exec::fail("exported-value-reached", format!("peek-far (interface two `use`s away) over borrows of x {:?} returned {got:?}, expected {want}", (ea.x, eb.map(|e| e.x))));
                }
                self.settle("peek-far", vec![], 0);
            }
            Op::GiveAgg(v, ok, some, n) => {
                let xs: Vec<u32> = (0..4 + *n as usize).map(|_| self.fresh_x()).collect();
                let list = &xs[4..];
                let wire: Vec<u32> = [xs[0], 9, *v as u32, xs[1], if *ok { 0 } else { 1 }, xs[2], if *some { 0 } else { 1 }, xs[3]].into_iter().chain(list.iter().copied()).collect();
                let got = self.call(GIVE_AGG, vec![Val::List(wire.iter().map(|x| Val::U32(*x)).collect())]);
                let created = 1 + (*v == 0) as usize + *ok as usize + *some as usize + list.len();
                self.settle("give-agg", vec![], created);
                // pair every returned handle with the value it must lead to
                let mut pairs: Vec<(u32, u32)> = vec![];
                let mut shape_ok = false;
                if let Some(Val::Tuple(t)) = &got {
                    if t.len() == 5 {
                        shape_ok = true;
                        match &t[0] {
                            Val::Record(r) if r.len() == 2 && r[1] == Val::U32(9) => {
                                if let Val::Handle(h) = r[0] {
                                    pairs.push((h, xs[0]));
                                }
                            }
                            _ => shape_ok = false,
                        }
                        match (&t[1], *v) {
                            (Val::Variant(0, Some(p)), 0) => {
                                if let Val::Handle(h) = **p {
                                    pairs.push((h, xs[1]));
                                }
                            }
                            (Val::Variant(1, None), 1) => {}
                            (Val::Variant(2, Some(p)), 2) if **p == Val::U32(xs[1]) => {}
                            _ => shape_ok = false,
                        }
                        match (&t[2], *ok) {
                            (Val::Result(Ok(Some(p))), true) => {
                                if let Val::Handle(h) = **p {
                                    pairs.push((h, xs[2]));
                                }
                            }
                            (Val::Result(Err(Some(p))), false) if **p == Val::U32(xs[2]) => {}
                            _ => shape_ok = false,
                        }
                        match (&t[3], *some) {
                            (Val::Option(Some(p)), true) => {
                                if let Val::Handle(h) = **p {
                                    pairs.push((h, xs[3]));
                                }
                            }
                            (Val::Option(None), false) => {}
                            _ => shape_ok = false,
                        }
                        match &t[4] {
                            Val::List(l) if l.len() == list.len() => {
                                for (p, x) in l.iter().zip(list) {
                                    if let Val::Handle(h) = p {
                                        pairs.push((*h, *x));
                                    }
                                }
                            }
                            _ => shape_ok = false,
                        }
                    }
                }
                if !shape_ok || pairs.len() != created {
                    exec::fail("exported-value-reached", format!("give-agg({wire:?}) returned {got:?}"));
                }
                for (h, x) in pairs {
                    self.accept("give-agg", h, x);
                    if let Some(e) = self.pool.last().copied().filter(|e| e.h == h) {
                        self.verify("give-agg", e);
                    }
                }
            }
            Op::Drop(a) => {
                let e = self.take(*a);
                self.host_drop(e, "host drop");
            }
        }
    }

    /// the host drops an own handle it holds: the destructor export runs
    fn host_drop(&mut self, e: Ent, what: &str) {
        let (rep, d) = host(|h| {
            h.notes.clear();
            h.news.clear();
            (h.table.remove(&e.h).map(|x| x.0), h.dtor)
        });
        self.evals += 1;
        if let (Some(rep), Some(d)) = (rep, d) {
            unsafe { d(rep) };
        }
        self.settle(what, vec![e.x], 0);
    }
}

/// interpret one sequence; returns the failures (signature, message) and the number of calls
pub fn run_sequence(l: &Loaded, ops: &[Op]) -> (Vec<(String, String)>, u64) {
    let stats_fn: unsafe extern "C" fn(*mut u64) = unsafe { std::mem::transmute(l.lib.sym("__verif_stats").expect("glue symbol")) };
    let snapshot = || {
        let mut s = [0u64; 4];
        unsafe { stats_fn(s.as_mut_ptr()) };
        s
    };
    exec::install_guest(&ProxyWorld { funcs: vec![], calls: vec![] }, &l.lib);
    host(|h| {
        h.table.clear();
        h.notes.clear();
        h.news.clear();
    });
    let mut run = Run { l, pool: vec![], next_x: 100, evals: 0 };
    // warm-up outside the heap comparison: lazily initialised state of the runtime (type guard,
    // thread-locals of the tracking allocator) is not a leak of the bindings
    run.create(false);
    let e = run.pool.pop().unwrap_or(Ent { h: 0, x: 0 });
    if e.h != 0 {
        run.host_drop(e, "warm-up drop");
    }
    let before = snapshot();
    for op in ops {
        run.step(op);
    }
    // in the end the host drops everything it still owns
    while let Some(e) = run.pool.pop() {
        run.host_drop(e, "final drop");
    }
    let stray: Vec<u32> = host(|h| h.table.keys().copied().collect());
    if !stray.is_empty() {
        exec::fail("handle-leak", format!("handles {stray:?} exist that neither the host nor the guest accounts for"));
    }
    let after = snapshot();
    if after[2] != before[2] {
        exec::fail("heap-misuse", format!("{} frees of blocks that are not live (double free, foreign pointer or wrong size)", after[2] - before[2]));
    }
    if after[0] != before[0] {
        exec::fail("heap-leak", format!("every resource was destroyed, but {} heap blocks / {} bytes more than before the sequence are allocated (representation not released?)", after[0] as i64 - before[0] as i64, after[1] as i64 - before[1] as i64));
    }
    (exec::take_failures(), run.evals)
}

/// greedy shrinking: drop single operations as long as the same failure remains
pub fn shrink(l: &Loaded, ops: &[Op], sig: &str) -> Vec<Op> {
    let mut cur = ops.to_vec();
    let mut progress = true;
    while progress && cur.len() > 1 {
        progress = false;
        for i in (0..cur.len()).rev() {
            let mut t = cur.clone();
            t.remove(i);
            if run_sequence(l, &t).0.iter().any(|(s, _)| s == sig) {
                cur = t;
                progress = true;
            }
        }
    }
    cur
}

pub const SIGS: &[&str] = &["exported-value-destroyed", "exported-value-reached", "resource-new-count", "handle-leak", "handle-drop", "handle-transfer", "handle-use-after-transfer", "heap-leak", "heap-misuse", "import-unexpected", "undecodable-value"];

pub fn failure_of(f: &Flavour, ops: &[Op], sig: &str, msg: &str) -> Failure {
    let (vname, _) = VARIANTS[f.variant];
    Failure::new(format!("exported-resource {sig} {vname}"), format!("{msg}\nresource `{}`, options {vname}{}\nhost operations: {ops:?}\nWIT:\n{}", NAMES[f.name], if f.fallible { ", fallible constructor" } else { "" }, wit(f)))
}
