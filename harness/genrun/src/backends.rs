//! In-process drivers for the eight generators, with option spelling parsed by
//! clap exactly as the CLI does, and the per-backend declared exclusions.
use clap::Parser;
use std::collections::BTreeMap;
use std::path::Path;
use vcommon::panics;
use wit_bindgen_core::{Files, WorldGenerator};
use wit_parser::Resolve;
use witgen::Profile;

#[derive(Parser)]
struct RustW {
    #[clap(flatten)]
    opts: wit_bindgen_rust::Opts,
}
#[derive(Parser)]
struct CW {
    #[clap(flatten)]
    opts: wit_bindgen_c::Opts,
}
#[derive(Parser)]
struct CppW {
    #[clap(flatten)]
    opts: wit_bindgen_cpp::Opts,
}
#[derive(Parser)]
struct CsW {
    #[clap(flatten)]
    opts: wit_bindgen_csharp::Opts,
}
#[derive(Parser)]
struct GoW {
    #[clap(flatten)]
    opts: wit_bindgen_go::Opts,
}
#[derive(Parser)]
struct MbW {
    #[clap(flatten)]
    opts: wit_bindgen_moonbit::Opts,
}
#[derive(Parser)]
struct DW {
    #[clap(flatten)]
    opts: wit_bindgen_d::Opts,
}
#[derive(Parser)]
struct MdW {
    #[clap(flatten)]
    opts: wit_bindgen_markdown::Opts,
}

pub const BACKENDS: &[&str] = &["rust", "c", "cpp", "csharp", "go", "moonbit", "d", "markdown"];

/// (variant name, args) per backend: default args used by crates/test for codegen
/// plus the option variants crates/test declares.
pub fn variants(backend: &str) -> Vec<(&'static str, Vec<&'static str>)> {
    match backend {
        "rust" => vec![
            ("default", vec!["--generate-all", "--stubs"]),
            ("borrowed", vec!["--generate-all", "--stubs", "--ownership=borrowing"]),
            ("borrowed-duplicate", vec!["--generate-all", "--stubs", "--ownership=borrowing-duplicate-if-necessary"]),
            ("async", vec!["--generate-all", "--stubs", "--async=all"]),
            ("no-std", vec!["--generate-all", "--stubs", "--std-feature"]),
            ("merge-equal", vec!["--generate-all", "--stubs", "--merge-structurally-equal-types"]),
            ("hashmap", vec!["--generate-all", "--stubs", "--map-type=std::collections::HashMap"]),
            ("raw-strings", vec!["--generate-all", "--stubs", "--raw-strings"]),
        ],
        "c" => vec![
            ("default", vec![]),
            ("no-sig-flattening", vec!["--no-sig-flattening"]),
            ("autodrop", vec!["--autodrop-borrows=yes"]),
            ("async", vec!["--async=all"]),
            ("utf16", vec!["--string-encoding=utf16"]),
        ],
        "cpp" => vec![("default", vec![])],
        "csharp" => vec![("default", vec!["--runtime=native-aot", "--generate-stub"])],
        "go" => vec![("default", vec!["--generate-stubs"])],
        "moonbit" => vec![
            ("default", vec!["--derive-debug", "--derive-show", "--derive-eq", "--derive-error"]),
            ("async", vec!["--derive-debug", "--derive-show", "--derive-eq", "--derive-error", "--async=all"]),
        ],
        "d" => vec![("default", vec!["--emit-export-stubs"])],
        "markdown" => vec![("default", vec![])],
        _ => vec![],
    }
}

/// The WIT features a (backend, variant) pair supports, transcribed from
/// crates/test/src/<lang>.rs should_fail_verify (file exclusions mapped to the
/// feature the file exercises; see DESIGN.md C16).
pub fn profile_for(backend: &str, variant: &str) -> Profile {
    let mut p = Profile::full();
    let asyncv = variant == "async";
    match backend {
        "c" => {
            p.error_context = false;
            p.fixed_list = false;
        }
        "cpp" => {
            p = p.sync_only();
            p.fixed_list = false;
            p.case_named_like_variant = false;
        }
        "csharp" => {
            p.error_context = false;
            p.fallible_ctor = false;
            p.async_resource_func = false;
            p.fixed_list = false;
            p.stream_of_used_type_in_world = false;
        }
        "go" => {
            p.error_context = false;
            p.fixed_list = false;
        }
        "moonbit" => {
            p.error_context = false;
            if asyncv {
                p.fixed_list = false;
            }
        }
        "rust" => {
            if asyncv {
                p.fixed_list = false;
            }
        }
        "d" => {
            p = p.sync_only();
            p.error_context = false;
            p.map = false;
            p.named_iface_import = false;
        }
        _ => {}
    }
    p
}

/// Signatures of listed known findings (any property) that are excluded from
/// world generation by construction, so that the search continues past them.
pub const KF_RUST_BORROW_IN_FIXED_LIST: &str = "panic rust crates/rust/src/interface.rs: assertion failed: self.mode.lifetime.is_some()";

pub const KF_NAMED_HANDLE_ALIAS: &str = "panic any-backend: named handle alias (type x = borrow<r>) is not supported";

pub const KF_CSHARP_ASYNC_INDIRECT: &str = "panic csharp crates/csharp/src/interface.rs: not yet implemented: indirect params not supported for async imports yet";
pub const KF_C_PARAM_NAMED_RESULT: &str = "panic c crates/c/src/lib.rs: called `Result::unwrap()` on an `Err` value: \"name `result` already defined\"";

pub const KF_C_WORLD_TYPE_NAMED_STRING: &str = "c-compile-error: world-level type named like a type the header defines itself redefines <world>_<name>_t";
/// names of the types every generated C header may define with the world's prefix
pub const C_HEADER_OWN_TYPES: &[&str] = &["string", "event", "waitable-set", "waitable-status", "subtask", "event-code", "subtask-status", "callback-code", "waitable-state", "subtask-state"];
pub const KF_C_PAYLOAD_NAMED_LIKE_PRIMITIVE: &str = "c-compile-error: future/stream helpers of a payload type named like a primitive collide with the primitive's helpers";
pub const PRIMITIVE_NAMES: &[&str] = &["bool", "u8", "u16", "u32", "u64", "s8", "s16", "s32", "s64", "f32", "f64", "char", "string"];
pub const KF_C_ITEM_NAMED_LIKE_WORLD: &str = "panic c crates/c/src/lib.rs: duplicate symbols: world item named like the world";
pub const KF_RUST_ITEM_NAMED_LIKE_NAMESPACE: &str = "rust-compile-error: E0428 module of a named world item clashes with the module of a package namespace";
pub const KF_RUST_TMP_SHADOWS_PARAM: &str = "rust-compile-error: a numbered generator temporary (`ptr0`, `<field><n>`) shadows a parameter of the same name";
pub const KF_RUST_FLAGS_NAMED_LIKE_PRELUDE_CTOR: &str = "rust-compile-error: flags type named ok/err/some/none shadows the prelude constructor (bitflags tuple struct)";
pub const KF_RUST_CASE_NAMED_SELF: &str = "rust-compile-error: variant/enum/flags case named `self` becomes the keyword `Self`";
pub const KF_RUST_EXPORTED_RESOURCE_NAMED_T: &str = "rust-compile-error: exported resource named `t` clashes with the generic parameter `T`";
pub const KF_RUST_BORROWED_DUPLICATE: &str = "rust-compile-error: --ownership=borrowing-duplicate-if-necessary refers to the wrong one of a duplicated type's Param/Result forms";
pub const KF_RUST_RAW_STRINGS_PAYLOAD: &str = "rust-compile-error: E0119 --raw-strings with stream/future payloads string and list<u8> (both Vec<u8>)";
pub const KF_RUST_PAYLOAD_IMPORT_EXPORT: &str = "rust-compile-error: E0277 future/stream payload impl missing for the exported copy of an interface that is also imported";
pub const KF_RUST_HELPER_ITEM_NAMES: &str = "rust-compile-error: WIT name equal to a generated helper item or module (ret-area, params-lower, stub, exports, alloc, wit-future, wit-stream, wit-bindgen)";
pub const KF_RUST_RESOURCE_FUNC_NAME: &str = "rust-compile-error: E0592 resource function named like a generated inherent method (handle, take-handle, from-handle, new)";
pub const KF_RUST_BORROW_IMPORTED_IN_LIST: &str = "rust-compile-error: E0506 export parameter with borrow<imported resource> inside a list";
pub const KF_RUST_BORROWING_ASYNC_IMPORT: &str = "rust-compile-error: E0726/E0106 async import parameter or future/stream payload of a type generated with a lifetime under --ownership=borrowing*";
pub const KF_C_AUTODROP_IN_LIST: &str = "panic c crates/c/src/lib.rs: Unable to autodrop borrows in list/map values";

/// `profile_for` minus the shapes of listed known findings.
pub fn profile_excluding_known(backend: &str, variant: &str, known: &[String]) -> Profile {
    let mut p = profile_for(backend, variant);
    let has = |s: &str| known.iter().any(|k| k == s);
    if backend == "rust" && has(KF_RUST_BORROW_IN_FIXED_LIST) {
        p.borrow_in_fixed_list = false;
    }
    if has(KF_NAMED_HANDLE_ALIAS) {
        p.named_handle_alias = false;
    }
    if backend == "csharp" && has(KF_CSHARP_ASYNC_INDIRECT) {
        p.async_funcs_small_params = true;
    }
    if backend == "c" && variant == "autodrop" && has(KF_C_AUTODROP_IN_LIST) {
        // borrows only at the top level of parameters would be fine, but the
        // generator has no finer knob: no borrows at all in this variant
        p.borrows = false;
    }
    if backend == "rust" && has(KF_RUST_ITEM_NAMED_LIKE_NAMESPACE) {
        p.item_named_like_namespace = false;
    }
    if backend == "rust" && has(KF_RUST_TMP_SHADOWS_PARAM) {
        p.param_like_tmp = false;
        p.avoid_param_names.push("cleanup-list");
    }
    if backend == "rust" && has(KF_RUST_FLAGS_NAMED_LIKE_PRELUDE_CTOR) {
        p.avoid_type_names.extend(["ok", "err", "some", "none"]);
    }
    if backend == "rust" && has(KF_RUST_EXPORTED_RESOURCE_NAMED_T) {
        p.avoid_type_names.push("t");
    }
    if backend == "rust" && has(KF_RUST_CASE_NAMED_SELF) {
        p.avoid_case_names.push("self");
    }
    if backend == "rust" && variant == "raw-strings" && has(KF_RUST_RAW_STRINGS_PAYLOAD) {
        p.async_ = false;
    }
    if backend == "rust" && has(KF_RUST_PAYLOAD_IMPORT_EXPORT) {
        p.payload_named_types = false;
    }
    if backend == "rust" && has(KF_RUST_RESOURCE_FUNC_NAME) {
        p.avoid_resource_func_names.extend(["handle", "take-handle", "from-handle", "new"]);
    }
    if backend == "rust" && has(KF_RUST_BORROW_IMPORTED_IN_LIST) {
        p.borrow_in_list = false;
    }
    if backend == "rust" && variant.starts_with("borrowed") && has(KF_RUST_BORROWING_ASYNC_IMPORT) {
        p.async_funcs = false;
        p.async_ = false;
    }
    if backend == "c" && has(KF_C_ITEM_NAMED_LIKE_WORLD) {
        p.item_named_like_world = false;
    }
    if backend == "c" && has(KF_C_WORLD_TYPE_NAMED_STRING) {
        // (no finer knob: the name is avoided for interface-level types as well)
        p.avoid_type_names.extend(C_HEADER_OWN_TYPES);
    }
    if backend == "c" && has(KF_C_PAYLOAD_NAMED_LIKE_PRIMITIVE) {
        p.avoid_type_names.extend(PRIMITIVE_NAMES);
    }
    if backend == "c" && has(KF_C_PARAM_NAMED_RESULT) {
        p.avoid_param_names.push("result");
    }
    p
}

/// all `finding:` signatures in /verif/known-findings.txt, whatever the property
pub fn all_known_sigs() -> Vec<String> {
    let text = std::fs::read_to_string("/verif/known-findings.txt").unwrap_or_default();
    text.lines()
        .filter_map(|l| l.trim().strip_prefix("finding:"))
        .filter_map(|l| l.split_once("sig=").map(|x| x.1))
        .map(|l| l.split(" :: ").next().unwrap_or("").trim().to_string())
        .collect()
}

/// expected failures of the corpus: (file stem as crates/test names it, backend, variant)
pub fn corpus_excluded(file: &str, wit_text: &str, backend: &str, variant: &str) -> bool {
    let is_async = wit_text.lines().take_while(|l| l.starts_with("//@")).any(|l| l.contains("async = true"));
    let is_ec = wit_text.lines().take_while(|l| l.starts_with("//@")).any(|l| l.contains("error-context = true"));
    let asyncv = variant == "async";
    match backend {
        "c" => is_ec || file.starts_with("named-fixed-length-list.wit"),
        "cpp" => {
            if file == "issue-1598.wit" {
                return false;
            }
            matches!(file, "issue1514-6.wit" | "named-fixed-length-list.wit") || is_async || asyncv
        }
        "csharp" => matches!(
            file,
            "error-context.wit" | "resource-fallible-constructor.wit" | "async-resource-func.wit" | "import-export-resource.wit" | "issue-1433.wit" | "named-fixed-length-list.wit"
        ),
        "go" => is_ec || file == "named-fixed-length-list.wit",
        "moonbit" => (file == "named-fixed-length-list.wit" && asyncv) || is_ec,
        "rust" => {
            (variant == "borrowed-duplicate" && matches!(file, "wasi-http" | "more-variants.wit")) || (file == "named-fixed-length-list.wit" && asyncv)
        }
        "d" => is_async || is_ec || file == "map.wit" || file == "issue1642.wit",
        _ => false,
    }
}

pub fn build(backend: &str, args: &[&str], out_dir: Option<&Path>) -> Result<Box<dyn WorldGenerator>, String> {
    let argv = std::iter::once("wit-bindgen").chain(args.iter().copied());
    let e = |e: clap::Error| format!("option parse error: {e}");
    let out = out_dir.map(|p| p.to_path_buf());
    Ok(match backend {
        "rust" => Box::new(RustW::try_parse_from(argv).map_err(e)?.opts.build()),
        "c" => CW::try_parse_from(argv).map_err(e)?.opts.build(),
        "cpp" => CppW::try_parse_from(argv).map_err(e)?.opts.build(out.as_ref()),
        "csharp" => CsW::try_parse_from(argv).map_err(e)?.opts.build(),
        "go" => GoW::try_parse_from(argv).map_err(e)?.opts.build(),
        "moonbit" => MbW::try_parse_from(argv).map_err(e)?.opts.build(),
        "d" => DW::try_parse_from(argv).map_err(e)?.opts.build(out.as_ref()),
        "markdown" => MdW::try_parse_from(argv).map_err(e)?.opts.build(),
        other => return Err(format!("unknown backend {other}")),
    })
}

pub enum Input<'a> {
    Text(&'a str),
    Path(&'a Path),
}

pub fn resolve_input(input: &Input<'_>, world: Option<&str>) -> anyhow::Result<(Resolve, wit_parser::WorldId)> {
    let mut resolve = Resolve::default();
    resolve.all_features = true;
    let pkg = match input {
        Input::Text(t) => resolve.push_str("gen.wit", t)?,
        Input::Path(p) => resolve.push_path(p)?.0,
    };
    let world = resolve.select_world(&[pkg], world)?;
    Ok((resolve, world))
}

#[derive(Debug)]
pub enum GenOutcome {
    Files(BTreeMap<String, Vec<u8>>),
    Error(String),
    Panic(panics::PanicInfo),
}

/// Run one generator in-process on an already parsed world.
pub fn generate(backend: &str, args: &[&str], resolve: &Resolve, world: wit_parser::WorldId, out_dir: Option<&Path>) -> GenOutcome {
    let mut generator = match build(backend, args, out_dir) {
        Ok(g) => g,
        Err(e) => return GenOutcome::Error(e),
    };
    let mut resolve = resolve.clone();
    let r = panics::catch(std::panic::AssertUnwindSafe(move || {
        let mut files = Files::default();
        generator.generate(&mut resolve, world, &mut files).map(|_| {
            files.iter().map(|(n, c)| (n.to_string(), c.to_vec())).collect::<BTreeMap<_, _>>()
        })
    }));
    match r {
        Ok(Ok(f)) => GenOutcome::Files(f),
        Ok(Err(e)) => GenOutcome::Error(format!("{e:#}")),
        Err(p) => GenOutcome::Panic(p),
    }
}

/// tier of a generated world
pub fn component_valid(resolve: &Resolve, world: wit_parser::WorldId) -> Result<(), String> {
    let pkg = resolve.worlds[world].package.ok_or("world without package")?;
    let bytes = wit_component::encode(resolve, pkg).map_err(|e| format!("{e:#}"))?;
    wasmparser::Validator::new_with_features(wasmparser::WasmFeatures::all())
        .validate_all(&bytes)
        .map_err(|e| format!("{e:#}"))?;
    // the component encoder merges semver-compatible imports of the world first; wit-parser
    // 0.257 panics there for some worlds importing two compatible versions of a package
    // (Resolve::update_interface_dep_of_type, "no entry found for key"): such a world is outside
    // the encoder's domain, whatever bindings are generated for it
    let mut copy = resolve.clone();
    match vcommon::panics::catch(std::panic::AssertUnwindSafe(move || copy.merge_world_imports_based_on_semver(world).map_err(|e| format!("{e:#}")))) {
        Ok(r) => r.map_err(|e| format!("semver merge of the world's imports: {e}"))?,
        Err(p) => return Err(format!("wit-parser panics while merging the world's semver-compatible imports (third-party defect): {}", p.render())),
    }
    Ok(())
}

/// the tests/codegen corpus: (name as crates/test names it, path, leading text for config)
pub fn corpus() -> Vec<(String, std::path::PathBuf, String)> {
    let dir = Path::new("/repo/tests/codegen");
    let mut out = vec![];
    let mut entries: Vec<_> = std::fs::read_dir(dir).map(|d| d.flatten().map(|e| e.path()).collect()).unwrap_or_default();
    entries.sort();
    for p in entries {
        let name = p.file_name().unwrap().to_string_lossy().to_string();
        let text = if p.is_file() {
            std::fs::read_to_string(&p).unwrap_or_default()
        } else {
            String::new()
        };
        out.push((name, p, text));
    }
    out
}
