//! C16 — generators handle every valid world without panicking (outside the
//! declared per-backend exclusions); Markdown supports every WIT type.
use crate::backends::{self, GenOutcome, Input, BACKENDS};
use crate::{tape_strategy, WorldCase};
use proptest::prelude::*;
use vcommon::{CaseResult, Check, Failure, Obs};

pub fn panic_sig(backend: &str, p: &vcommon::panics::PanicInfo) -> String {
    // one root cause shared by all generators (core::define_type and its C++ copy)
    if p.message.contains("handle types do not require definition") || p.message.contains("generate for handle") {
        return backends::KF_NAMED_HANDLE_ALIAS.to_string();
    }
    if p.message.starts_with("Unable to autodrop borrows in") {
        return backends::KF_C_AUTODROP_IN_LIST.to_string();
    }
    let file = vcommon::panics::file_of(&p.location);
    // the message head identifies the root cause; numbers (ids, counts) are volatile
    let head: String = p.message.lines().next().unwrap_or("").chars().take(90).collect();
    let head: String = head.split(|c: char| c.is_ascii_digit()).next().unwrap_or("").trim().to_string();
    format!("panic {backend} {file}: {head}")
}

/// panic signature including classifications that need the world
pub fn full_sig(backend: &str, pi: &vcommon::panics::PanicInfo, resolve: &wit_parser::Resolve, world: wit_parser::WorldId) -> String {
    // C symbol collision between `<world>_<func>` of a world-level function and of an
    // interface that is itself named like the world
    let wname = &resolve.worlds[world].name;
    let named_like_world = resolve.worlds[world]
        .imports
        .iter()
        .chain(resolve.worlds[world].exports.iter())
        .any(|(k, _)| matches!(k, wit_parser::WorldKey::Name(n) if n == wname));
    if backend == "c" && pi.message.starts_with("duplicate symbols") && named_like_world {
        return backends::KF_C_ITEM_NAMED_LIKE_WORLD.to_string();
    }
    panic_sig(backend, pi)
}

pub static SURVEY: std::sync::Mutex<std::collections::BTreeMap<String, (u32, String)>> = std::sync::Mutex::new(std::collections::BTreeMap::new());

pub fn print_survey() {
    let s = SURVEY.lock().unwrap();
    for (sig, (n, msg)) in s.iter() {
        println!("SURVEY {n:5} x {sig}\n{}\n", msg.chars().take(1800).collect::<String>());
    }
}

pub struct Prepared {
    pub text: String,
    pub features: Vec<&'static str>,
    pub resolve: wit_parser::Resolve,
    pub world: wit_parser::WorldId,
    pub backend: &'static str,
    pub variant: &'static str,
    pub args: Vec<&'static str>,
}

/// Decode a WorldCase into a parsed, component-valid world for its backend.
pub fn prepare(c: &WorldCase) -> Option<Prepared> {
    prepare_with(c, |_| {})
}

/// like `prepare`, with a further restriction of the generation profile
pub fn prepare_with(c: &WorldCase, tweak: impl FnOnce(&mut witgen::Profile)) -> Option<Prepared> {
    let backend = BACKENDS[c.backend as usize % BACKENDS.len()];
    let vars = backends::variants(backend);
    let (variant, args) = vars[c.variant as usize % vars.len()].clone();
    static KNOWN: std::sync::OnceLock<Vec<String>> = std::sync::OnceLock::new();
    let known = KNOWN.get_or_init(backends::all_known_sigs);
    let mut profile = backends::profile_excluding_known(backend, variant, known);
    tweak(&mut profile);
    let w = witgen::generate(&c.tape, &profile);
    let text = w.to_text();
    let wname = witgen::wit_name(&w.world);
    // A world that wit-parser or the component validator rejects is a generator
    // shortcoming, not a finding: the case is discarded (and counted), never judged.
    static DISCARDS: std::sync::atomic::AtomicU32 = std::sync::atomic::AtomicU32::new(0);
    let discard = |why: String| {
        let n = DISCARDS.fetch_add(1, std::sync::atomic::Ordering::Relaxed);
        if n < 3 || std::env::var("VERIF_STRICT_GEN").is_ok() {
            eprintln!("NOTE witgen produced an invalid world (case discarded): {why}");
        }
        if std::env::var("VERIF_STRICT_GEN").is_ok() {
            vcommon::harness_error(format!("{why}\n{text}"));
        }
    };
    let (resolve, world) = match backends::resolve_input(&Input::Text(&text), Some(&wname)) {
        Ok(x) => x,
        Err(e) => {
            discard(format!("wit-parser: {e:#}"));
            return None;
        }
    };
    if let Err(e) = backends::component_valid(&resolve, world) {
        discard(format!("component validation: {e}"));
        return None;
    }
    Some(Prepared { text, features: w.features.into_iter().collect(), resolve, world, backend, variant, args })
}

fn prop(c: &WorldCase, obs: &mut Obs) -> CaseResult {
    let Some(p) = prepare(c) else {
        obs.label("discarded-generator-invalid-world");
        return Ok(());
    };
    let tmp = tempfile::tempdir().map_err(|e| Failure::new("io", e.to_string()))?;
    let out = backends::generate(p.backend, &p.args, &p.resolve, p.world, Some(tmp.path()));
    obs.label(format!("{}", p.backend));
    for f in &p.features {
        obs.label(format!("feature:{f}"));
    }
    if p.features.len() >= 3 {
        obs.nontrivial_by(&(&p.text, p.backend, p.variant));
        if p.text.len() < 700 {
            obs.sample = Some(serde_json::json!({"backend": p.backend, "variant": p.variant, "wit": p.text}));
        }
    }
    match out {
        GenOutcome::Files(_) => Ok(()),
        GenOutcome::Error(_) => {
            obs.label(format!("{}:returned-error", p.backend));
            Ok(())
        }
        GenOutcome::Panic(pi) => {
            let sig = full_sig(p.backend, &pi, &p.resolve, p.world);
            let f = Failure::new(
                sig,
                format!("{} generator ({}) panicked: {}\nfeatures: {:?}\nWIT:\n{}", p.backend, p.variant, pi.render(), p.features, p.text),
            );
            if std::env::var("VERIF_SURVEY").is_ok() {
                // development aid: collect every distinct signature instead of stopping
                let mut s = SURVEY.lock().unwrap();
                let e = s.entry(f.sig.clone()).or_insert((0, f.msg.clone()));
                e.0 += 1;
                if f.msg.len() < e.1.len() {
                    e.1 = f.msg.clone();
                }
                return Ok(());
            }
            Err(f)
        }
    }
}

fn witnesses() -> Vec<(&'static str, &'static str, Vec<&'static str>, &'static str)> {
    vec![
        ("rust-borrow-in-fixed-list", "rust", vec!["--generate-all"], "package a:a;\ninterface i { resource r; f: func(a: list<borrow<r>, 2>); }\nworld w { import i; }"),
        ("named-handle-alias", "c", vec![], "package a:a;\ninterface i { resource r; type b = borrow<r>; f: func(x: b); }\nworld w { import i; }"),
        ("named-handle-alias-cpp", "cpp", vec![], "package a:a;\ninterface i { resource r; type b = borrow<r>; f: func(x: b); }\nworld w { import i; }"),
        ("csharp-async-indirect", "csharp", vec!["--runtime=native-aot"], "package a:a;\nworld w { import f: async func(a: u32, b: u32, c: u32, d: u32, e: u32); }"),
        ("c-param-named-result", "c", vec!["--async=all"], "package a:a;\ninterface i { f: func(%result: u32) -> result<u32, u32>; }\nworld w { import i; export i; }"),
        ("c-item-named-like-world", "c", vec![], "package a:a;\nworld w {\n  import w: interface { f: func(); }\n  import f: func();\n}"),
        ("c-autodrop-list", "c", vec!["--autodrop-borrows=yes"], "package a:a;\ninterface i { resource r; }\nworld w { import i; use i.{r}; export f: func(x: list<borrow<r>>); }"),
        // fixed in /repo (must pass): Markdown todo!()s, error-context post-return
        ("fixed-markdown-fixed-list", "markdown", vec![], "package a:a;\nworld w { import f: func(x: list<u8, 3>) -> list<string, 2>; }"),
        ("fixed-markdown-future-stream", "markdown", vec![], "package a:a;\ninterface i { type f = future<u8>; type s = stream<string>; g: func(a: f, b: s); }\nworld w { import i; }"),
        ("fixed-rust-error-context-result", "rust", vec!["--generate-all"], "package a:a;\nworld w { export f: func() -> error-context; }"),
    ]
}

pub fn run(check: &mut Check) {
    check.rule = "worlds decoded from a choice tape by the constructive generator (1..3 packages, interfaces with use, records/variants/enums/flags/aliases/resources, lists/options/results/tuples/maps/fixed lists/futures/streams/error-context in every position, world-level types and functions, adversarial names, doc comments) restricted per (backend, option variant) to the features that backend does not declare unsupported in crates/test; every world is parsed by wit-parser and validated as a component type first; \
        plus the tests/codegen corpus x every backend x every option variant with the repository's own exclusions; oracle: no panic (Err results are fine); \
        non-trivial = world uses >= 3 tracked feature classes; distinct by (WIT text, backend, variant)".into();
    check.assumptions.push("exclusions are transcribed from crates/test/src/<lang>.rs should_fail_verify; file-name exclusions are mapped to the feature the file exercises (DESIGN.md C16)".into());
    if check.is_replay() {
        check.prop("worlds", || (tape_strategy(10), any::<u8>(), any::<u8>()).prop_map(|(tape, backend, variant)| WorldCase { tape, backend, variant }), 1, prop);
        return;
    }
    // corpus sweep
    let corpus = backends::corpus();
    let mut n = 0;
    for (name, path, text) in &corpus {
        for b in BACKENDS {
            for (variant, args) in backends::variants(b) {
                if backends::corpus_excluded(name, text, b, variant) {
                    continue;
                }
                let case = serde_json::json!({"corpus": name, "backend": b, "variant": variant});
                n += 1;
                check.case("corpus", &case, |_, obs| {
                    let (resolve, world) = match backends::resolve_input(&Input::Path(path), None) {
                        Ok(x) => x,
                        Err(_) => return Ok(()), // multi-world directories etc.: not an input for this check
                    };
                    let tmp = tempfile::tempdir().map_err(|e| Failure::new("io", e.to_string()))?;
                    obs.nontrivial_by(&(name, b, variant));
                    match backends::generate(b, &args, &resolve, world, Some(tmp.path())) {
                        GenOutcome::Panic(pi) => Err(Failure::new(full_sig(b, &pi, &resolve, world), format!("{b} ({variant}) panicked on tests/codegen/{name}: {}", pi.render()))),
                        _ => Ok(()),
                    }
                });
            }
        }
    }
    check.set_sub_info("corpus", serde_json::json!({"runs": n}));
    // minimal witnesses: listed known findings (tolerated by signature) and fixed
    // defects (must pass)
    for (name, backend, args, wit) in witnesses() {
        let case = serde_json::json!({"witness": name, "backend": backend, "args": args, "wit": wit});
        check.case(&format!("witness-{name}"), &case, |_, obs| {
            let (resolve, world) = backends::resolve_input(&Input::Text(wit), None).unwrap_or_else(|e| vcommon::harness_error(format!("witness {name} does not parse: {e:#}")));
            let tmp = tempfile::tempdir().map_err(|e| Failure::new("io", e.to_string()))?;
            obs.nontrivial_by(&name);
            match backends::generate(backend, &args, &resolve, world, Some(tmp.path())) {
                GenOutcome::Panic(pi) => Err(Failure::new(full_sig(backend, &pi, &resolve, world), format!("{backend} {args:?} panicked on witness {name}: {}", pi.render()))),
                _ => Ok(()),
            }
        });
    }
    let cases = check.tier.pick(40_000, 400_000);
    check.prop(
        "worlds",
        || (tape_strategy(900), any::<u8>(), any::<u8>()).prop_map(|(tape, backend, variant)| WorldCase { tape, backend, variant }),
        cases,
        prop,
    );
    if std::env::var("VERIF_SURVEY").is_ok() {
        print_survey();
    }
}
