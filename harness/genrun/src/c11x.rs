//! C11, resource half — exported and imported resources through the generated C bindings.
//!
//! A fixed interface shape (an exported resource with constructor / method / static function,
//! free functions taking and returning owned and borrowed handles, lists and options of owned
//! handles, and exported functions over an *imported* resource) is generated for several
//! resource names and C option variants, compiled natively together with user code written by
//! the check (the representation records its destruction) and a host written by the check (the
//! guest's handle table, `resource.new/rep/drop`, the canonical lowering of `own` and `borrow`),
//! and driven by generated host operation sequences. The host finds every core function through
//! the *canonical name* in its `__export_name__` / `__import_name__` attribute, so a destructor
//! exported under the wrong name is a destructor that never runs.
use proptest::prelude::*;
use serde::Serialize;
use std::io::Write;
use std::path::{Path, PathBuf};
use vcommon::Failure;

pub const NAMES: &[&str] = &["r", "my-big-res", "x-y-z", "res2-b", "thing-t", "big-res-drop"];
pub const VARIANTS: &[(&str, &[&str], &str)] = &[("default", &[], ""), ("autodrop", &["--autodrop-borrows=yes"], "-DAUTODROP"), ("no-sig-flattening", &["--no-sig-flattening"], "-DNOSIG")];

#[derive(Clone, Debug, Serialize, Hash, PartialEq, Eq)]
pub struct Flavour {
    pub name: usize,
    pub variant: usize,
}

#[derive(Clone, Debug, Serialize, Hash, PartialEq, Eq)]
pub enum Op {
    Create(u32),
    Make(u32),
    Get(u8),
    Peek(u8),
    Take(u8),
    Merge(u8, u8),
    Drop(u8),
    Many(Vec<u8>),
    Opt(Option<u8>),
    UseIt(u32),
    /// `maybe-use(option<borrow<in-res>>)`
    MaybeUse(Option<u32>),
    /// `either(result<borrow<in-res>, u32>)`: `Err(())` passes the index of a live bystander handle
    Either(Result<u32, ()>),
    Eat(u32),
    EatMany(Vec<u32>),
}

fn val() -> impl Strategy<Value = u32> {
    prop_oneof![3 => 0u32..50, 1 => any::<u32>()]
}

pub fn op() -> impl Strategy<Value = Op> {
    prop_oneof![
        4 => val().prop_map(Op::Create),
        2 => val().prop_map(Op::Make),
        2 => any::<u8>().prop_map(Op::Get),
        2 => any::<u8>().prop_map(Op::Peek),
        2 => any::<u8>().prop_map(Op::Take),
        2 => (any::<u8>(), any::<u8>()).prop_map(|(a, b)| Op::Merge(a, b)),
        2 => any::<u8>().prop_map(Op::Drop),
        2 => proptest::collection::vec(any::<u8>(), 0..4).prop_map(Op::Many),
        1 => proptest::option::of(any::<u8>()).prop_map(Op::Opt),
        1 => val().prop_map(Op::UseIt),
        1 => proptest::option::of(val()).prop_map(Op::MaybeUse),
        1 => prop_oneof![val().prop_map(Ok), Just(Err(()))].prop_map(Op::Either),
        1 => val().prop_map(Op::Eat),
        1 => proptest::collection::vec(val(), 0..4).prop_map(Op::EatMany),
    ]
}

pub fn sequence() -> impl Strategy<Value = Vec<Op>> {
    proptest::collection::vec(op(), 1..20)
}

fn snake(n: &str) -> String {
    n.replace('-', "_")
}

pub fn wit(f: &Flavour) -> String {
    let n = NAMES[f.name];
    format!(
        "package v:w;\ninterface dep {{ resource in-res {{ constructor(x: u32); get: func() -> u32; }} }}\ninterface api {{\n  use dep.{{in-res}};\n  resource {n} {{\n    constructor(x: u32);\n    get: func() -> u32;\n    merge: static func(a: {n}, b: borrow<{n}>) -> {n};\n  }}\n  take: func(a: {n}) -> u32;\n  peek: func(a: borrow<{n}>) -> u32;\n  make: func(x: u32) -> {n};\n  many: func(l: list<{n}>) -> u32;\n  opt: func(a: option<{n}>) -> u32;\n  use-it: func(b: borrow<in-res>) -> u32;\n  maybe-use: func(b: option<borrow<in-res>>) -> u32;\n  either: func(c: result<borrow<in-res>, u32>) -> u32;\n  eat: func(a: in-res) -> u32;\n  eat-many: func(a: list<in-res>) -> u32;\n}}\nworld w {{ export api; }}\n"
    )
}

const PROG: &str = r#"#include <stdint.h>
#include <stddef.h>
#include <stdbool.h>
#include <stdio.h>
#include <stdlib.h>
#include <string.h>
#include <sys/mman.h>
#include "w.h"

/* ---- ledger of the blocks the generated code allocates and frees ---- */
#define V_CAP 4096
static void *v_live[V_CAP];
static long v_count;
static void v_add(void *p) { for (int i = 0; i < V_CAP; i++) if (!v_live[i]) { v_live[i] = p; v_count++; return; } }
static int v_del(void *p) { for (int i = 0; i < V_CAP; i++) if (v_live[i] == p) { v_live[i] = 0; v_count--; return 1; } return 0; }
void *v_malloc(size_t n) { void *p = malloc(n ? n : 1); v_add(p); return p; }
void *v_calloc(size_t a, size_t b) { void *p = calloc(a ? a : 1, b ? b : 1); v_add(p); return p; }
void v_free(void *p) { if (!p) return; if (!v_del(p)) { printf("E free-of-a-block-that-is-not-live\n"); return; } free(p); }
void *v_realloc(void *p, size_t n) { if (p && !v_del(p)) { printf("E realloc-of-a-block-that-is-not-live\n"); p = 0; } void *q = realloc(p, n ? n : 1); v_add(q); return q; }
void __component_type_object_force_link_w(void) {}
extern void *cabi_realloc(void *ptr, size_t old_size, size_t align, size_t new_size);

/* ---- user code: the representation of the exported resource ---- */
#define LIVE 0x600DF00Du
#define DEAD 0xDEADDEADu
struct exports_v_w_api_@S@_t { uint32_t magic; uint32_t x; };
typedef struct exports_v_w_api_@S@_t rep_t;
typedef exports_v_w_api_own_@S@_t own_t;
#define ARENA_CAP 4096
static rep_t *arena; static size_t arena_n; static long arena_live;
static rep_t *rep_alloc(uint32_t x) { if (arena_n >= ARENA_CAP) { printf("E harness-arena-full\n"); exit(3); } rep_t *r = &arena[arena_n++]; r->magic = LIVE; r->x = x; arena_live++; return r; }
static uint32_t rd(rep_t *r, const char *where) {
  if (r < arena || r >= arena + arena_n) { printf("E %s-receives-a-foreign-representation\n", where); return 0; }
  if (r->magic != LIVE) printf("E %s-receives-a-destroyed-value %u\n", where, r->x);
  return r->x;
}
void exports_v_w_api_@S@_destructor(rep_t *rep) {
  if (rep < arena || rep >= arena + arena_n) { printf("E destructor-receives-a-foreign-representation\n"); return; }
  if (rep->magic != LIVE) { printf("E destructor-runs-twice %u\n", rep->x); return; }
  printf("D %u\n", rep->x); rep->magic = DEAD; arena_live--;
}
own_t exports_v_w_api_constructor_@S@(uint32_t x) { return exports_v_w_api_@S@_new(rep_alloc(x)); }
uint32_t exports_v_w_api_method_@S@_get(exports_v_w_api_borrow_@S@_t self) { return rd(self, "get"); }
own_t exports_v_w_api_static_@S@_merge(own_t a, exports_v_w_api_borrow_@S@_t b) {
  uint32_t x = rd(exports_v_w_api_@S@_rep(a), "merge-own") + rd(b, "merge-borrow");
  exports_v_w_api_@S@_drop_own(a);
  return exports_v_w_api_@S@_new(rep_alloc(x));
}
uint32_t exports_v_w_api_take(own_t a) { uint32_t x = rd(exports_v_w_api_@S@_rep(a), "take"); exports_v_w_api_@S@_drop_own(a); return x; }
uint32_t exports_v_w_api_peek(exports_v_w_api_borrow_@S@_t a) { return rd(a, "peek"); }
own_t exports_v_w_api_make(uint32_t x) { return exports_v_w_api_@S@_new(rep_alloc(x ^ 0x5a)); }
uint32_t exports_v_w_api_many(exports_v_w_api_list_own_@S@_t *l) {
  uint32_t sum = 0;
  for (size_t i = 0; i < l->len; i++) sum = sum * 31 + rd(exports_v_w_api_@S@_rep(l->ptr[i]), "many");
  for (size_t i = 0; i < l->len; i++) exports_v_w_api_@S@_drop_own(l->ptr[i]);
  exports_v_w_api_list_own_@S@_free(l);
  return sum;
}
#ifdef NOSIG
uint32_t exports_v_w_api_opt(exports_v_w_api_option_own_@S@_t *a) {
  if (!a->is_some) return 7;
  uint32_t x = rd(exports_v_w_api_@S@_rep(a->val), "opt"); exports_v_w_api_@S@_drop_own(a->val);
  exports_v_w_api_option_own_@S@_free(a);
  return x;
}
#else
uint32_t exports_v_w_api_opt(own_t *maybe_a) {
  if (!maybe_a) return 7;
  uint32_t x = rd(exports_v_w_api_@S@_rep(*maybe_a), "opt"); exports_v_w_api_@S@_drop_own(*maybe_a);
  return x;
}
#endif
uint32_t exports_v_w_api_use_it(exports_v_w_api_borrow_in_res_t b) {
  uint32_t x = v_w_dep_method_in_res_get(b) + 1;
#ifndef AUTODROP
  v_w_dep_in_res_drop_borrow(b);
#endif
  return x;
}
static uint32_t use_borrow(exports_v_w_api_borrow_in_res_t b) {
  uint32_t x = v_w_dep_method_in_res_get(b) + 3;
#ifndef AUTODROP
  v_w_dep_in_res_drop_borrow(b);
#endif
  return x;
}
#ifdef NOSIG
uint32_t exports_v_w_api_maybe_use(exports_v_w_api_option_borrow_in_res_t *b) { return b->is_some ? use_borrow(b->val) : 9; }
#else
uint32_t exports_v_w_api_maybe_use(exports_v_w_api_borrow_in_res_t *maybe_b) { return maybe_b ? use_borrow(*maybe_b) : 9; }
#endif
uint32_t exports_v_w_api_either(exports_v_w_api_result_borrow_in_res_u32_t *c) { return c->is_err ? 11 : use_borrow(c->val.ok); }
uint32_t exports_v_w_api_eat(exports_v_w_api_own_in_res_t a) {
  uint32_t x = v_w_dep_method_in_res_get(v_w_dep_borrow_in_res(a)) + 2;
  v_w_dep_in_res_drop_own(a);
  return x;
}
uint32_t exports_v_w_api_eat_many(exports_v_w_api_list_own_in_res_t *a) {
  uint32_t sum = 1;
  for (size_t i = 0; i < a->len; i++) sum = sum * 31 + v_w_dep_method_in_res_get(v_w_dep_borrow_in_res(a->ptr[i]));
  for (size_t i = 0; i < a->len; i++) v_w_dep_in_res_drop_own(a->ptr[i]);
  exports_v_w_api_list_own_in_res_free(a);
  return sum;
}

/* ---- host: the guest's handle table of the exported resource ---- */
@DECLS@
#define TAB_CAP 8192
static struct { rep_t *rep; int alive; } tab[TAB_CAP]; static int tab_n;
static int32_t tab_add(rep_t *rep) { if (tab_n + 1 >= TAB_CAP) { printf("E harness-table-full\n"); exit(3); } tab_n++; tab[tab_n].rep = rep; tab[tab_n].alive = 1; return tab_n; }
static int tab_ok(int32_t h) { return h >= 1 && h <= tab_n && tab[h].alive; }
int32_t @IMP_NEW@(int32_t rep) { return tab_add((rep_t *)(intptr_t)rep); }
int32_t @IMP_REP@(int32_t h) { if (!tab_ok(h)) { printf("E resource.rep-of-a-handle-that-is-not-live\n"); return 0; } return (int32_t)(intptr_t)tab[h].rep; }
void @IMP_DROP@(int32_t h) {
  if (!tab_ok(h)) { printf("E resource.drop-of-a-handle-that-is-not-live\n"); return; }
  tab[h].alive = 0;
  X_dtor((int64_t)(intptr_t)tab[h].rep, 0);
}
/* ---- host: handles of the imported resource ---- */
static struct { uint32_t x; int alive; } itab[TAB_CAP]; static int itab_n;
static int32_t itab_add(uint32_t x) { if (itab_n + 1 >= TAB_CAP) { printf("E harness-table-full\n"); exit(3); } itab_n++; itab[itab_n].x = x; itab[itab_n].alive = 1; return itab_n; }
static int itab_ok(int32_t h) { return h >= 1 && h <= itab_n && itab[h].alive; }
int32_t @IMP_IN_CTOR@(int32_t x) { return itab_add((uint32_t)x); }
int32_t @IMP_IN_GET@(int32_t h) { if (!itab_ok(h)) { printf("E imported-method-called-with-a-handle-that-is-not-live\n"); return 0; } return (int32_t)itab[h].x; }
void @IMP_IN_DROP@(int32_t h) { if (!itab_ok(h)) { printf("E imported-resource.drop-of-a-handle-that-is-not-live\n"); return; } itab[h].alive = 0; }

#define SLOTS 512
static rep_t *held[SLOTS]; static int nslots;
static void lift_own(int64_t h) {
  if (!tab_ok((int32_t)h)) { printf("E export-returns-a-handle-that-is-not-live\n"); held[nslots++] = 0; return; }
  tab[h].alive = 0; held[nslots++] = tab[h].rep;
}
static rep_t *slot(int s) { if (s < 0 || s >= nslots || !held[s]) { printf("E harness-bad-slot %d\n", s); exit(3); } return held[s]; }
static int32_t lower_own(int s) { rep_t *r = slot(s); held[s] = 0; return tab_add(r); }
static void consumed(int32_t h, const char *what) { if (tab_ok(h)) printf("E %s-owned-handle-still-live-after-the-call\n", what); }

int main(void) {
  arena = mmap(0, ARENA_CAP * sizeof(rep_t), PROT_READ | PROT_WRITE, MAP_PRIVATE | MAP_ANONYMOUS | MAP_32BIT, -1, 0);
  if (arena == MAP_FAILED) { printf("E harness-mmap\n"); return 3; }
  setvbuf(stdout, 0, _IOFBF, 1 << 16);
  char line[512];
  while (fgets(line, sizeof line, stdin)) {
    char *p = line; char op = *p++; long a[8]; int n = 0;
    while (n < 8) { char *e; long v = strtol(p, &e, 10); if (e == p) break; a[n++] = v; p = e; }
    int64_t r = 0;
    switch (op) {
      case 'c': lift_own(X_ctor((int64_t)(uint32_t)a[0], 0)); break;
      case 'm': lift_own(X_make((int64_t)(uint32_t)a[0], 0)); break;
      case 'g': r = (uint32_t)X_get((int64_t)(intptr_t)slot(a[0]), 0); break;
      case 'p': r = (uint32_t)X_peek((int64_t)(intptr_t)slot(a[0]), 0); break;
      case 't': { int32_t h = lower_own(a[0]); r = (uint32_t)X_take(h, 0); consumed(h, "take"); break; }
      case 'M': { rep_t *b = slot(a[1]); int32_t h = lower_own(a[0]); lift_own(X_merge(h, (int64_t)(intptr_t)b)); consumed(h, "merge"); break; }
      case 'd': { rep_t *x = slot(a[0]); held[a[0]] = 0; X_dtor((int64_t)(intptr_t)x, 0); break; }
      case 'L': {
        int k = (int)a[0]; int32_t hs[8]; int32_t *buf = k ? cabi_realloc(0, 0, 4, 4 * k) : (int32_t *)(intptr_t)4;
        for (int i = 0; i < k; i++) { hs[i] = lower_own(a[1 + i]); buf[i] = hs[i]; }
        r = (uint32_t)X_many((int64_t)(intptr_t)buf, k);
        for (int i = 0; i < k; i++) consumed(hs[i], "many");
        break;
      }
      case 'o': if (n == 0) r = (uint32_t)X_opt(0, 0); else { int32_t h = lower_own(a[0]); r = (uint32_t)X_opt(1, h); consumed(h, "opt"); } break;
      case 'u': { int32_t h = itab_add((uint32_t)a[0]); r = (uint32_t)X_useit(h, 0); if (itab_ok(h)) printf("E borrowed-handle-of-the-imported-resource-not-released-before-return\n"); break; }
      case 'U': {
        if (n == 0) { r = (uint32_t)X_maybeuse(0, 0); break; }
        int32_t h = itab_add((uint32_t)a[0]); r = (uint32_t)X_maybeuse(1, h);
        if (itab_ok(h)) printf("E borrowed-handle-of-the-imported-resource-not-released-before-return\n");
        break;
      }
      case 'e': {
        if (n == 0) {
          /* the error payload is a number that happens to be the index of a live handle */
          int32_t by = itab_add(77); r = (uint32_t)X_either(1, by);
          if (!itab_ok(by)) printf("E unrelated-live-handle-of-the-imported-resource-was-dropped\n");
          itab[by].alive = 0; break;
        }
        int32_t h = itab_add((uint32_t)a[0]); r = (uint32_t)X_either(0, h);
        if (itab_ok(h)) printf("E borrowed-handle-of-the-imported-resource-not-released-before-return\n");
        break;
      }
      case 'E': { int32_t h = itab_add((uint32_t)a[0]); r = (uint32_t)X_eat(h, 0); if (itab_ok(h)) printf("E harness-eat-did-not-drop\n"); break; }
      case 'A': {
        int k = (int)a[0]; int32_t *buf = k ? cabi_realloc(0, 0, 4, 4 * k) : (int32_t *)(intptr_t)4;
        for (int i = 0; i < k; i++) buf[i] = itab_add((uint32_t)a[1 + i]);
        r = (uint32_t)X_eatmany((int64_t)(intptr_t)buf, k);
        break;
      }
      case '.': {
        long t = 0, it = 0; for (int i = 1; i <= tab_n; i++) t += tab[i].alive; for (int i = 1; i <= itab_n; i++) it += itab[i].alive;
        printf("T %ld %ld %ld %ld\n", t, arena_live, v_count, it);
        tab_n = 0; itab_n = 0; arena_n = 0; arena_live = 0; nslots = 0; v_count = 0; memset(v_live, 0, sizeof v_live);
        fflush(stdout);
        continue;
      }
      default: continue;
    }
    printf("R %llu\n", (unsigned long long)r);
  }
  fflush(stdout);
  return 0;
}
"#;

/// `(return type, C identifier, parameter types)` of the function that `w.c` binds to a
/// canonical export name
fn export_ident(src: &str, name: &str) -> Option<(String, String, Vec<String>)> {
    let re = regex::Regex::new(&format!(r#"__export_name__\("{}"\)\)\)\s*([A-Za-z0-9_ \*]+?)\s*(__wasm_export_[A-Za-z0-9_]+)\(([^)]*)\)"#, regex::escape(name))).unwrap();
    let c = re.captures(src)?;
    let params = c[3]
        .split(',')
        .map(|x| x.trim())
        .filter(|x| !x.is_empty() && *x != "void")
        .map(|x| {
            let idx = x.rfind(|ch: char| !(ch.is_ascii_alphanumeric() || ch == '_')).map(|k| k + 1).unwrap_or(0);
            x[..idx].trim().to_string()
        })
        .collect();
    Some((c[1].trim().to_string(), c[2].to_string(), params))
}

fn import_ident(src: &str, module: &str, name: &str) -> Option<String> {
    let re = regex::Regex::new(&format!(r#"__import_module__\("{}"\),\s*__import_name__\("{}"\)\)\)\s*extern\s+[A-Za-z0-9_ \*]+?\s*(__wasm_import_[A-Za-z0-9_]+)\("#, regex::escape(module), regex::escape(name))).unwrap();
    Some(re.captures(src)?[1].to_string())
}

pub struct Built {
    pub exe: PathBuf,
    pub wit: String,
}

/// generate, write the program, compile; `Err((sig, msg))` is a failure of the property
/// (`harness:` prefixed messages are errors of the check)
pub fn build(dir: &Path, f: &Flavour) -> Result<Built, (String, String)> {
    use crate::backends::{self, GenOutcome, Input};
    let wit = wit(f);
    let (vname, args, def) = VARIANTS[f.variant];
    let n = NAMES[f.name];
    let (resolve, wid) = backends::resolve_input(&Input::Text(&wit), Some("w")).map_err(|e| ("harness".to_string(), format!("harness: resource world does not parse: {e:#}")))?;
    let _ = std::fs::remove_dir_all(dir);
    std::fs::create_dir_all(dir).unwrap();
    let files = match backends::generate("c", args, &resolve, wid, Some(dir)) {
        GenOutcome::Files(f) => f,
        GenOutcome::Error(e) => return Err((format!("resources generator-error {vname}"), format!("generator error: {e}"))),
        GenOutcome::Panic(p) => return Err((format!("resources generator-panic {vname}"), format!("generator panic: {}", p.render()))),
    };
    let get = |n: &str| files.iter().find(|(k, _)| k.as_str() == n).map(|(_, b)| String::from_utf8_lossy(b).to_string());
    let (Some(h), Some(c)) = (get("w.h"), get("w.c")) else { return Err(("harness".into(), "harness: w.h / w.c missing from the generator output".into())) };
    let mut decls = String::new();
    let exports = [
        ("dtor", format!("v:w/api#[dtor]{n}")),
        ("ctor", format!("v:w/api#[constructor]{n}")),
        ("get", format!("v:w/api#[method]{n}.get")),
        ("merge", format!("v:w/api#[static]{n}.merge")),
        ("take", "v:w/api#take".to_string()),
        ("peek", "v:w/api#peek".to_string()),
        ("make", "v:w/api#make".to_string()),
        ("many", "v:w/api#many".to_string()),
        ("opt", "v:w/api#opt".to_string()),
        ("useit", "v:w/api#use-it".to_string()),
        ("maybeuse", "v:w/api#maybe-use".to_string()),
        ("either", "v:w/api#either".to_string()),
        ("eat", "v:w/api#eat".to_string()),
        ("eatmany", "v:w/api#eat-many".to_string()),
    ];
    for (key, name) in &exports {
        let Some((ret, ident, params)) = export_ident(&c, name) else {
            return Err((format!("resources missing-export {key} {vname}"), format!("w.c binds no function to the canonical export name `{name}` (the host cannot reach it; for `[dtor]` the user destructor never runs)\nresource `{n}`, variant {vname}")));
        };
        if params.len() > 2 {
            return Err(("harness".into(), format!("harness: {ident} has {} parameters", params.len())));
        }
        let ps: Vec<String> = params.iter().map(|t| t.to_string()).collect();
        let cast: Vec<String> = params.iter().enumerate().map(|(i, t)| format!("({t})(intptr_t)a{i}")).collect();
        decls.push_str(&format!("extern {ret} {ident}({});\n", if ps.is_empty() { "void".to_string() } else { ps.join(", ") }));
        if ret == "void" {
            decls.push_str(&format!("static int64_t X_{key}(int64_t a0, int64_t a1) {{ (void)a0; (void)a1; {ident}({}); return 0; }}\n", cast.join(", ")));
        } else {
            decls.push_str(&format!("static int64_t X_{key}(int64_t a0, int64_t a1) {{ (void)a0; (void)a1; return (int64_t){ident}({}); }}\n", cast.join(", ")));
        }
    }
    let mut prog = PROG.replace("@S@", &snake(n)).replace("@DECLS@", &decls);
    let imports = [
        ("@IMP_NEW@", "[export]v:w/api".to_string(), format!("[resource-new]{n}")),
        ("@IMP_REP@", "[export]v:w/api".to_string(), format!("[resource-rep]{n}")),
        ("@IMP_DROP@", "[export]v:w/api".to_string(), format!("[resource-drop]{n}")),
        ("@IMP_IN_CTOR@", "v:w/dep".to_string(), "[constructor]in-res".to_string()),
        ("@IMP_IN_GET@", "v:w/dep".to_string(), "[method]in-res.get".to_string()),
        ("@IMP_IN_DROP@", "v:w/dep".to_string(), "[resource-drop]in-res".to_string()),
    ];
    for (ph, module, name) in &imports {
        let Some(ident) = import_ident(&c, module, name) else {
            return Err((format!("resources missing-import {name} {vname}"), format!("w.c declares no import `{name}` of module `{module}`\nresource `{n}`, variant {vname}")));
        };
        prog = prog.replace(ph, &ident);
    }
    std::fs::write(dir.join("w.h"), &h).unwrap();
    std::fs::write(dir.join("w.c"), &c).unwrap();
    std::fs::write(dir.join("prog.c"), &prog).unwrap();
    let cc = |extra: &[&str], src: &str, obj: &str| {
        std::process::Command::new("clang")
            .args(["-c", "-O1", "-fstack-protector-all", "-w", "-Werror=implicit-function-declaration", "-Werror=incompatible-pointer-types", "-Werror=int-conversion", "-I"])
            .arg(dir)
            .args(extra)
            .arg(dir.join(src))
            .arg("-o")
            .arg(dir.join(obj))
            .output()
    };
    let o1 = cc(&["-Dmalloc=v_malloc", "-Dfree=v_free", "-Drealloc=v_realloc", "-Dcalloc=v_calloc"], "w.c", "w.o");
    let defs: Vec<&str> = if def.is_empty() { vec![] } else { vec![def] };
    let o2 = cc(&defs, "prog.c", "prog.o");
    for (what, o) in [("w.c", o1), ("prog.c", o2)] {
        match o {
            Ok(o) if o.status.success() => {}
            Ok(o) => {
                let e = String::from_utf8_lossy(&o.stderr).to_string();
                return Err((format!("resources not-built {vname}"), format!("compiling {what} of the resource world failed (the user code uses the documented names of crates/c/README.md)\n{}\nresource `{n}`, variant {vname}", e.lines().filter(|l| l.contains("error")).take(6).collect::<Vec<_>>().join("\n"))));
            }
            Err(e) => return Err(("harness".into(), format!("harness: cannot run clang: {e}"))),
        }
    }
    let exe = dir.join("prog");
    match std::process::Command::new("clang").arg("-o").arg(&exe).arg(dir.join("w.o")).arg(dir.join("prog.o")).output() {
        Ok(o) if o.status.success() => Ok(Built { exe, wit }),
        Ok(o) => Err((format!("resources not-linked {vname}"), format!("linking the resource world failed\n{}\nresource `{n}`, variant {vname}", String::from_utf8_lossy(&o.stderr).lines().take(6).collect::<Vec<_>>().join("\n")))),
        Err(e) => Err(("harness".into(), format!("harness: cannot run clang: {e}"))),
    }
}

/// what the host sends for one sequence and what the model expects back:
/// per concrete op `(line, expected return, expected destroyed values (sorted))`
pub fn plan(ops: &[Op]) -> Vec<(String, u32, Vec<u32>)> {
    let mut vals: Vec<Option<u32>> = vec![]; // by slot
    let mut out = vec![];
    let live = |vals: &Vec<Option<u32>>| -> Vec<usize> { vals.iter().enumerate().filter(|(_, v)| v.is_some()).map(|(i, _)| i).collect() };
    let pick = |vals: &Vec<Option<u32>>, i: u8| -> Option<usize> {
        let l = live(vals);
        if l.is_empty() {
            None
        } else {
            Some(l[i as usize % l.len()])
        }
    };
    for o in ops {
        match o {
            Op::Create(x) => {
                vals.push(Some(*x));
                out.push((format!("c {x}"), 0, vec![]));
            }
            Op::Make(x) => {
                vals.push(Some(*x ^ 0x5a));
                out.push((format!("m {x}"), 0, vec![]));
            }
            Op::Get(i) => {
                if let Some(s) = pick(&vals, *i) {
                    out.push((format!("g {s}"), vals[s].unwrap(), vec![]));
                }
            }
            Op::Peek(i) => {
                if let Some(s) = pick(&vals, *i) {
                    out.push((format!("p {s}"), vals[s].unwrap(), vec![]));
                }
            }
            Op::Take(i) => {
                if let Some(s) = pick(&vals, *i) {
                    let v = vals[s].take().unwrap();
                    out.push((format!("t {s}"), v, vec![v]));
                }
            }
            Op::Merge(i, j) => {
                if let Some(a) = pick(&vals, *i) {
                    let va = vals[a].take().unwrap();
                    if let Some(b) = pick(&vals, *j) {
                        let vb = vals[b].unwrap();
                        vals.push(Some(va.wrapping_add(vb)));
                        out.push((format!("M {a} {b}"), 0, vec![va]));
                    } else {
                        vals[a] = Some(va);
                    }
                }
            }
            Op::Drop(i) => {
                if let Some(s) = pick(&vals, *i) {
                    let v = vals[s].take().unwrap();
                    out.push((format!("d {s}"), 0, vec![v]));
                }
            }
            Op::Many(is) => {
                let mut slots = vec![];
                let mut vs = vec![];
                for i in is {
                    if let Some(s) = pick(&vals, *i) {
                        vs.push(vals[s].take().unwrap());
                        slots.push(s);
                    }
                }
                let sum = vs.iter().fold(0u32, |a, v| a.wrapping_mul(31).wrapping_add(*v));
                let mut d = vs.clone();
                d.sort();
                out.push((format!("L {} {}", slots.len(), slots.iter().map(|s| s.to_string()).collect::<Vec<_>>().join(" ")), sum, d));
            }
            Op::Opt(None) => out.push(("o".to_string(), 7, vec![])),
            Op::Opt(Some(i)) => {
                if let Some(s) = pick(&vals, *i) {
                    let v = vals[s].take().unwrap();
                    out.push((format!("o {s}"), v, vec![v]));
                } else {
                    out.push(("o".to_string(), 7, vec![]));
                }
            }
            Op::UseIt(x) => out.push((format!("u {x}"), x.wrapping_add(1), vec![])),
            Op::MaybeUse(None) => out.push(("U".to_string(), 9, vec![])),
            Op::MaybeUse(Some(x)) => out.push((format!("U {x}"), x.wrapping_add(3), vec![])),
            Op::Either(Err(())) => out.push(("e".to_string(), 11, vec![])),
            Op::Either(Ok(x)) => out.push((format!("e {x}"), x.wrapping_add(3), vec![])),
            Op::Eat(x) => out.push((format!("E {x}"), x.wrapping_add(2), vec![])),
            Op::EatMany(xs) => {
                let sum = xs.iter().fold(1u32, |a, v| a.wrapping_mul(31).wrapping_add(*v));
                out.push((format!("A {} {}", xs.len(), xs.iter().map(|s| s.to_string()).collect::<Vec<_>>().join(" ")), sum, vec![]));
            }
        }
    }
    // the host drops what it still holds
    for s in live(&vals) {
        out.push((format!("d {s}"), 0, vec![vals[s].unwrap()]));
    }
    out
}

/// run the sequences in one process; per sequence the list of `(signature, message)`
pub fn run(b: &Built, seqs: &[&[Op]]) -> Result<Vec<Vec<(String, String)>>, String> {
    let plans: Vec<Vec<(String, u32, Vec<u32>)>> = seqs.iter().map(|s| plan(s)).collect();
    let mut input = String::new();
    for p in &plans {
        for (l, _, _) in p {
            input.push_str(l);
            input.push('\n');
        }
        input.push_str(".\n");
    }
    let mut child = std::process::Command::new(&b.exe).stdin(std::process::Stdio::piped()).stdout(std::process::Stdio::piped()).stderr(std::process::Stdio::null()).spawn().map_err(|e| format!("harness: cannot run {}: {e}", b.exe.display()))?;
    let mut stdin = child.stdin.take().unwrap();
    let writer = std::thread::spawn(move || {
        let _ = stdin.write_all(input.as_bytes());
    });
    let outp = child.wait_with_output().map_err(|e| format!("harness: {e}"))?;
    let _ = writer.join();
    if outp.status.code() == Some(3) {
        return Err(format!("harness: the resource program stopped with a harness error: {}", String::from_utf8_lossy(&outp.stdout).lines().filter(|l| l.starts_with("E harness")).next().unwrap_or("")));
    }
    let text = String::from_utf8_lossy(&outp.stdout).to_string();
    let mut lines = text.lines();
    let mut res = vec![];
    'seq: for p in &plans {
        let mut fails: Vec<(String, String)> = vec![];
        for (k, (line, ret, dtors)) in p.iter().enumerate() {
            let mut ds = vec![];
            loop {
                let Some(l) = lines.next() else {
                    fails.push(("resources guest-crash".into(), format!("the program ended ({:?}) during host operation #{k} `{line}`", outp.status)));
                    res.push(fails);
                    // later sequences were not run
                    while res.len() < plans.len() {
                        res.push(vec![]);
                    }
                    break 'seq;
                };
                if let Some(x) = l.strip_prefix("D ") {
                    ds.push(x.trim().parse::<u32>().unwrap_or(u32::MAX));
                } else if let Some(x) = l.strip_prefix("E ") {
                    let sig: String = x.split(' ').next().unwrap_or("").to_string();
                    fails.push((format!("resources {sig}"), format!("host operation #{k} `{line}`: {x}")));
                } else if let Some(x) = l.strip_prefix("R ") {
                    let got = x.trim().parse::<u64>().unwrap_or(u64::MAX);
                    if got != *ret as u64 && !matches!(line.as_bytes()[0], b'c' | b'm' | b'M' | b'd') {
                        fails.push(("resources wrong-value".into(), format!("host operation #{k} `{line}` returned {got}, the value behind the handle(s) gives {ret}")));
                    }
                    break;
                }
            }
            ds.sort();
            if ds != *dtors {
                let sig = if ds.len() < dtors.len() { "resources destructor-did-not-run" } else if ds.len() > dtors.len() { "resources destructor-ran-unexpectedly" } else { "resources destructor-on-wrong-value" };
                fails.push((sig.into(), format!("host operation #{k} `{line}`: user destructor ran for values {ds:?}, expected exactly {dtors:?}")));
            }
        }
        match lines.next() {
            Some(l) if l.starts_with("T ") => {
                let v: Vec<i64> = l[2..].split_whitespace().map(|x| x.parse().unwrap_or(-1)).collect();
                if v != [0, 0, 0, 0] {
                    fails.push(("resources left-over".into(), format!("after the host dropped everything: {} live handles of the exported resource, {} values not destroyed, {} heap blocks, {} live handles of the imported resource", v[0], v[1], v[2], v[3])));
                }
            }
            other => {
                fails.push(("resources guest-crash".into(), format!("the program ended ({:?}) at the end of the sequence ({other:?})", outp.status)));
            }
        }
        res.push(fails);
    }
    Ok(res)
}

/// greedy removal of operations while the failure signature stays
pub fn shrink(b: &Built, ops: &[Op], sig: &str) -> Vec<Op> {
    let mut cur = ops.to_vec();
    let mut i = 0;
    let mut budget = 80;
    while i < cur.len() && budget > 0 {
        let mut t = cur.clone();
        t.remove(i);
        budget -= 1;
        let keeps = matches!(run(b, &[&t]), Ok(r) if r[0].iter().any(|(s, _)| s == sig));
        if keeps {
            cur = t;
        } else {
            i += 1;
        }
    }
    cur
}

pub fn failure_of(f: &Flavour, b: &Built, ops: &[Op], sig: &str, msg: &str) -> Failure {
    let (vname, _, _) = VARIANTS[f.variant];
    let lines: Vec<String> = plan(ops).into_iter().map(|(l, _, _)| l).collect();
    Failure::new(
        format!("{sig} {vname}"),
        format!("{msg}\nresource `{}`, variant {vname}; host operations (c/m create, g/p read through a borrow, t take, M merge(own, borrow), d host drop, L list of owned, o option, u/E/A imported resource): {}\nops: {}\nWIT:\n{}", NAMES[f.name], lines.join("; "), serde_json::to_string(ops).unwrap_or_default(), b.wit),
    )
}
