//! Building real wasm32 core modules from generated bindings (clang + wasm-ld for
//! C; cargo -Zbuild-std for Rust), componentizing them with wit-component and
//! comparing the resulting component's world with the requested one.
use std::collections::{BTreeMap, BTreeSet};
use std::path::{Path, PathBuf};
use std::process::Command;
use std::sync::OnceLock;
use wit_parser::*;

pub const SHIM: &str = "/verif/harness/cshim";

fn run(cmd: &mut Command) -> Result<(), String> {
    let out = cmd.output().map_err(|e| format!("cannot run {:?}: {e}", cmd.get_program()))?;
    if out.status.success() {
        Ok(())
    } else {
        let err = String::from_utf8_lossy(&out.stderr);
        let lines: Vec<&str> = err.lines().filter(|l| l.contains("error")).take(6).collect();
        Err(if lines.is_empty() { err.lines().take(6).collect::<Vec<_>>().join("\n") } else { lines.join("\n") })
    }
}

pub fn clang_wasm32() -> Command {
    let mut c = Command::new("clang");
    c.args(["--target=wasm32-unknown-unknown", "-O1", "-ffreestanding", "-nostdlib", "-w", "-Werror=implicit-function-declaration", "-isystem", SHIM]);
    c
}

/// libc objects, compiled once per process: (memory/string routines, bump allocator, host-imported allocator)
pub fn shim_objects() -> &'static (PathBuf, PathBuf, PathBuf) {
    static OBJS: OnceLock<(PathBuf, PathBuf, PathBuf)> = OnceLock::new();
    OBJS.get_or_init(|| {
        let dir = PathBuf::from(format!("/verif/target/cshim-{}", std::process::id()));
        std::fs::create_dir_all(&dir).unwrap();
        let mut out = vec![];
        for name in ["libc_mem", "libc_bump", "libc_host"] {
            let o = dir.join(format!("{name}.o"));
            let src = format!("{SHIM}/{name}.c");
            if Path::new(&src).exists() {
                if let Err(e) = run(clang_wasm32().arg("-c").arg(&src).arg("-o").arg(&o)) {
                    vcommon::harness_error(format!("cannot compile the libc shim {name}: {e}"));
                }
            }
            out.push(o);
        }
        (out[0].clone(), out[1].clone(), out[2].clone())
    })
}

pub fn cleanup_shim() {
    let _ = std::fs::remove_dir_all(format!("/verif/target/cshim-{}", std::process::id()));
}

pub enum CBuildError {
    Compile(String),
    Link(String),
}

/// compile every generated .c file and link it with the component-type object
pub fn build_c_module(files: &BTreeMap<String, Vec<u8>>, dir: &Path, extra_sources: &[PathBuf], host_alloc: bool) -> Result<Vec<u8>, CBuildError> {
    for (n, b) in files {
        let p = dir.join(n);
        if let Some(d) = p.parent() {
            let _ = std::fs::create_dir_all(d);
        }
        std::fs::write(&p, b).map_err(|e| CBuildError::Compile(e.to_string()))?;
    }
    let mut objs: Vec<PathBuf> = vec![];
    let sources: Vec<PathBuf> = files.keys().filter(|n| n.ends_with(".c")).map(|n| dir.join(n)).chain(extra_sources.iter().cloned()).collect();
    for (i, src) in sources.iter().enumerate() {
        let o = dir.join(format!("obj{i}.o"));
        run(clang_wasm32().arg("-I").arg(dir).arg("-c").arg(src).arg("-o").arg(&o)).map_err(CBuildError::Compile)?;
        objs.push(o);
    }
    for n in files.keys().filter(|n| n.ends_with(".o")) {
        objs.push(dir.join(n));
    }
    let (mem, bump, host) = shim_objects();
    let out = dir.join("module.wasm");
    let mut ld = Command::new("wasm-ld");
    ld.args(["--no-entry", "--unresolved-symbols=ignore-all", "--export=__heap_base"]);
    if host_alloc {
        ld.arg("--allow-undefined");
    }
    ld.args(&objs).arg(mem).arg(if host_alloc { host } else { bump }).arg("-o").arg(&out);
    run(&mut ld).map_err(CBuildError::Link)?;
    std::fs::read(&out).map_err(|e| CBuildError::Link(e.to_string()))
}

pub fn componentize(module: &[u8], validate: bool) -> Result<Vec<u8>, String> {
    wit_component::ComponentEncoder::default()
        .validate(validate)
        .module(module)
        .and_then(|e| e.encode())
        .map_err(|e| format!("{e:#}"))
}

/// core exports of `module` that the component model assigns to no item of the world (the
/// encoder ignores those silently): a mis-named `cabi_post_*` or callback export ends up here
pub fn unassigned_exports(module: &[u8], resolve: &Resolve, world: wit_parser::WorldId) -> Result<Vec<String>, String> {
    let allowed = crate::c13::allowed_exports(resolve, world);
    let mut out = vec![];
    for payload in wasmparser::Parser::new(0).parse_all(module) {
        if let wasmparser::Payload::ExportSection(r) = payload.map_err(|e| e.to_string())? {
            for e in r {
                let e = e.map_err(|e| e.to_string())?;
                let n = e.name;
                // linker-defined and toolchain symbols
                let toolchain = n.starts_with("__") || matches!(n, "memory" | "_initialize" | "_start" | "cabi_realloc" | "wasip3_task_set") || n.starts_with("cabi_realloc_wit_bindgen");
                if !toolchain && !allowed.contains(n) {
                    out.push(n.to_string());
                }
            }
        }
    }
    Ok(out)
}

// ------------------------------------------------------------ world comparison

fn ty_str(resolve: &Resolve, t: &Type, depth: usize) -> String {
    match t {
        Type::Id(id) => {
            let td = &resolve.types[*id];
            use TypeDefKind as K;
            let body = if depth > 8 {
                "..".to_string()
            } else {
                match &td.kind {
                    K::Record(r) => format!("record{{{}}}", r.fields.iter().map(|f| format!("{}:{}", f.name, ty_str(resolve, &f.ty, depth + 1))).collect::<Vec<_>>().join(",")),
                    K::Variant(v) => format!("variant{{{}}}", v.cases.iter().map(|c| format!("{}:{}", c.name, c.ty.as_ref().map(|t| ty_str(resolve, t, depth + 1)).unwrap_or_default())).collect::<Vec<_>>().join(",")),
                    K::Enum(e) => format!("enum{{{}}}", e.cases.iter().map(|c| c.name.clone()).collect::<Vec<_>>().join(",")),
                    K::Flags(f) => format!("flags{{{}}}", f.flags.iter().map(|c| c.name.clone()).collect::<Vec<_>>().join(",")),
                    K::Tuple(t) => format!("tuple<{}>", t.types.iter().map(|t| ty_str(resolve, t, depth + 1)).collect::<Vec<_>>().join(",")),
                    K::List(t) => format!("list<{}>", ty_str(resolve, t, depth + 1)),
                    K::FixedLengthList(t, n) => format!("list<{},{n}>", ty_str(resolve, t, depth + 1)),
                    K::Map(k, v) => format!("map<{},{}>", ty_str(resolve, k, depth + 1), ty_str(resolve, v, depth + 1)),
                    K::Option(t) => format!("option<{}>", ty_str(resolve, t, depth + 1)),
                    K::Result(r) => format!("result<{},{}>", r.ok.as_ref().map(|t| ty_str(resolve, t, depth + 1)).unwrap_or("_".into()), r.err.as_ref().map(|t| ty_str(resolve, t, depth + 1)).unwrap_or("_".into())),
                    K::Future(t) => format!("future<{}>", t.as_ref().map(|t| ty_str(resolve, t, depth + 1)).unwrap_or_default()),
                    K::Stream(t) => format!("stream<{}>", t.as_ref().map(|t| ty_str(resolve, t, depth + 1)).unwrap_or_default()),
                    K::Handle(Handle::Own(r)) => format!("own<{}>", ty_str(resolve, &Type::Id(*r), depth + 1)),
                    K::Handle(Handle::Borrow(r)) => format!("borrow<{}>", ty_str(resolve, &Type::Id(*r), depth + 1)),
                    K::Resource => format!("resource {}", td.name.clone().unwrap_or_default()),
                    // aliases are transparent
                    K::Type(t) => return ty_str(resolve, t, depth + 1),
                    K::Unknown => "?".into(),
                }
            };
            body
        }
        other => format!("{other:?}").to_lowercase(),
    }
}

fn func_str(resolve: &Resolve, f: &Function) -> String {
    let is_async = matches!(f.kind, FunctionKind::AsyncFreestanding | FunctionKind::AsyncMethod(_) | FunctionKind::AsyncStatic(_));
    format!(
        "{}({}){}",
        if is_async { "async " } else { "" },
        f.params.iter().map(|p| format!("{}:{}", p.name, ty_str(resolve, &p.ty, 0))).collect::<Vec<_>>().join(","),
        f.result.as_ref().map(|t| format!("->{}", ty_str(resolve, t, 0))).unwrap_or_default()
    )
}

/// key -> (function name -> signature)
fn items(resolve: &Resolve, world: WorldId, imports: bool) -> BTreeMap<String, BTreeMap<String, String>> {
    let w = &resolve.worlds[world];
    let mut out = BTreeMap::new();
    for (key, item) in if imports { w.imports.iter() } else { w.exports.iter() } {
        let k = resolve.name_world_key(key);
        match item {
            WorldItem::Function(f) => {
                out.entry("$root".to_string()).or_insert_with(BTreeMap::new).insert(k, func_str(resolve, f));
            }
            WorldItem::Interface { id, .. } => {
                let m = out.entry(k).or_insert_with(BTreeMap::new);
                for (n, f) in &resolve.interfaces[*id].functions {
                    m.insert(n.clone(), func_str(resolve, f));
                }
            }
            WorldItem::Type { .. } => {}
        }
    }
    out
}

/// The component must export exactly the requested world's exports (same function
/// types) and import a subset of its imports.
pub fn compare_world(component: &[u8], resolve: &Resolve, world: WorldId) -> Result<(), String> {
    let decoded = wit_component::decode(component).map_err(|e| format!("cannot decode the component: {e:#}"))?;
    let (r2, w2) = match &decoded {
        wit_component::DecodedWasm::Component(r, w) => (r, *w),
        _ => return Err("decoded wasm is not a component".into()),
    };
    let (want_e, got_e) = (items(resolve, world, false), items(r2, w2, false));
    let wk: BTreeSet<&String> = want_e.keys().collect();
    let gk: BTreeSet<&String> = got_e.keys().collect();
    if wk != gk {
        return Err(format!("exports: component exports {gk:?}, the world requires {wk:?}"));
    }
    for (k, fs) in &want_e {
        let g = &got_e[k];
        if fs != g {
            let diff: Vec<String> = fs.iter().filter(|(n, s)| g.get(*n) != Some(s)).map(|(n, s)| format!("{n}: want {s} got {:?}", g.get(n))).chain(g.keys().filter(|n| !fs.contains_key(*n)).map(|n| format!("{n}: unexpected"))).take(3).collect();
            return Err(format!("export-types: export `{k}` differs from the requested world: {diff:?}"));
        }
    }
    let (want_i, got_i) = (items(resolve, world, true), items(r2, w2, true));
    for (k, fs) in &got_i {
        let Some(w) = want_i.get(k) else {
            return Err(format!("imports: component imports `{k}` which the world does not import"));
        };
        for (n, s) in fs {
            if w.get(n) != Some(s) {
                return Err(format!("import-types: import `{k}`.`{n}` is {s} in the component but {:?} in the world", w.get(n)));
            }
        }
    }
    Ok(())
}
