//! Engine D: native execution of generated guest bindings against a reference host.
//!
//! A *proxy world* imports and exports the same interface `api`, whose types live in an
//! imported-only interface `t`. The guest implementation of every exported function simply
//! forwards to the imported function of the same name, so no hand-written test code sees the
//! values: the host (this module, using the independent reference ABI in `refabi` with P = 8)
//! lowers random values into an export call, receives them again in the import call the guest
//! makes, answers with another random value and gets that one back as the export's result.
//! Both directions of both the import and the export glue are crossed by every value.
//!
//! The generated code is compiled natively (the generators' output is pointer-width agnostic)
//! into one shared object per world; import declarations are rewritten into calls of one host
//! callback, exports are reached through trampolines with signatures derived from `refabi`.
#![allow(clippy::type_complexity)]
use proptest::prelude::*;
use refabi::{Abi, Flat, Mem, Ty, Val};
use serde::{Deserialize, Serialize};
use std::cell::RefCell;
use std::collections::BTreeMap;
use std::path::{Path, PathBuf};

pub const ABI: Abi = Abi { p: 8 };

#[derive(Clone, Debug, Hash, Serialize, Deserialize)]
pub struct Func {
    pub params: Vec<Ty>,
    pub result: Option<Ty>,
    /// exported only (interface `sink`, no result): the guest implementation does nothing, so
    /// every owned handle among the arguments must be dropped by the bindings
    #[serde(default)]
    pub sink: bool,
}

#[derive(Clone, Debug, Hash, Serialize, Deserialize)]
pub struct Call {
    pub func: usize,
    pub params: Vec<Val>,
    /// what the import answers, hence what the export must return
    pub result: Option<Val>,
}

#[derive(Clone, Debug, Hash, Serialize, Deserialize)]
pub struct ProxyWorld {
    pub funcs: Vec<Func>,
    pub calls: Vec<Call>,
}

/// types the proxy worlds are built from (no handles, futures, streams: their own checks)
pub fn value_ty(allow_map: bool, allow_fixed: bool) -> BoxedStrategy<Ty> {
    // lists whose elements are all-bits-valid aggregates (numbers only): the generators move
    // those with a single copy when the element's layout in the guest language equals the
    // canonical one, which is a decision of its own (tuples and records of mixed widths)
    let num = prop_oneof![Just(Ty::U8), Just(Ty::S8), Just(Ty::U16), Just(Ty::S16), Just(Ty::U32), Just(Ty::S32), Just(Ty::U64), Just(Ty::S64), Just(Ty::F32), Just(Ty::F64)];
    let rec = |ts: Vec<Ty>| Ty::Record(ts.into_iter().enumerate().map(|(i, t)| (format!("m{i}"), t)).collect());
    let numagg = prop_oneof![
        3 => prop::collection::vec(num.clone(), 2..5).prop_map(Ty::Tuple),
        2 => prop::collection::vec(num.clone(), 2..5).prop_map(rec),
        2 => prop::collection::vec(prop_oneof![2 => num.clone().boxed(), 1 => prop::collection::vec(num.clone(), 2..4).prop_map(Ty::Tuple).boxed()], 2..4).prop_map(rec),
    ];
    let leaf = prop_oneof![
        4 => refabi::gen::scalar(),
        2 => Just(Ty::String),
        1 => numagg.prop_map(|t| Ty::List(Box::new(t))),
        1 => (1usize..6).prop_map(|n| Ty::Enum((0..n).map(|i| format!("e{i}")).collect())),
        1 => prop::sample::select(vec![1usize, 2, 7, 8, 9, 16, 17, 32]).prop_map(|n| Ty::Flags((0..n).map(|i| format!("b{i}")).collect())),
    ]
    .boxed();
    leaf.prop_recursive(3, 24, 4, move |inner| {
        let mut v: Vec<(u32, BoxedStrategy<Ty>)> = vec![
            (3, inner.clone().prop_map(|t| Ty::List(Box::new(t))).boxed()),
            (2, inner.clone().prop_map(|t| Ty::Option(Box::new(t))).boxed()),
            (2, (prop::option::of(inner.clone()), prop::option::of(inner.clone())).prop_map(|(a, b)| Ty::Result(a.map(Box::new), b.map(Box::new))).boxed()),
            (2, prop::collection::vec(inner.clone(), 1..4).prop_map(Ty::Tuple).boxed()),
            (3, prop::collection::vec(inner.clone(), 1..5).prop_map(|ts| Ty::Record(ts.into_iter().enumerate().map(|(i, t)| (format!("m{i}"), t)).collect())).boxed()),
            (3, prop::collection::vec(prop::option::of(inner.clone()), 1..5).prop_map(|ts| Ty::Variant(ts.into_iter().enumerate().map(|(i, t)| (format!("c{i}"), t)).collect())).boxed()),
        ];
        if allow_map {
            v.push((1, (prop_oneof![Just(Ty::String), Just(Ty::U32), Just(Ty::S8), Just(Ty::Char), Just(Ty::Bool)], inner.clone()).prop_map(|(k, t)| Ty::Map(Box::new(k), Box::new(t))).boxed()));
        }
        if allow_fixed {
            v.push((1, (inner.clone(), 1u32..4).prop_map(|(t, n)| Ty::FixedList(Box::new(t), n)).boxed()));
        }
        prop::strategy::Union::new_weighted(v)
    })
    .boxed()
}

/// does the type contain a list whose element is an aggregate of numbers only?
pub fn has_numeric_aggregate_list(t: &Ty) -> bool {
    fn numeric(t: &Ty) -> bool {
        match t {
            Ty::U8 | Ty::S8 | Ty::U16 | Ty::S16 | Ty::U32 | Ty::S32 | Ty::U64 | Ty::S64 | Ty::F32 | Ty::F64 => true,
            Ty::Tuple(ts) => ts.iter().all(numeric),
            Ty::Record(fs) => fs.iter().all(|(_, t)| numeric(t)),
            Ty::FixedList(t, _) => numeric(t),
            _ => false,
        }
    }
    match t {
        Ty::List(e) => (matches!(**e, Ty::Tuple(_) | Ty::Record(_)) && numeric(e)) || has_numeric_aggregate_list(e),
        Ty::Option(t) | Ty::FixedList(t, _) => has_numeric_aggregate_list(t),
        Ty::Map(k, v) => has_numeric_aggregate_list(k) || has_numeric_aggregate_list(v),
        Ty::Result(a, b) => a.as_deref().map(has_numeric_aggregate_list).unwrap_or(false) || b.as_deref().map(has_numeric_aggregate_list).unwrap_or(false),
        Ty::Tuple(ts) => ts.iter().any(has_numeric_aggregate_list),
        Ty::Record(fs) => fs.iter().any(|(_, t)| has_numeric_aggregate_list(t)),
        Ty::Variant(cs) => cs.iter().any(|(_, t)| t.as_ref().map(has_numeric_aggregate_list).unwrap_or(false)),
        _ => false,
    }
}

pub fn world_strategy(allow_map: bool, allow_fixed: bool) -> BoxedStrategy<ProxyWorld> {
    // The forwarding implementation passes each parameter on as `x` or `&x`. For an anonymous
    // option/result/tuple parameter the import wants references *inside* the aggregate
    // (`Option<&str>`, `(&T, &str)`), which needs a conversion the harness would have to get
    // right itself; such parameters are wrapped into a one-field record instead (the same
    // lowering code runs one level down). Results are not affected.
    let wrap = |t: Ty| match t {
        Ty::Option(_) | Ty::Result(..) | Ty::Tuple(_) | Ty::FixedList(..) => Ty::Record(vec![("w".to_string(), t)]),
        t => t,
    };
    let func = (prop::collection::vec(value_ty(allow_map, allow_fixed).prop_map(wrap), 0..5), prop::option::weighted(0.8, value_ty(allow_map, allow_fixed))).prop_map(|(params, result)| Func { params, result, sink: false });
    prop::collection::vec(func, 1..4)
        .prop_flat_map(|funcs| {
            let calls: Vec<BoxedStrategy<Call>> = funcs
                .iter()
                .enumerate()
                .flat_map(|(i, f)| {
                    let f = f.clone();
                    (0..3).map(move |_| {
                        let ps: Vec<BoxedStrategy<Val>> = f.params.iter().map(refabi::gen::val).collect();
                        let r: BoxedStrategy<Option<Val>> = match &f.result {
                            Some(t) => refabi::gen::val(t).prop_map(Some).boxed(),
                            None => Just(None).boxed(),
                        };
                        (ps, r).prop_map(move |(params, result)| Call { func: i, params, result }).boxed()
                    })
                })
                .collect();
            (Just(funcs), calls)
        })
        .prop_map(|(funcs, calls)| ProxyWorld { funcs, calls })
        .boxed()
}

pub fn has_handle(t: &Ty) -> bool {
    match t {
        Ty::Own | Ty::Borrow => true,
        Ty::List(t) | Ty::Option(t) | Ty::FixedList(t, _) => has_handle(t),
        Ty::Map(k, v) => has_handle(k) || has_handle(v),
        Ty::Record(fs) => fs.iter().any(|(_, t)| has_handle(t)),
        Ty::Tuple(ts) => ts.iter().any(has_handle),
        Ty::Variant(cs) => cs.iter().any(|(_, t)| t.as_ref().map(has_handle).unwrap_or(false)),
        Ty::Result(a, b) => a.as_deref().map(has_handle).unwrap_or(false) || b.as_deref().map(has_handle).unwrap_or(false),
        _ => false,
    }
}

/// the (handle, owned?) pairs inside a value
pub fn handles_of(v: &Val, t: &Ty, out: &mut Vec<(u32, bool)>) {
    match (t, v) {
        (Ty::Own, Val::Handle(h)) => out.push((*h, true)),
        (Ty::Borrow, Val::Handle(h)) => out.push((*h, false)),
        (Ty::List(t), Val::List(l)) | (Ty::FixedList(t, _), Val::List(l)) => l.iter().for_each(|x| handles_of(x, t, out)),
        (Ty::Option(t), Val::Option(Some(x))) => handles_of(x, t, out),
        (Ty::Record(fs), Val::Record(l)) => fs.iter().zip(l).for_each(|((_, t), x)| handles_of(x, t, out)),
        (Ty::Tuple(ts), Val::Tuple(l)) => ts.iter().zip(l).for_each(|(t, x)| handles_of(x, t, out)),
        (Ty::Variant(cs), Val::Variant(i, Some(x))) => {
            if let Some((_, Some(t))) = cs.get(*i) {
                handles_of(x, t, out)
            }
        }
        (Ty::Result(a, _), Val::Result(Ok(Some(x)))) => {
            if let Some(t) = a {
                handles_of(x, t, out)
            }
        }
        (Ty::Result(_, b), Val::Result(Err(Some(x)))) => {
            if let Some(t) = b {
                handles_of(x, t, out)
            }
        }
        (Ty::Map(k, vt), Val::Map(m)) => m.iter().for_each(|(a, b)| {
            handles_of(a, k, out);
            handles_of(b, vt, out)
        }),
        _ => {}
    }
}

/// give every handle inside `v` a fresh number
fn renumber(v: &mut Val, t: &Ty, next: &mut u32) {
    match (t, v) {
        (Ty::Own | Ty::Borrow, Val::Handle(h)) => {
            *next += 1;
            *h = *next;
        }
        (Ty::List(t), Val::List(l)) | (Ty::FixedList(t, _), Val::List(l)) => l.iter_mut().for_each(|x| renumber(x, t, next)),
        (Ty::Option(t), Val::Option(Some(x))) => renumber(x, t, next),
        (Ty::Record(fs), Val::Record(l)) => fs.iter().zip(l).for_each(|((_, t), x)| renumber(x, t, next)),
        (Ty::Tuple(ts), Val::Tuple(l)) => ts.iter().zip(l).for_each(|(t, x)| renumber(x, t, next)),
        (Ty::Variant(cs), Val::Variant(i, Some(x))) => {
            if let Some((_, Some(t))) = cs.get(*i) {
                renumber(x, t, next)
            }
        }
        (Ty::Result(a, _), Val::Result(Ok(Some(x)))) => {
            if let Some(t) = a {
                renumber(x, t, next)
            }
        }
        (Ty::Result(_, b), Val::Result(Err(Some(x)))) => {
            if let Some(t) = b {
                renumber(x, t, next)
            }
        }
        _ => {}
    }
}

/// proxy worlds over an imported resource: own/borrow handles directly and nested in records,
/// variants, options, results, lists and tuples; some functions are sinks
pub fn resource_world_strategy() -> BoxedStrategy<ProxyWorld> {
    fn ty(allow_borrow: bool) -> BoxedStrategy<Ty> {
        let leaf = if allow_borrow { prop_oneof![3 => Just(Ty::Own), 2 => Just(Ty::Borrow), 2 => refabi::gen::scalar(), 1 => Just(Ty::String)].boxed() } else { prop_oneof![3 => Just(Ty::Own), 2 => refabi::gen::scalar(), 1 => Just(Ty::String)].boxed() };
        leaf.prop_recursive(3, 16, 4, |inner| {
            prop_oneof![
                3 => inner.clone().prop_map(|t| Ty::List(Box::new(t))),
                2 => inner.clone().prop_map(|t| Ty::Option(Box::new(t))),
                2 => (prop::option::of(inner.clone()), prop::option::of(inner.clone())).prop_map(|(a, b)| Ty::Result(a.map(Box::new), b.map(Box::new))),
                2 => prop::collection::vec(inner.clone(), 1..4).prop_map(Ty::Tuple),
                3 => prop::collection::vec(inner.clone(), 1..4).prop_map(|ts| Ty::Record(ts.into_iter().enumerate().map(|(i, t)| (format!("m{i}"), t)).collect())),
                3 => prop::collection::vec(prop::option::of(inner.clone()), 1..4).prop_map(|ts| Ty::Variant(ts.into_iter().enumerate().map(|(i, t)| (format!("c{i}"), t)).collect())),
            ]
        })
        .boxed()
    }
    let wrap = |t: Ty| match t {
        Ty::Option(_) | Ty::Result(..) | Ty::Tuple(_) | Ty::FixedList(..) => Ty::Record(vec![("w".to_string(), t)]),
        t => t,
    };
    // `list<borrow<res>>` in an exported parameter does not compile (listed C09 finding): borrows
    // below a list become owned handles
    fn fix(t: Ty, under_list: bool) -> Ty {
        match t {
            Ty::Borrow if under_list => Ty::Own,
            Ty::List(t) => Ty::List(Box::new(fix(*t, true))),
            Ty::Option(t) => Ty::Option(Box::new(fix(*t, under_list))),
            Ty::Result(a, b) => Ty::Result(a.map(|t| Box::new(fix(*t, under_list))), b.map(|t| Box::new(fix(*t, under_list)))),
            Ty::Tuple(ts) => Ty::Tuple(ts.into_iter().map(|t| fix(t, under_list)).collect()),
            Ty::Record(fs) => Ty::Record(fs.into_iter().map(|(n, t)| (n, fix(t, under_list))).collect()),
            Ty::Variant(cs) => Ty::Variant(cs.into_iter().map(|(n, t)| (n, t.map(|t| fix(t, under_list)))).collect()),
            t => t,
        }
    }
    let func = (prop::collection::vec(ty(true).prop_map(|t| fix(t, false)).prop_map(wrap), 1..4), prop::option::weighted(0.7, ty(false)), prop::bool::weighted(0.35)).prop_map(|(params, result, sink)| Func { result: if sink { None } else { result }, params, sink });
    prop::collection::vec(func, 1..4)
        .prop_map(|mut funcs| {
            // at least one forwarding function and the resource mentioned somewhere
            funcs[0].sink = false;
            if !funcs.iter().any(|f| f.params.iter().chain(f.result.iter()).any(has_handle)) {
                funcs[0].params.push(Ty::Own);
            }
            funcs
        })
        .prop_flat_map(|funcs| {
            let calls: Vec<BoxedStrategy<Call>> = funcs
                .iter()
                .enumerate()
                .flat_map(|(i, f)| {
                    let f = f.clone();
                    (0..3).map(move |_| {
                        let ps: Vec<BoxedStrategy<Val>> = f.params.iter().map(refabi::gen::val).collect();
                        let r: BoxedStrategy<Option<Val>> = match &f.result {
                            Some(t) => refabi::gen::val(t).prop_map(Some).boxed(),
                            None => Just(None).boxed(),
                        };
                        (ps, r).prop_map(move |(params, result)| Call { func: i, params, result }).boxed()
                    })
                })
                .collect();
            (Just(funcs), calls)
        })
        .prop_map(|(funcs, mut calls)| {
            // distinct handle numbers everywhere (a handle index names one resource)
            let mut next = 100u32;
            for c in calls.iter_mut() {
                let f = &funcs[c.func];
                for (v, t) in c.params.iter_mut().zip(&f.params) {
                    renumber(v, t, &mut next);
                }
                if let (Some(v), Some(t)) = (c.result.as_mut(), f.result.as_ref()) {
                    renumber(v, t, &mut next);
                }
            }
            ProxyWorld { funcs, calls }
        })
        .boxed()
}

impl ProxyWorld {
    /// WIT text of the world (package v:w<k>)
    pub fn wit(&self, k: usize) -> String {
        let mut decls = vec![];
        let mut funcs = String::new();
        let mut sinks = String::new();
        for (i, f) in self.funcs.iter().enumerate() {
            let ps: Vec<String> = f.params.iter().enumerate().map(|(j, t)| format!("p{j}: {}", refabi::wit_ty(t, &mut decls))).collect();
            let r = f.result.as_ref().map(|t| format!(" -> {}", refabi::wit_ty(t, &mut decls))).unwrap_or_default();
            if f.sink {
                sinks.push_str(&format!("  s{i}: func({});\n", ps.join(", ")));
            } else {
                funcs.push_str(&format!("  f{i}: func({}){r};\n", ps.join(", ")));
            }
        }
        let has_res = self.funcs.iter().any(|f| f.params.iter().chain(f.result.iter()).any(has_handle));
        let mut names: Vec<String> = (0..decls.len()).map(|i| format!("t{i}")).collect();
        if has_res {
            names.insert(0, "res".into());
        }
        let uses = if names.is_empty() { String::new() } else { format!("  use t.{{{}}};\n", names.join(", ")) };
        let res_decl = if has_res { "  resource res { constructor(v: u32); get: func() -> u32; }\n" } else { "" };
        let sink_iface = if sinks.is_empty() { String::new() } else { format!("interface sink {{\n{uses}{sinks}}}\n") };
        let sink_export = if sinks.is_empty() { "" } else { "  export sink;\n" };
        format!("package v:w{k};\ninterface t {{\n{res_decl}{}}}\ninterface api {{\n{uses}{funcs}}}\n{sink_iface}world w {{\n  import api;\n  export api;\n{sink_export}}}\n", decls.iter().map(|d| format!("  {d}\n")).collect::<String>())
    }

    pub fn flat_params(&self, f: usize) -> Vec<Flat> {
        self.funcs[f].params.iter().flat_map(|t| ABI.flatten(t)).collect()
    }
    pub fn flat_result(&self, f: usize) -> Vec<Flat> {
        self.funcs[f].result.as_ref().map(|t| ABI.flatten(t)).unwrap_or_default()
    }
    /// core export name of function `f` (package v:w)
    pub fn export_name(&self, f: usize) -> String {
        if self.funcs[f].sink {
            format!("v:w/sink#s{f}")
        } else {
            format!("v:w/api#f{f}")
        }
    }
    pub fn needs_post_return(&self, f: usize) -> bool {
        self.funcs[f].result.as_ref().map(refabi::has_heap).unwrap_or(false)
    }
}

pub fn rust_flat(f: Flat) -> &'static str {
    match f {
        Flat::I32 => "i32",
        Flat::I64 => "i64",
        Flat::F32 => "f32",
        Flat::F64 => "f64",
    }
}

/// expression unpacking slot `i` of the u64 argument array into flat type `f`
pub fn unpack(f: Flat, i: usize) -> String {
    match f {
        Flat::I32 => format!("a[{i}] as u32 as i32"),
        Flat::I64 => format!("a[{i}] as i64"),
        Flat::F32 => format!("f32::from_bits(a[{i}] as u32)"),
        Flat::F64 => format!("f64::from_bits(a[{i}])"),
    }
}

pub fn pack(f: Flat, e: &str) -> String {
    match f {
        Flat::I32 => format!("({e}) as u32 as u64"),
        Flat::I64 => format!("({e}) as u64"),
        Flat::F32 => format!("({e}).to_bits() as u64"),
        Flat::F64 => format!("({e}).to_bits()"),
    }
}

// ---------------------------------------------------------------- Rust member

pub const RUST_GLUE_HEAD: &str = r#"#![allow(warnings)]
use std::alloc::{GlobalAlloc, Layout, System};
use std::cell::{Cell, RefCell};
use std::collections::BTreeMap;

pub struct Track;
thread_local! {
    static BUSY: Cell<bool> = const { Cell::new(false) };
    static LIVE: RefCell<BTreeMap<usize, usize>> = const { RefCell::new(BTreeMap::new()) };
    static ERRS: Cell<u64> = const { Cell::new(0) };
    static TOTAL: Cell<u64> = const { Cell::new(0) };
}
fn tracked(f: impl FnOnce()) {
    if !BUSY.try_with(|b| b.get()).unwrap_or(true) {
        let _ = BUSY.try_with(|b| b.set(true));
        f();
        let _ = BUSY.try_with(|b| b.set(false));
    }
}
unsafe impl GlobalAlloc for Track {
    unsafe fn alloc(&self, l: Layout) -> *mut u8 {
        let p = System.alloc(l);
        tracked(|| { let _ = LIVE.try_with(|m| m.borrow_mut().insert(p as usize, l.size())); let _ = TOTAL.try_with(|t| t.set(t.get() + 1)); });
        p
    }
    unsafe fn dealloc(&self, p: *mut u8, l: Layout) {
        let mut ok = true;
        tracked(|| { let _ = LIVE.try_with(|m| { match m.borrow_mut().remove(&(p as usize)) { Some(s) if s == l.size() => {}, _ => { ok = false; } } }); });
        if !ok {
            // double free, free of a foreign pointer or with the wrong size: count it and keep the
            // process alive by not handing the block to the system allocator
            let _ = ERRS.try_with(|e| e.set(e.get() + 1));
            return;
        }
        System.dealloc(p, l)
    }
    unsafe fn realloc(&self, p: *mut u8, l: Layout, n: usize) -> *mut u8 {
        let mut ok = true;
        tracked(|| { let _ = LIVE.try_with(|m| { match m.borrow_mut().remove(&(p as usize)) { Some(s) if s == l.size() => {}, _ => { ok = false; } } }); });
        if !ok {
            let _ = ERRS.try_with(|e| e.set(e.get() + 1));
            let np = System.alloc(Layout::from_size_align_unchecked(n.max(1), l.align()));
            tracked(|| { let _ = LIVE.try_with(|m| m.borrow_mut().insert(np as usize, n)); });
            return np;
        }
        let np = System.realloc(p, l, n);
        tracked(|| { let _ = LIVE.try_with(|m| m.borrow_mut().insert(np as usize, n)); });
        np
    }
}
#[global_allocator]
static A: Track = Track;

#[no_mangle]
pub unsafe extern "C" fn __verif_stats(out: *mut u64) {
    BUSY.with(|b| b.set(true));
    let (n, bytes) = LIVE.with(|m| { let m = m.borrow(); (m.len() as u64, m.values().map(|v| *v as u64).sum::<u64>()) });
    BUSY.with(|b| b.set(false));
    *out = n;
    *out.add(1) = bytes;
    *out.add(2) = ERRS.with(|e| e.get());
    *out.add(3) = TOTAL.with(|e| e.get());
}
/// (address, size) of up to `max` live blocks
#[no_mangle]
pub unsafe extern "C" fn __verif_dump(out: *mut u64, max: usize) -> usize {
    BUSY.with(|b| b.set(true));
    let n = LIVE.with(|m| {
        let m = m.borrow();
        for (i, (a, s)) in m.iter().take(max).enumerate() {
            *out.add(2 * i) = *a as u64;
            *out.add(2 * i + 1) = *s as u64;
        }
        m.len().min(max)
    });
    BUSY.with(|b| b.set(false));
    n
}
#[no_mangle]
pub unsafe extern "C" fn __verif_is_live(p: usize, n: usize) -> u32 {
    BUSY.with(|b| b.set(true));
    let r = LIVE.with(|m| m.borrow().range(..=p).next_back().map(|(a, s)| p + n <= a + s).unwrap_or(false));
    BUSY.with(|b| b.set(false));
    r as u32
}

pub type HostFn = unsafe extern "C" fn(id: u32, args: *const u64, nargs: usize, ret: *mut u64);
static mut HOST: Option<HostFn> = None;
#[no_mangle]
pub unsafe extern "C" fn __verif_set_host(f: HostFn) {
    HOST = Some(f);
}
pub unsafe fn host_call(id: u32, args: &[u64]) -> u64 {
    let mut r = 0u64;
    (HOST.expect("host callback set"))(id, args.as_ptr(), args.len(), &mut r);
    r
}
#[no_mangle]
pub unsafe extern "C" fn __verif_realloc(old: *mut u8, old_size: usize, align: usize, new_size: usize) -> *mut u8 {
    wit_bindgen::rt::cabi_realloc(old, old_size, align, new_size)
}

mod b;
"#;

/// text up to the `)` that closes a list whose `(` was just consumed
pub fn balanced(s: &str) -> Option<&str> {
    let mut depth = 1;
    for (i, c) in s.char_indices() {
        match c {
            '(' => depth += 1,
            ')' => {
                depth -= 1;
                if depth == 0 {
                    return Some(&s[..i]);
                }
            }
            _ => {}
        }
    }
    None
}

/// split at commas that are not nested in (), <> or []
pub fn split_top(s: &str) -> Vec<String> {
    let (mut depth, mut cur, mut out) = (0i32, String::new(), vec![]);
    let cs: Vec<char> = s.chars().collect();
    for (i, c) in cs.iter().enumerate() {
        match c {
            '(' | '<' | '[' => depth += 1,
            ')' | ']' => depth -= 1,
            // `->` is not a closing bracket
            '>' if i > 0 && cs[i - 1] != '-' => depth -= 1,
            ',' if depth == 0 => {
                if !cur.trim().is_empty() {
                    out.push(cur.trim().to_string());
                }
                cur.clear();
                continue;
            }
            _ => {}
        }
        cur.push(*c);
    }
    if !cur.trim().is_empty() {
        out.push(cur.trim().to_string());
    }
    out
}

/// `_: i32, _: *mut u8, ` -> list of type texts
pub fn split_params(p: &str) -> Vec<String> {
    p.split(',').map(|x| x.trim()).filter(|x| !x.is_empty()).map(|x| x.split_once(':').map(|y| y.1.trim().to_string()).unwrap_or_else(|| x.to_string())).collect()
}

pub fn pack_rust_ty(ty: &str, e: &str) -> String {
    match ty {
        "i32" => format!("{e} as u32 as u64"),
        "i64" => format!("{e} as u64"),
        "f32" => format!("{e}.to_bits() as u64"),
        "f64" => format!("{e}.to_bits()"),
        "usize" => format!("{e} as u64"),
        t if t.starts_with("*mut") || t.starts_with("*const") => format!("{e} as usize as u64"),
        t if t.contains("MaybeUninit") => format!("::core::mem::transmute::<_, u64>({e})"),
        other => format!("compile_error!(\"unknown flat type {other}\")"),
    }
}

pub fn unpack_rust_ty(ty: &str, e: &str) -> String {
    match ty {
        "i32" => format!("{e} as u32 as i32"),
        "i64" => format!("{e} as i64"),
        "f32" => format!("f32::from_bits({e} as u32)"),
        "f64" => format!("f64::from_bits({e})"),
        "usize" => format!("{e} as usize"),
        t if t.starts_with("*mut") || t.starts_with("*const") => format!("{e} as usize as {t}"),
        t if t.contains("MaybeUninit") => format!("::core::mem::transmute::<u64, _>({e})"),
        other => format!("compile_error!(\"unknown flat type {other}\")"),
    }
}

/// Rewrite the native `unreachable!()` stand-ins of the import declarations into calls of the
/// host callback and the `--stubs` bodies into forwarding calls. Returns the patched text and
/// the import table (module, name) in id order.
pub fn patch_rust_bindings(text: &str, funcs: &[Func]) -> Result<(String, Vec<(String, String)>), String> {
    patch_rust_bindings_with(text, funcs, false)
}

/// `probe`: the forwarding implementation also reports a digest of what it received (8000 + i:
/// parameters of f<i>, 8500 + i: the value its import returned)
pub fn patch_rust_bindings_with(text: &str, funcs: &[Func], probe: bool) -> Result<(String, Vec<(String, String)>), String> {
    let re = regex::Regex::new(
        r#"#\[link\(wasm_import_module = "([^"]+)"\)\]\s*unsafe extern "C" \{\s*#\[link_name = "([^"]+)"\]\s*fn (\w+)\(([^)]*)\)\s*(?:->\s*([^;]+))?;\s*\}\s*#\[cfg\(not\(target_arch = "wasm32"\)\)\]\s*unsafe extern "C" fn (\w+)\(([^)]*)\)\s*(?:->\s*([^\{]+))?\{\s*unreachable!\(\)\s*\}"#,
    )
    .unwrap();
    let mut table: Vec<(String, String)> = vec![];
    let mut err = None;
    let out = re
        .replace_all(text, |c: &regex::Captures| {
            let (module, name, fname) = (c[1].to_string(), c[2].to_string(), c[3].to_string());
            if c[3] != c[6] {
                err = Some(format!("import declaration {fname} is followed by a stand-in for {}", &c[6]));
            }
            let params = split_params(&c[4]);
            let ret = c.get(5).map(|m| m.as_str().trim().to_string());
            let id = table.len();
            table.push((module.clone(), name.clone()));
            let decl: Vec<String> = params.iter().enumerate().map(|(i, t)| format!("a{i}: {t}")).collect();
            let packed: Vec<String> = params.iter().enumerate().map(|(i, t)| pack_rust_ty(t, &format!("a{i}"))).collect();
            let body = match &ret {
                Some(t) => unpack_rust_ty(t, &format!("crate::host_call({id}, &[{}])", packed.join(", "))),
                None => format!("{{ crate::host_call({id}, &[{}]); }}", packed.join(", ")),
            };
            format!(
                "#[link(wasm_import_module = \"{module}\")]\nunsafe extern \"C\" {{\n#[link_name = \"{name}\"]\nfn {fname}({});\n}}\n#[cfg(not(target_arch = \"wasm32\"))]\nunsafe extern \"C\" fn {fname}({}){} {{ {body} }}",
                &c[4],
                decl.join(", "),
                ret.as_ref().map(|t| format!(" -> {t}")).unwrap_or_default()
            )
        })
        .to_string();
    if let Some(e) = err {
        return Err(e);
    }
    // import wrapper signatures: which parameters are passed by reference
    let mut out = out;
    for (i, f) in funcs.iter().enumerate() {
        if f.sink {
            // exported only: the implementation does nothing with its arguments
            let skey = format!("  fn s{i}(");
            let Some(sat) = out.find(&skey) else { return Err(format!("no `--stubs` method s{i} in the bindings")) };
            const BODY: &str = "{ unreachable!() }";
            let Some(bat) = out[sat..].find(BODY) else { return Err(format!("no `--stubs` body for s{i}")) };
            let bat = sat + bat;
            if out[sat..bat].contains("\n  fn ") {
                return Err(format!("the `--stubs` method s{i} has no `unreachable!()` body"));
            }
            out.replace_range(bat..bat + BODY.len(), "{ }");
            continue;
        }
        // the import wrapper `pub fn f<i>(name: type, ..)`: which arguments go by reference
        let key = format!("pub fn f{i}(");
        let Some(at) = out.find(&key) else { return Err(format!("no import wrapper `pub fn f{i}` in the bindings")) };
        let params = balanced(&out[at + key.len()..]).ok_or_else(|| format!("unbalanced parameter list of import wrapper f{i}"))?;
        let args: Vec<String> = split_top(params)
            .into_iter()
            .map(|x| {
                let (n, t) = x.split_once(':').unwrap_or((x.as_str(), ""));
                if t.trim().starts_with('&') {
                    format!("&{}", n.trim())
                } else {
                    n.trim().to_string()
                }
            })
            .collect();
        // the `--stubs` method of the same name: the first `fn f<i>(` of the file
        let skey = format!("  fn f{i}(");
        let Some(sat) = out.find(&skey) else { return Err(format!("no `--stubs` method f{i} in the bindings")) };
        if sat > at {
            return Err(format!("the `--stubs` method f{i} does not precede the import wrapper"));
        }
        const BODY: &str = "{ unreachable!() }";
        let Some(bat) = out[sat..].find(BODY) else { return Err(format!("no `--stubs` body for f{i}")) };
        let bat = sat + bat;
        if out[sat..bat].contains("\n  fn ") {
            return Err(format!("the `--stubs` method f{i} has no `unreachable!()` body"));
        }
        let call = format!("v::w::api::f{i}({})", args.join(", "));
        let body = if probe {
            let refs: String = args.iter().map(|a| format!("&{}, ", a.trim_start_matches('&'))).collect();
            format!("{{ crate::probe_report({}, &({refs})); let r = {call}; crate::probe_report({}, &r); r }}", 8000 + i, 8500 + i)
        } else {
            format!("{{ {call} }}")
        };
        out.replace_range(bat..bat + BODY.len(), &body);
    }
    Ok((out, table))
}

// ---------------------------------------------------------------- value probes
//
// A forwarding guest never looks at the values it passes on, so a lift and a lower that are
// wrong in the same way (a list reinterpreted with the guest language's own layout on both
// sides) cancel out. With probes the guest implementation walks the value it received through
// the generated *Rust types* (fields, cases, elements) and reports a digest; the host computes the
// same digest from the value it sent.

/// guest side: digest trait and its implementations for everything but the named types
pub const PROBE_GLUE: &str = r#"
pub struct H(pub u64);
impl H {
    pub fn new() -> H { H(0xcbf29ce484222325) }
    pub fn add(&mut self, x: u64) { self.0 = (self.0 ^ x).wrapping_mul(0x100000001b3); }
}
pub trait Probe { fn probe(&self, h: &mut H); }
macro_rules! probe_int { ($($t:ty),*) => { $(impl Probe for $t { fn probe(&self, h: &mut H) { h.add(*self as i64 as u64) } })* } }
probe_int!(u8, u16, u32, u64, i8, i16, i32, i64);
impl Probe for bool { fn probe(&self, h: &mut H) { h.add(*self as u64) } }
impl Probe for char { fn probe(&self, h: &mut H) { h.add(*self as u32 as u64) } }
impl Probe for f32 { fn probe(&self, h: &mut H) { h.add(if self.is_nan() { 0x7fc0_0000 } else { self.to_bits() as u64 }) } }
impl Probe for f64 { fn probe(&self, h: &mut H) { h.add(if self.is_nan() { 0x7ff8_0000_0000_0000 } else { self.to_bits() }) } }
impl Probe for () { fn probe(&self, _: &mut H) {} }
impl Probe for str { fn probe(&self, h: &mut H) { h.add(self.len() as u64); for b in self.bytes() { h.add(b as u64) } } }
impl Probe for String { fn probe(&self, h: &mut H) { self.as_str().probe(h) } }
impl<T: Probe + ?Sized> Probe for &T { fn probe(&self, h: &mut H) { (**self).probe(h) } }
impl<T: Probe> Probe for [T] { fn probe(&self, h: &mut H) { h.add(self.len() as u64); for x in self { x.probe(h) } } }
impl<T: Probe> Probe for Vec<T> { fn probe(&self, h: &mut H) { self.as_slice().probe(h) } }
impl<T: Probe, const N: usize> Probe for [T; N] { fn probe(&self, h: &mut H) { self.as_slice().probe(h) } }
impl<T: Probe> Probe for Option<T> { fn probe(&self, h: &mut H) { match self { None => h.add(0), Some(x) => { h.add(1); x.probe(h) } } } }
impl<T: Probe, E: Probe> Probe for Result<T, E> { fn probe(&self, h: &mut H) { match self { Ok(x) => { h.add(0); x.probe(h) } Err(x) => { h.add(1); x.probe(h) } } } }
macro_rules! probe_tuple { ($($n:ident),*) => { impl<$($n: Probe),*> Probe for ($($n,)*) { #[allow(non_snake_case)] fn probe(&self, h: &mut H) { let ($($n,)*) = self; $($n.probe(h);)* } } } }
probe_tuple!(Pa);
probe_tuple!(Pa, Pb);
probe_tuple!(Pa, Pb, Pc);
probe_tuple!(Pa, Pb, Pc, Pd);
probe_tuple!(Pa, Pb, Pc, Pd, Pe);
fn probe_entries<'a, K: Probe + 'a, V: Probe + 'a>(n: usize, it: impl Iterator<Item = (&'a K, &'a V)>, h: &mut H) {
    // a map is a set of entries: the digest does not depend on their order
    let mut acc = 0u64;
    for (k, v) in it { let mut e = H::new(); k.probe(&mut e); v.probe(&mut e); acc = acc.wrapping_add(e.0); }
    h.add(n as u64);
    h.add(acc);
}
impl<K: Probe, V: Probe> Probe for std::collections::BTreeMap<K, V> { fn probe(&self, h: &mut H) { probe_entries(self.len(), self.iter(), h) } }
impl<K: Probe, V: Probe, S> Probe for std::collections::HashMap<K, V, S> { fn probe(&self, h: &mut H) { probe_entries(self.len(), self.iter(), h) } }
pub fn probe_report<T: Probe>(id: u32, v: &T) { let mut h = H::new(); v.probe(&mut h); unsafe { host_call(id, &[h.0]); } }
"#;

/// guest side: `Probe` for the named types of the world (same naming walk as `ProxyWorld::wit`)
pub fn probe_impls(w: &ProxyWorld) -> String {
    fn go(t: &Ty, n: &mut usize, out: &mut String) {
        match t {
            Ty::List(t) | Ty::FixedList(t, _) | Ty::Option(t) => go(t, n, out),
            Ty::Map(k, v) => {
                go(k, n, out);
                go(v, n, out);
            }
            Ty::Tuple(ts) => ts.iter().for_each(|t| go(t, n, out)),
            Ty::Result(a, b) => {
                a.iter().for_each(|t| go(t, n, out));
                b.iter().for_each(|t| go(t, n, out));
            }
            Ty::Record(fs) => {
                fs.iter().for_each(|(_, t)| go(t, n, out));
                let body: String = fs.iter().map(|(f, _)| format!("self.{f}.probe(h); ")).collect();
                out.push_str(&format!("impl Probe for b::v::w::t::T{n} {{ fn probe(&self, h: &mut H) {{ {body}}} }}\n"));
                *n += 1;
            }
            Ty::Variant(cs) => {
                cs.iter().for_each(|(_, t)| t.iter().for_each(|t| go(t, n, out)));
                let arms: String = cs
                    .iter()
                    .enumerate()
                    .map(|(i, (c, t))| {
                        let c = heck::ToUpperCamelCase::to_upper_camel_case(c.as_str());
                        if t.is_some() {
                            format!("Self::{c}(x) => {{ h.add({i}); x.probe(h); }} ")
                        } else {
                            format!("Self::{c} => h.add({i}), ")
                        }
                    })
                    .collect();
                out.push_str(&format!("impl Probe for b::v::w::t::T{n} {{ fn probe(&self, h: &mut H) {{ match self {{ {arms}}} }} }}\n"));
                *n += 1;
            }
            Ty::Enum(cs) => {
                let arms: String = cs.iter().enumerate().map(|(i, c)| format!("Self::{} => h.add({i}), ", heck::ToUpperCamelCase::to_upper_camel_case(c.as_str()))).collect();
                out.push_str(&format!("impl Probe for b::v::w::t::T{n} {{ fn probe(&self, h: &mut H) {{ match self {{ {arms}}} }} }}\n"));
                *n += 1;
            }
            Ty::Flags(_) => {
                out.push_str(&format!("impl Probe for b::v::w::t::T{n} {{ fn probe(&self, h: &mut H) {{ h.add(self.bits() as u64) }} }}\n"));
                *n += 1;
            }
            _ => {}
        }
    }
    let (mut n, mut out) = (0, String::new());
    for f in &w.funcs {
        f.params.iter().chain(f.result.iter()).for_each(|t| go(t, &mut n, &mut out));
    }
    out
}

/// host side: the digest of a value, mirroring the guest's walk
pub fn probe_digest(items: &[(&Ty, &Val)]) -> u64 {
    struct H(u64);
    impl H {
        fn add(&mut self, x: u64) {
            self.0 = (self.0 ^ x).wrapping_mul(0x100000001b3);
        }
    }
    fn go(t: &Ty, v: &Val, h: &mut H) {
        match (t, v) {
            (_, Val::Bool(b)) => h.add(*b as u64),
            (_, Val::U8(x)) => h.add(*x as u64),
            (_, Val::U16(x)) => h.add(*x as u64),
            (_, Val::U32(x)) => h.add(*x as u64),
            (_, Val::U64(x)) => h.add(*x),
            (_, Val::S8(x)) => h.add(*x as i64 as u64),
            (_, Val::S16(x)) => h.add(*x as i64 as u64),
            (_, Val::S32(x)) => h.add(*x as i64 as u64),
            (_, Val::S64(x)) => h.add(*x as u64),
            (_, Val::F32(b)) => h.add(if f32::from_bits(*b).is_nan() { 0x7fc0_0000 } else { *b as u64 }),
            (_, Val::F64(b)) => h.add(if f64::from_bits(*b).is_nan() { 0x7ff8_0000_0000_0000 } else { *b }),
            (_, Val::Char(c)) => h.add(*c as u32 as u64),
            (_, Val::Str(s)) => {
                h.add(s.len() as u64);
                s.bytes().for_each(|b| h.add(b as u64));
            }
            (Ty::List(t) | Ty::FixedList(t, _), Val::List(l)) => {
                h.add(l.len() as u64);
                l.iter().for_each(|x| go(t, x, h));
            }
            (Ty::Map(k, t), Val::Map(m)) => {
                let mut acc = 0u64;
                for (a, b) in m {
                    let mut e = H(0xcbf29ce484222325);
                    go(k, a, &mut e);
                    go(t, b, &mut e);
                    acc = acc.wrapping_add(e.0);
                }
                h.add(m.len() as u64);
                h.add(acc);
            }
            (Ty::Record(fs), Val::Record(l)) => fs.iter().zip(l).for_each(|((_, t), x)| go(t, x, h)),
            (Ty::Tuple(ts), Val::Tuple(l)) => ts.iter().zip(l).for_each(|(t, x)| go(t, x, h)),
            (Ty::Variant(cs), Val::Variant(i, p)) => {
                h.add(*i as u64);
                if let (Some(t), Some(p)) = (&cs[*i].1, p) {
                    go(t, p, h);
                }
            }
            (_, Val::Enum(i)) => h.add(*i as u64),
            (Ty::Option(t), Val::Option(p)) => match p {
                None => h.add(0),
                Some(p) => {
                    h.add(1);
                    go(t, p, h);
                }
            },
            (Ty::Result(a, b), Val::Result(r)) => match r {
                Ok(p) => {
                    h.add(0);
                    if let (Some(t), Some(p)) = (a, p) {
                        go(t, p, h);
                    }
                }
                Err(p) => {
                    h.add(1);
                    if let (Some(t), Some(p)) = (b, p) {
                        go(t, p, h);
                    }
                }
            },
            (_, Val::Flags(bits)) => h.add(bits.iter().enumerate().map(|(i, b)| (*b as u64) << i).sum()),
            (t, v) => panic!("probe digest: value {v:?} does not have type {t:?}"),
        }
    }
    let mut h = H(0xcbf29ce484222325);
    for (t, v) in items {
        go(t, v, &mut h);
    }
    h.0
}

/// export trampolines of the Rust glue
fn rust_trampolines(w: &ProxyWorld, pkg: &str) -> String {
    let mut s = String::from("extern \"C\" {\n");
    for i in 0..w.funcs.len() {
        let ps = export_flat_params(w, i);
        let rs = export_flat_result(w, i);
        let decl: Vec<String> = ps.iter().enumerate().map(|(k, f)| format!("a{k}: {}", rust_flat(*f))).collect();
        let ret = rs.map(|f| format!(" -> {}", rust_flat(f))).unwrap_or_default();
        let ename = w.export_name(i);
        s.push_str(&format!("    #[link_name = \"{ename}\"]\n    fn __e{i}({}){ret};\n", decl.join(", ")));
        if w.needs_post_return(i) {
            s.push_str(&format!("    #[link_name = \"cabi_post_{ename}\"]\n    fn __p{i}(a0: {});\n", rust_flat(rs.unwrap())));
        }
        let _ = pkg;
    }
    s.push_str("}\n");
    for i in 0..w.funcs.len() {
        let ps = export_flat_params(w, i);
        let rs = export_flat_result(w, i);
        let args: Vec<String> = ps.iter().enumerate().map(|(k, f)| unpack(*f, k)).collect();
        let call = format!("__e{i}({})", args.join(", "));
        let body = match rs {
            Some(f) => format!("*ret = {};", pack(f, &call)),
            None => format!("{call};"),
        };
        s.push_str(&format!("#[no_mangle]\npub unsafe extern \"C\" fn __verif_export_{i}(args: *const u64, ret: *mut u64) {{ let a = std::slice::from_raw_parts(args, {}); {body} }}\n", ps.len().max(1)));
        if w.needs_post_return(i) {
            s.push_str(&format!("#[no_mangle]\npub unsafe extern \"C\" fn __verif_post_{i}(args: *const u64) {{ let a = std::slice::from_raw_parts(args, 1); __p{i}({}); }}\n", unpack(rs.unwrap(), 0)));
        }
    }
    s
}

/// core signature of an export: parameters beyond 16 flats go through memory
pub fn export_flat_params(w: &ProxyWorld, f: usize) -> Vec<Flat> {
    let ps = w.flat_params(f);
    if ps.len() > 16 {
        vec![Flat::I64]
    } else {
        ps
    }
}
/// more than one flat result is returned through a pointer
pub fn export_flat_result(w: &ProxyWorld, f: usize) -> Option<Flat> {
    let rs = w.flat_result(f);
    match rs.len() {
        0 => None,
        1 => Some(rs[0]),
        _ => Some(Flat::I64),
    }
}

pub struct Member {
    pub world: ProxyWorld,
    pub wit: String,
    pub variant: String,
    /// files of the member crate (lib.rs glue, b.rs bindings) or the reason it has none
    pub sources: Result<Vec<(String, String)>, String>,
    pub imports: Vec<(String, String)>,
    /// link the guest crate with the async runtime (`async` feature)
    pub async_rt: bool,
}

pub const WS: &str = "/verif/target/execws";
pub const TARGET: &str = "/verif/target/exec";

/// prepare the Rust member for world `k`
pub fn rust_member(k: usize, world: &ProxyWorld, variant: &str, args: &[&str]) -> Member {
    rust_member_probed(k, world, variant, args, false)
}

/// `probe`: the forwarding implementation reports digests of the values it sees (see
/// `PROBE_GLUE`); not for option sets that rename or merge the named types
pub fn rust_member_probed(k: usize, world: &ProxyWorld, variant: &str, args: &[&str], probe: bool) -> Member {
    use crate::backends::{self, GenOutcome, Input};
    // the package is always v:w (one world per shared object)
    let wit = world.wit(0).replace("package v:w0;", "package v:w;");
    let _ = k;
    let mut m = Member { world: world.clone(), wit: wit.clone(), variant: variant.to_string(), sources: Err(String::new()), imports: vec![], async_rt: false };
    let (resolve, wid) = match backends::resolve_input(&Input::Text(&wit), Some("w")) {
        Ok(x) => x,
        Err(e) => {
            m.sources = Err(format!("harness: proxy world does not parse: {e:#}"));
            return m;
        }
    };
    let tmp = tempfile::tempdir().unwrap();
    let mut all: Vec<&str> = vec!["--generate-all", "--stubs"];
    all.extend(args.iter().copied());
    let files = match backends::generate("rust", &all, &resolve, wid, Some(tmp.path())) {
        GenOutcome::Files(f) => f,
        GenOutcome::Error(e) => {
            m.sources = Err(format!("generator error: {e}"));
            return m;
        }
        GenOutcome::Panic(p) => {
            m.sources = Err(format!("generator panic: {}", p.render()));
            return m;
        }
    };
    let Some((_, b)) = files.iter().find(|(n, _)| n.ends_with(".rs")) else {
        m.sources = Err("no .rs output".into());
        return m;
    };
    let text = String::from_utf8_lossy(b).to_string();
    match patch_rust_bindings_with(&text, &world.funcs, probe) {
        Ok((patched, table)) => {
            let mut glue = format!("{RUST_GLUE_HEAD}\n{}", rust_trampolines(world, "v:w"));
            if probe {
                glue.push_str(PROBE_GLUE);
                glue.push_str(&probe_impls(world));
            }
            m.imports = table;
            m.sources = Ok(vec![("lib.rs".into(), glue), ("b.rs".into(), patched)]);
        }
        Err(e) => m.sources = Err(format!("harness: cannot adapt the bindings for native execution: {e}")),
    }
    m
}

/// build all Rust members with one cargo invocation; returns per member the path of its .so or
/// the compiler output
pub fn build_rust(members: &[Member]) -> Vec<Result<PathBuf, String>> {
    let ws = Path::new(WS);
    let _ = std::fs::remove_dir_all(ws);
    std::fs::create_dir_all(ws).unwrap();
    let names: Vec<String> = (0..members.len()).map(|i| format!("x{i}")).collect();
    let have: Vec<&String> = names.iter().zip(members).filter(|(_, m)| m.sources.is_ok()).map(|(n, _)| n).collect();
    std::fs::write(
        ws.join("Cargo.toml"),
        format!("[workspace]\nresolver = \"2\"\nmembers = [{}]\n[profile.dev]\nopt-level = 0\ndebug = 0\nincremental = false\npanic = \"abort\"\n", have.iter().map(|n| format!("\"{n}\"")).collect::<Vec<_>>().join(", ")),
    )
    .unwrap();
    let _ = std::fs::copy("/repo/Cargo.lock", ws.join("Cargo.lock"));
    for (n, m) in names.iter().zip(members) {
        let Ok(srcs) = &m.sources else { continue };
        let d = ws.join(n);
        std::fs::create_dir_all(d.join("src")).unwrap();
        std::fs::write(
            d.join("Cargo.toml"),
            format!("[package]\nname = \"{n}\"\nversion = \"0.0.0\"\nedition = \"2021\"\n[lib]\ncrate-type = [\"staticlib\"]\n[dependencies]\nwit-bindgen = {{ path = \"/repo/crates/guest-rust\", default-features = false, features = [\"realloc\", \"std\", \"bitflags\"{}] }}\n", if m.async_rt { ", \"async\"" } else { "" }),
        )
        .unwrap();
        for (f, text) in srcs {
            std::fs::write(d.join("src").join(f), text).unwrap();
        }
    }
    let mut results: Vec<Result<PathBuf, String>> = vec![];
    if !have.is_empty() {
        let run = |pkg: Option<&str>| {
            let mut c = std::process::Command::new("cargo");
            c.args(["build", "--offline", "--keep-going", "--manifest-path"]).arg(ws.join("Cargo.toml")).arg("--target-dir").arg(TARGET).env("CARGO_NET_OFFLINE", "true").env("RUSTFLAGS", "--cfg bytecodealliance_wit_bindgen_verif -Awarnings");
            if let Some(p) = pkg {
                c.args(["-p", p]);
            }
            c.output().unwrap_or_else(|e| vcommon::harness_error(format!("cannot run cargo: {e}")))
        };
        let _ = run(None);
        // a static library per member; the shared object is linked by hand because the export
        // names of the component model (`v:w/api#f0`) are not accepted by rustc's version script
        let link = |n: &str| -> Result<PathBuf, String> {
            let a = PathBuf::from(TARGET).join(format!("debug/lib{n}.a"));
            let so = ws.join(format!("lib{n}.so"));
            let o = std::process::Command::new("cc")
                .args(["-shared", "-o"])
                .arg(&so)
                .arg("-Wl,--whole-archive")
                .arg(&a)
                .args(["-Wl,--no-whole-archive", "-lpthread", "-ldl", "-lm", "-lgcc_s"])
                .output()
                .map_err(|e| format!("harness: cannot run cc: {e}"))?;
            if o.status.success() {
                Ok(so)
            } else {
                Err(format!("error: linking the guest object failed\n{}", String::from_utf8_lossy(&o.stderr).lines().take(8).collect::<Vec<_>>().join("\n")))
            }
        };
        use rayon::prelude::*;
        let stamp = ws.join("Cargo.toml").metadata().and_then(|x| x.modified()).ok();
        results = names
            .par_iter()
            .zip(members.par_iter())
            .map(|(n, m)| {
                if let Err(e) = &m.sources {
                    return Err(e.clone());
                }
                let a = PathBuf::from(TARGET).join(format!("debug/lib{n}.a"));
                let fresh = a.metadata().and_then(|x| x.modified()).ok().zip(stamp).map(|(a, b)| a >= b).unwrap_or(false);
                if fresh {
                    return link(n);
                }
                // rebuild this member alone to get its diagnostics
                let o = run(Some(n));
                if o.status.success() && a.exists() {
                    return link(n);
                }
                let e = String::from_utf8_lossy(&o.stderr).to_string();
                Err(e.lines().filter(|l| l.starts_with("error") || l.trim_start().starts_with("-->")).take(8).collect::<Vec<_>>().join("\n"))
            })
            .collect();
    } else {
        for m in members {
            results.push(Err(m.sources.clone().err().unwrap_or_default()));
        }
    }
    results
}

// ---------------------------------------------------------------- dynamic loading

extern "C" {
    fn dlopen(path: *const std::ffi::c_char, flags: i32) -> *mut std::ffi::c_void;
    fn dlsym(h: *mut std::ffi::c_void, name: *const std::ffi::c_char) -> *mut std::ffi::c_void;
    fn dlclose(h: *mut std::ffi::c_void) -> i32;
    fn dlerror() -> *const std::ffi::c_char;
}

pub struct Lib {
    h: *mut std::ffi::c_void,
}

impl Lib {
    pub fn open(p: &Path) -> Result<Lib, String> {
        // dlclose does not unload an object that registered thread-local destructors, and
        // dlopen of a path it has seen before hands the old object out again: every load goes
        // through a name of its own, so that a rebuilt object at the same path is really loaded
        static LOADS: std::sync::atomic::AtomicU64 = std::sync::atomic::AtomicU64::new(0);
        let n = LOADS.fetch_add(1, std::sync::atomic::Ordering::Relaxed);
        let unique = p.with_extension(format!("{}-{n}.so", std::process::id()));
        std::fs::copy(p, &unique).map_err(|e| format!("copying {}: {e}", p.display()))?;
        let c = std::ffi::CString::new(unique.to_string_lossy().as_bytes()).unwrap();
        // RTLD_NOW | RTLD_LOCAL
        let h = unsafe { dlopen(c.as_ptr(), 2) };
        let _ = std::fs::remove_file(&unique);
        if h.is_null() {
            let e = unsafe { std::ffi::CStr::from_ptr(dlerror()) }.to_string_lossy().to_string();
            return Err(e);
        }
        Ok(Lib { h })
    }
    pub fn sym(&self, name: &str) -> Option<*mut std::ffi::c_void> {
        let c = std::ffi::CString::new(name).unwrap();
        let p = unsafe { dlsym(self.h, c.as_ptr()) };
        if p.is_null() {
            None
        } else {
            Some(p)
        }
    }
}
impl Drop for Lib {
    fn drop(&mut self) {
        unsafe {
            dlclose(self.h);
        }
    }
}

// ---------------------------------------------------------------- the host

#[derive(Default)]
pub struct Stats {
    pub calls: u64,
    pub import_calls: u64,
    pub heap_values: u64,
}

const IMPORT_DROP: usize = usize::MAX - 1;
const IMPORT_OTHER: usize = usize::MAX;

struct Ctx {
    /// own handles the guest currently holds / borrowed handles lent for the current call
    guest_owns: std::collections::BTreeSet<u32>,
    lent: std::collections::BTreeSet<u32>,
    world: ProxyWorld,
    /// import id -> function index
    import_func: Vec<usize>,
    current: Option<Call>,
    failures: Vec<(String, String)>,
    import_seen: u32,
    realloc: Option<unsafe extern "C" fn(*mut u8, usize, usize, usize) -> *mut u8>,
    is_live: Option<unsafe extern "C" fn(usize, usize) -> u32>,
    extra_valid: Vec<(u64, u64)>,
}

thread_local! {
    static CTX: RefCell<Option<Ctx>> = const { RefCell::new(None) };
}

fn ctx<R>(f: impl FnOnce(&mut Ctx) -> R) -> R {
    CTX.with(|c| f(c.borrow_mut().as_mut().expect("host context")))
}

fn guest_alloc(size: u64, align: u64) -> u64 {
    let f = ctx(|c| c.realloc.expect("realloc"));
    unsafe { f(std::ptr::null_mut(), 0, align as usize, size as usize) as u64 }
}

fn guest_valid(p: u64, n: u64) -> bool {
    let (f, extra) = ctx(|c| (c.is_live.expect("is_live"), c.extra_valid.clone()));
    if extra.iter().any(|(a, l)| p >= *a && p + n <= a + l) {
        return true;
    }
    unsafe { f(p as usize, n as usize) != 0 }
}

/// install the host context for a loaded guest object (used by the async driver, which has its
/// own import dispatcher)
pub fn install_guest(world: &ProxyWorld, lib: &Lib) {
    let realloc = unsafe { std::mem::transmute(lib.sym("__verif_realloc").expect("glue symbol")) };
    let is_live = unsafe { std::mem::transmute(lib.sym("__verif_is_live").expect("glue symbol")) };
    CTX.with(|c| *c.borrow_mut() = Some(Ctx { guest_owns: Default::default(), lent: Default::default(), world: world.clone(), import_func: vec![], current: None, failures: vec![], import_seen: 0, realloc: Some(realloc), is_live: Some(is_live), extra_valid: vec![] }));
}
pub fn take_failures() -> Vec<(String, String)> {
    CTX.with(|c| c.borrow_mut().take().map(|c| c.failures).unwrap_or_default())
}
/// a range of guest memory that is not a heap block (stack or static areas the guest passed)
pub fn add_valid(at: u64, len: u64) {
    ctx(|c| c.extra_valid.push((at, len)))
}
pub fn clear_valid() {
    ctx(|c| c.extra_valid.clear())
}

pub fn real_mem() -> Mem {
    let mut m = Mem::real(guest_alloc);
    m.valid_fn = Some(guest_valid);
    m
}

pub fn fail(sig: &str, msg: String) {
    if std::env::var("VERIF_DEBUG").is_ok() {
        eprintln!("FAIL {sig}: {msg}");
    }
    ctx(|c| {
        if c.failures.len() < 8 {
            c.failures.push((sig.to_string(), msg));
        }
    })
}

/// comparison form of a value: NaNs canonical (refabi::norm), map entries in key order (a map
/// is a set of entries; the guest's BTreeMap/HashMap does not keep the wire order)
pub fn canon(v: &Val) -> Val {
    fn go(v: Val) -> Val {
        match v {
            Val::Map(m) => {
                let mut m: Vec<(Val, Val)> = m.into_iter().map(|(k, v)| (go(k), go(v))).collect();
                m.sort_by_key(|(k, _)| format!("{k:?}"));
                Val::Map(m)
            }
            Val::List(l) => Val::List(l.into_iter().map(go).collect()),
            Val::Record(l) => Val::Record(l.into_iter().map(go).collect()),
            Val::Tuple(l) => Val::Tuple(l.into_iter().map(go).collect()),
            Val::Variant(i, p) => Val::Variant(i, p.map(|p| Box::new(go(*p)))),
            Val::Option(p) => Val::Option(p.map(|p| Box::new(go(*p)))),
            Val::Result(r) => Val::Result(match r {
                Ok(p) => Ok(p.map(|p| Box::new(go(*p)))),
                Err(p) => Err(p.map(|p| Box::new(go(*p)))),
            }),
            other => other,
        }
    }
    go(refabi::norm(v))
}

/// run refabi code that may panic on undecodable guest data
pub fn decode<R>(what: &str, f: impl FnOnce() -> R) -> Option<R> {
    match vcommon::panics::catch(std::panic::AssertUnwindSafe(f)) {
        Ok(r) => Some(r),
        Err(p) => {
            fail("undecodable-value", format!("{what}: the reference ABI cannot decode what the guest produced: {}", p.message.lines().next().unwrap_or("")));
            None
        }
    }
}

unsafe extern "C" fn host_call(id: u32, args: *const u64, nargs: usize, ret: *mut u64) {
    let args = std::slice::from_raw_parts(args, nargs).to_vec();
    *ret = 0;
    if (8000..9000).contains(&id) {
        // digest of what the implementation received (parameters) / got back from its import
        let (f, is_result) = if id >= 8500 { ((id - 8500) as usize, true) } else { ((id - 8000) as usize, false) };
        let Some((call, func)) = ctx(|c| c.current.clone().filter(|k| k.func == f).and_then(|k| c.world.funcs.get(f).cloned().map(|x| (k, x)))) else {
            fail("import-unexpected", format!("value probe of f{f} while another call is in progress"));
            return;
        };
        let want = if is_result {
            match (&func.result, &call.result) {
                (Some(t), Some(v)) => probe_digest(&[(t, v)]),
                _ => probe_digest(&[]),
            }
        } else {
            probe_digest(&func.params.iter().zip(&call.params).collect::<Vec<_>>())
        };
        if args.first().copied() != Some(want) {
            let (what, vals) = if is_result { ("the value its import returned", format!("{:?}", call.result)) } else { ("its parameters", format!("{:?}", call.params)) };
            fail("value-changed-in-implementation", format!("f{f}: the implementation of the export walked {what} through the generated types (fields, cases, elements) and saw something else than the host sent: {vals} (types {:?} -> {:?})", func.params, func.result));
        }
        return;
    }
    match ctx(|c| c.import_func.get(id as usize).copied()) {
        Some(IMPORT_DROP) => {
            // resource.drop of an own handle
            let h = args.first().copied().unwrap_or(0) as u32;
            // A borrow of an imported resource arrives as a handle of its own in the guest's table
            // (canonical ABI lower_borrow) and has to be released with resource.drop before the
            // call returns; an own handle is released when its value is dropped.
            let (owned, lent) = ctx(|c| (c.guest_owns.remove(&h), c.lent.remove(&h)));
            if !owned && !lent {
                fail("handle-drop", format!("the guest called resource.drop on handle {h}, which it does not hold (never given to the guest, already dropped, or already handed on)"));
            }
            return;
        }
        Some(IMPORT_OTHER) => {
            fail("import-unexpected", format!("import #{id} (a constructor/method of the resource) was called by the forwarding guest"));
            return;
        }
        _ => {}
    }
    let Some((call, f, func)) = ctx(|c| {
        c.import_seen += 1;
        let f = *c.import_func.get(id as usize)?;
        Some((c.current.clone()?, f, c.world.funcs[f].clone()))
    }) else {
        fail("import-unexpected", format!("import #{id} was called while no export call is in progress"));
        return;
    };
    if call.func != f {
        fail("import-unexpected", format!("export f{} called import f{f}", call.func));
        return;
    }
    let flats: Vec<Flat> = func.params.iter().flat_map(|t| ABI.flatten(t)).collect();
    let res_flats: Vec<Flat> = func.result.as_ref().map(|t| ABI.flatten(t)).unwrap_or_default();
    let indirect = flats.len() > 16;
    let want_args = if indirect { 1 } else { flats.len() } + if res_flats.len() > 1 { 1 } else { 0 };
    if nargs != want_args {
        fail("import-arity", format!("import f{f} was called with {nargs} core arguments, the canonical ABI gives {want_args}"));
        return;
    }
    // parameters
    let mem = real_mem();
    let got: Option<Vec<Val>> = decode(&format!("parameters of import f{f}"), || {
        if indirect {
            let tuple = Ty::Tuple(func.params.clone());
            // the parameter area is the guest's (stack or heap): readable by construction
            ctx(|c| c.extra_valid.push((args[0], ABI.size(&tuple))));
            let Val::Tuple(v) = refabi::load(&ABI, &mem, &tuple, args[0]) else { unreachable!() };
            v
        } else {
            let mut it = args[..flats.len()].iter();
            func.params.iter().map(|t| refabi::lift_flat(&ABI, &mem, t, &mut it)).collect()
        }
    });
    if let Some(got) = got {
        for (i, (g, w)) in got.iter().zip(&call.params).enumerate() {
            if canon(g) != canon(w) {
                fail("value-changed-export-to-import", format!("parameter {i} of f{f}: the host sent {w:?} into the export, the guest passed {g:?} to the import (type {:?})", func.params[i]));
            }
            // own handles passed to the import leave the guest; borrows must be handles it holds
            let mut hs = vec![];
            handles_of(g, &func.params[i], &mut hs);
            for (h, own) in hs {
                let (owned, lent) = ctx(|c| (if own { c.guest_owns.remove(&h) } else { c.guest_owns.contains(&h) }, c.lent.contains(&h)));
                if own && !owned {
                    fail("handle-transfer", format!("parameter {i} of import f{f}: the guest passes own handle {h}, which it does not hold (never received, already dropped or already handed on)"));
                }
                if !own && !owned && !lent {
                    fail("handle-transfer", format!("parameter {i} of import f{f}: the guest lends handle {h}, which it neither owns nor was lent"));
                }
            }
        }
    }
    // result
    if let (Some(t), Some(v)) = (&func.result, &call.result) {
        // own handles in the import's result now belong to the guest
        let mut hs = vec![];
        handles_of(v, t, &mut hs);
        ctx(|c| hs.iter().filter(|(_, own)| *own).for_each(|(h, _)| {
            c.guest_owns.insert(*h);
        }));
        let mut mem = real_mem();
        if res_flats.len() > 1 {
            let retptr = args[nargs - 1];
            ABI.store(&mut mem, v, t, retptr);
        } else {
            let fl = ABI.lower_flat(&mut mem, v, t);
            if let Some((_, bits)) = fl.first() {
                *ret = *bits;
            }
        }
    }
}

/// run all calls of one world against its shared object
pub fn run_world(so: &Path, world: &ProxyWorld, imports: &[(String, String)], stats: &mut Stats) -> Vec<(String, String)> {
    // if the guest code aborts or segfaults, the crash guard reports this world
    vcommon::abort::set_current(&serde_json::json!({"wit": world.wit(0).replace("package v:w0;", "package v:w;"), "world": world}).to_string());
    let r = run_world_inner(so, world, imports, stats);
    vcommon::abort::clear();
    r
}

fn run_world_inner(so: &Path, world: &ProxyWorld, imports: &[(String, String)], stats: &mut Stats) -> Vec<(String, String)> {
    let lib = match Lib::open(so) {
        Ok(l) => l,
        Err(e) => return vec![("load-error".into(), format!("cannot load the guest library: {e}"))],
    };
    let mut import_func = vec![];
    for (m, n) in imports {
        if m == "v:w/t" && n == "[resource-drop]res" {
            import_func.push(IMPORT_DROP);
            continue;
        }
        if m == "v:w/t" && (n == "[constructor]res" || n == "[method]res.get") {
            import_func.push(IMPORT_OTHER);
            continue;
        }
        if m != "v:w/api" {
            return vec![("import-name".into(), format!("the bindings import `{n}` from module `{m}`, the world's interfaces are `v:w/api` and `v:w/t`"))];
        }
        match n.strip_prefix('f').and_then(|x| x.parse::<usize>().ok()) {
            Some(i) if i < world.funcs.len() && !world.funcs[i].sink => import_func.push(i),
            _ => return vec![("import-name".into(), format!("the bindings import `{n}` from `{m}`, which is not a function of the interface"))],
        }
    }
    let set_host: unsafe extern "C" fn(unsafe extern "C" fn(u32, *const u64, usize, *mut u64)) = unsafe { std::mem::transmute(lib.sym("__verif_set_host").expect("glue symbol")) };
    let stats_fn: unsafe extern "C" fn(*mut u64) = unsafe { std::mem::transmute(lib.sym("__verif_stats").expect("glue symbol")) };
    let realloc = unsafe { std::mem::transmute(lib.sym("__verif_realloc").expect("glue symbol")) };
    let is_live = unsafe { std::mem::transmute(lib.sym("__verif_is_live").expect("glue symbol")) };
    unsafe { set_host(host_call) };
    CTX.with(|c| *c.borrow_mut() = Some(Ctx { guest_owns: Default::default(), lent: Default::default(), world: world.clone(), import_func, current: None, failures: vec![], import_seen: 0, realloc: Some(realloc), is_live: Some(is_live), extra_valid: vec![] }));
    let snapshot = || {
        let mut s = [0u64; 4];
        unsafe { stats_fn(s.as_mut_ptr()) };
        s
    };
    for call in &world.calls {
        let f = call.func;
        let func = &world.funcs[f];
        let export: unsafe extern "C" fn(*const u64, *mut u64) = unsafe { std::mem::transmute(lib.sym(&format!("__verif_export_{f}")).expect("trampoline")) };
        let before = snapshot();
        // handles inside the parameters: own ones now belong to the guest, borrows are lent
        let mut hs = vec![];
        for (v, t) in call.params.iter().zip(&func.params) {
            handles_of(v, t, &mut hs);
        }
        ctx(|c| {
            c.current = Some(call.clone());
            c.import_seen = 0;
            c.extra_valid.clear();
            c.guest_owns.clear();
            c.lent.clear();
            for (h, own) in &hs {
                if *own {
                    c.guest_owns.insert(*h);
                } else {
                    c.lent.insert(*h);
                }
            }
        });
        stats.calls += 1;
        if call.params.iter().zip(&func.params).any(|(_, t)| refabi::has_heap(t)) || func.result.as_ref().map(refabi::has_heap).unwrap_or(false) {
            stats.heap_values += 1;
        }
        // lower the parameters
        let mut mem = real_mem();
        let flats = world.flat_params(f);
        let mut args: Vec<u64> = if flats.len() > 16 {
            let tuple = Ty::Tuple(func.params.clone());
            let at = mem.alloc(ABI.size(&tuple), ABI.align(&tuple));
            ABI.store(&mut mem, &Val::Tuple(call.params.clone()), &tuple, at);
            vec![at]
        } else {
            call.params.iter().zip(&func.params).flat_map(|(v, t)| ABI.lower_flat(&mut mem, v, t).into_iter().map(|x| x.1)).collect()
        };
        if args.is_empty() {
            args.push(0);
        }
        let mut ret = 0u64;
        unsafe { export(args.as_ptr(), &mut ret) };
        let seen = ctx(|c| c.import_seen);
        stats.import_calls += seen as u64;
        let want_calls = if func.sink { 0 } else { 1 };
        if seen != want_calls {
            fail("import-call-count", format!("export {} called imports {seen} times (expected {want_calls})", world.export_name(f)));
        }
        // the result
        if let (Some(t), Some(want)) = (&func.result, &call.result) {
            let rf = world.flat_result(f);
            let mem = real_mem();
            let got = decode(&format!("result of export f{f}"), || {
                if rf.len() > 1 {
                    // the return area is static memory of the guest
                    ctx(|c| c.extra_valid.push((ret, ABI.size(t))));
                    refabi::load(&ABI, &mem, t, ret)
                } else {
                    let v = [ret];
                    let mut it = v.iter();
                    refabi::lift_flat(&ABI, &mem, t, &mut it)
                }
            });
            if let Some(got) = got {
                if canon(&got) != canon(want) {
                    fail("value-changed-import-to-export", format!("result of f{f}: the import returned {want:?}, the export returned {got:?} (type {t:?})"));
                }
                // own handles in the export's result leave the guest
                let mut hs = vec![];
                handles_of(&got, t, &mut hs);
                for (h, own) in hs {
                    if own && !ctx(|c| c.guest_owns.remove(&h)) {
                        fail("handle-transfer", format!("result of export f{f}: the guest returns own handle {h}, which it does not hold"));
                    }
                }
            }
        }
        if world.needs_post_return(f) {
            let post: unsafe extern "C" fn(*const u64) = unsafe { std::mem::transmute(lib.sym(&format!("__verif_post_{f}")).expect("trampoline")) };
            let a = [ret];
            unsafe { post(a.as_ptr()) };
        }
        ctx(|c| c.current = None);
        // every own handle the guest received was either handed on, returned or dropped
        let (left, left_lent): (Vec<u32>, Vec<u32>) = ctx(|c| (c.guest_owns.iter().copied().collect(), c.lent.iter().copied().collect()));
        if !left.is_empty() {
            fail("handle-leak", format!("after the call of {} the guest still holds own handles {left:?}: they were neither passed on, returned nor dropped", world.export_name(f)));
        }
        if !left_lent.is_empty() {
            fail("handle-leak", format!("the call of {} returned while the borrow handles {left_lent:?} it received were not released with resource.drop (the host traps: borrows outlive the call)", world.export_name(f)));
        }
        let after = snapshot();
        if after[2] != before[2] {
            fail("heap-misuse", format!("call {f}: {} frees of blocks that are not live (double free, foreign pointer or wrong size) during the call and its post-return", after[2] - before[2]));
        }
        if after[0] != before[0] {
            let dump: unsafe extern "C" fn(*mut u64, usize) -> usize = unsafe { std::mem::transmute(lib.sym("__verif_dump").expect("glue symbol")) };
            let mut buf = [0u64; 32];
            let n = unsafe { dump(buf.as_mut_ptr(), 16) };
            let blocks: Vec<String> = (0..n)
                .map(|i| {
                    let (a, s) = (buf[2 * i], buf[2 * i + 1]);
                    let bytes = unsafe { std::slice::from_raw_parts(a as usize as *const u8, (s as usize).min(24)) };
                    format!("{s} bytes {:?}", String::from_utf8_lossy(bytes))
                })
                .collect();
            fail("heap-leak", format!("call of f{f} ({:?} -> {:?}) with {:?} -> {:?}: {} heap blocks / {} bytes are still allocated after the call and its post-return (before: {} blocks); live blocks: {blocks:?}", func.params, func.result, call.params, call.result, after[0] as i64 - before[0] as i64, after[1] as i64 - before[1] as i64, before[0]));
        }
    }
    let fails = CTX.with(|c| c.borrow_mut().take().map(|c| c.failures).unwrap_or_default());
    drop(lib);
    fails
}

#[allow(dead_code)]
pub fn _unused(_: BTreeMap<u8, u8>) {}
