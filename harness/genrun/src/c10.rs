//! C10 / C11 — generated C bindings carry every value across the boundary unchanged and
//! release exactly the memory they own (native execution against the reference host, see
//! exec.rs / execc.rs).
use crate::exec::{self, ProxyWorld};
use crate::execc::{self, CMember};
use rayon::prelude::*;
use vcommon::{Check, Failure};

fn variants() -> Vec<(&'static str, Vec<&'static str>)> {
    vec![("default", vec![]), ("no-sig-flattening", vec!["--no-sig-flattening"]), ("autodrop", vec!["--autodrop-borrows=yes"])]
}

const VALUE_SIGS: &[&str] = &["value-changed-in-implementation", "value-changed-export-to-import", "value-changed-import-to-export", "undecodable-value", "import-call-count", "import-arity", "import-unexpected", "import-name", "load-error"];
const HEAP_SIGS: &[&str] = &["heap-leak", "heap-misuse"];

pub fn run(check: &mut Check) {
    let heap = check.id == "C11";
    check.rule = format!(
        "proxy worlds (an interface of 1..3 functions with 0..4 parameters and an optional result over the WIT value types the C backend supports — scalars, strings, lists, options, results, tuples, records, variants, enums, flags of 1..32 members — nested up to depth 3; imported and exported by the same world) x 3 random value sets per function x C option variants {{default, --no-sig-flattening, --autodrop-borrows=yes}}; the generated C is compiled natively into a shared object whose exported functions forward to the imported ones (and release their owned arguments with the generated *_free helpers, as crates/c/README.md prescribes); the reference canonical ABI (refabi, P = 8) plays the host on both sides; \
        oracle ({}): {}; non-trivial = call whose types own heap data; distinct by (world, call)",
        check.id,
        if heap { "after every call and its post-return the malloc/free ledger has exactly the blocks it had before, and nothing is freed that is not a live block (import arguments are left to the caller, post-return frees the returned value, the free helpers free exactly the owned memory)" } else { "both values arrive unchanged, the import is called exactly once with the arity the canonical ABI prescribes" }
    );
    check.assumptions.push("native x86-64 execution with clang; the wasm import/export attributes are inert natively, the import declarations are defined by the glue file".into());
    check.assumptions.push("utf16 strings, maps, fixed-length lists, resources, futures and streams are not part of these worlds (the reference host speaks utf8; the others are declared unsupported by crates/test/src/c.rs or belong to other properties)".into());
    if check.is_replay() {
        vcommon::harness_error("C10/C11 build batches of worlds; re-run ./check <ID> quick to reproduce (worlds are a function of VERIF_SEED)");
    }
    vcommon::abort::install(&check.id, "worlds", check.sub_seed("worlds", 0));
    let nworlds = std::env::var("VERIF_N").ok().and_then(|s| s.parse().ok()).unwrap_or(check.tier.pick(120usize, 2500));
    let vars = variants();
    let mut worlds: Vec<ProxyWorld> = check.draw("worlds", &exec::world_strategy(false, false), nworlds);
    // constructed sequences (heap-owning case, then heap-less case, of the same result/parameter)
    worlds.extend(crate::c05::constructed());
    let root = std::path::PathBuf::from("/verif/target/execcws");
    let _ = std::fs::remove_dir_all(&root);
    let members: Vec<CMember> = worlds
        .par_iter()
        .enumerate()
        .map(|(i, w)| {
            let (v, a) = &vars[i % vars.len()];
            execc::c_member(&root.join(format!("c{i}")), w, v, a)
        })
        .collect();
    for m in &members {
        let label = serde_json::json!({"variant": m.variant, "wit": if m.wit.len() < 600 { m.wit.clone() } else { format!("{}...", &m.wit[..600]) }, "calls": m.world.calls.len()});
        check.case("worlds", &label, |_, obs| {
            obs.label(m.variant.clone());
            let so = match &m.built {
                Ok(p) => p,
                Err(e) => {
                    if e.starts_with("harness:") {
                        vcommon::harness_error(format!("{e}\n{}", m.wit));
                    }
                    obs.label("not-built(C12)");
                    if heap {
                        return Ok(());
                    }
                    let first = e.lines().find(|l| l.contains("error")).unwrap_or("").to_string();
                    let re = regex::Regex::new(r"'[^']*'").unwrap();
                    let first = first.split("error:").last().unwrap_or("").trim().to_string();
                    return Err(Failure::new(format!("c-native-build: {}", re.replace_all(&first, "'_'").chars().take(80).collect::<String>()), format!("the bindings ({}) do not build natively:\n{e}\nWIT:\n{}", m.variant, m.wit)));
                }
            };
            let mut stats = exec::Stats::default();
            let fails = exec::run_world(so, &m.world, &m.imports, &mut stats);
            obs.evals = stats.calls + stats.import_calls;
            if stats.heap_values > 0 {
                obs.nontrivial_by(&(&m.wit, &m.variant));
            }
            let mine: &[&str] = if heap { HEAP_SIGS } else { VALUE_SIGS };
            for (sig, msg) in fails {
                if mine.contains(&sig.as_str()) {
                    return Err(Failure::new(format!("{sig} {}", m.variant), format!("{msg}\nvariant {}\nWIT:\n{}", m.variant, m.wit)));
                }
                obs.label(format!("other-property:{sig}"));
            }
            Ok(())
        });
    }
    if std::env::var("VERIF_KEEP").is_err() {
        let _ = std::fs::remove_dir_all(&root);
    }
}
