//! C10 / C11 — generated C bindings carry every value across the boundary unchanged and
//! release exactly the memory they own (native execution against the reference host, see
//! exec.rs / execc.rs).
use crate::exec::{self, ProxyWorld};
use crate::execc::{self, CMember};
use rayon::prelude::*;
use vcommon::{Check, Failure};

fn variants() -> Vec<(&'static str, Vec<&'static str>)> {
    vec![("default", vec![]), ("no-sig-flattening", vec!["--no-sig-flattening"]), ("autodrop", vec!["--autodrop-borrows=yes"])]
}

const VALUE_SIGS: &[&str] = &["value-changed-in-implementation", "value-changed-export-to-import", "value-changed-import-to-export", "undecodable-value", "import-call-count", "import-arity", "import-unexpected", "import-name", "load-error"];
const HEAP_SIGS: &[&str] = &["heap-leak", "heap-misuse"];

pub fn run(check: &mut Check) {
    let heap = check.id == "C11";
    check.rule = format!(
        "proxy worlds (an interface of 1..3 functions with 0..4 parameters and an optional result over the WIT value types the C backend supports — scalars, strings, lists, options, results, tuples, records, variants, enums, flags of 1..32 members — nested up to depth 3; imported and exported by the same world) x 3 random value sets per function x C option variants {{default, --no-sig-flattening, --autodrop-borrows=yes}}; the generated C is compiled natively into a shared object whose exported functions forward to the imported ones (and release their owned arguments with the generated *_free helpers, as crates/c/README.md prescribes); the reference canonical ABI (refabi, P = 8) plays the host on both sides; \
        oracle ({}): {}; non-trivial = call whose types own heap data; distinct by (world, call){}",
        check.id,
        if heap { "after every call and its post-return the malloc/free ledger has exactly the blocks it had before, and nothing is freed that is not a live block (import arguments are left to the caller, post-return frees the returned value, the free helpers free exactly the owned memory)" } else { "both values arrive unchanged, the import is called exactly once with the arity the canonical ABI prescribes" },
        if heap { ". Resource half: a fixed interface shape (exported resource with constructor, method, static function; free functions taking/returning own and borrow handles, list<own>, option<own>; exported functions over an imported resource: borrow, own, list<own>) x 6 resource names (single- and multi-word) x C variants {default, --autodrop-borrows=yes, --no-sig-flattening}, compiled natively with user code whose representation records its destruction and a host (handle tables, resource.new/rep/drop, canonical lowering of own/borrow) that reaches every core function through its canonical export/import name; generated host operation sequences (1..20 of create / make / get / peek / take / merge / host-drop / list / option / use-it / eat / eat-many, greedy shrinking); oracle: model of the value behind each handle - the user destructor runs exactly once per value and in the operation that ends its last owner, every read returns the model value, no resource.rep/drop of a dead handle, a borrowed handle of the imported resource is released exactly once before the export returns (by the bindings with autodrop, by the user code otherwise), and after the host dropped everything no handle, value or heap block is left; non-trivial = sequence that transfers or drops a handle" } else { "" }
    );
    check.assumptions.push("native x86-64 execution with clang; the wasm import/export attributes are inert natively, the import declarations are defined by the glue file".into());
    check.assumptions.push("utf16 strings, maps, fixed-length lists, futures and streams are not part of these worlds, resources only of the constructed resource half of C11 (the reference host speaks utf8; the others are declared unsupported by crates/test/src/c.rs or belong to other properties)".into());
    if check.is_replay() {
        vcommon::harness_error("C10/C11 build batches of worlds; re-run ./check <ID> quick to reproduce (worlds are a function of VERIF_SEED)");
    }
    vcommon::abort::install(&check.id, "worlds", check.sub_seed("worlds", 0));
    let nworlds = std::env::var("VERIF_N").ok().and_then(|s| s.parse().ok()).unwrap_or(check.tier.pick(120usize, 2500));
    let vars = variants();
    let mut worlds: Vec<ProxyWorld> = check.draw("worlds", &exec::world_strategy(false, false), nworlds);
    // constructed sequences (heap-owning case, then heap-less case, of the same result/parameter)
    worlds.extend(crate::c05::constructed());
    let root = std::path::PathBuf::from("/verif/target/execcws");
    let _ = std::fs::remove_dir_all(&root);
    let members: Vec<CMember> = worlds
        .par_iter()
        .enumerate()
        .map(|(i, w)| {
            let (v, a) = &vars[i % vars.len()];
            execc::c_member(&root.join(format!("c{i}")), w, v, a)
        })
        .collect();
    for m in &members {
        let label = serde_json::json!({"variant": m.variant, "wit": if m.wit.len() < 600 { m.wit.clone() } else { format!("{}...", &m.wit[..600]) }, "calls": m.world.calls.len()});
        check.case("worlds", &label, |_, obs| {
            obs.label(m.variant.clone());
            let so = match &m.built {
                Ok(p) => p,
                Err(e) => {
                    if e.starts_with("harness:") {
                        vcommon::harness_error(format!("{e}\n{}", m.wit));
                    }
                    obs.label("not-built(C12)");
                    if heap {
                        return Ok(());
                    }
                    let first = e.lines().find(|l| l.contains("error")).unwrap_or("").to_string();
                    let re = regex::Regex::new(r"'[^']*'").unwrap();
                    let first = first.split("error:").last().unwrap_or("").trim().to_string();
                    return Err(Failure::new(format!("c-native-build: {}", re.replace_all(&first, "'_'").chars().take(80).collect::<String>()), format!("the bindings ({}) do not build natively:\n{e}\nWIT:\n{}", m.variant, m.wit)));
                }
            };
            let mut stats = exec::Stats::default();
            let fails = exec::run_world(so, &m.world, &m.imports, &mut stats);
            obs.evals = stats.calls + stats.import_calls;
            if stats.heap_values > 0 {
                obs.nontrivial_by(&(&m.wit, &m.variant));
            }
            let mine: &[&str] = if heap { HEAP_SIGS } else { VALUE_SIGS };
            for (sig, msg) in fails {
                if mine.contains(&sig.as_str()) {
                    return Err(Failure::new(format!("{sig} {}", m.variant), format!("{msg}\nvariant {}\nWIT:\n{}", m.variant, m.wit)));
                }
                obs.label(format!("other-property:{sig}"));
            }
            Ok(())
        });
    }
    if std::env::var("VERIF_KEEP").is_err() {
        let _ = std::fs::remove_dir_all(&root);
    }
    if heap {
        resources(check);
    }
}

/// resource half of C11 (see c11x.rs)
fn resources(check: &mut Check) {
    use crate::c11x::{self, Flavour};
    let thorough = check.tier == vcommon::Tier::Thorough;
    let mut flavours: Vec<Flavour> = vec![];
    for name in 0..c11x::NAMES.len() {
        for k in 0..if thorough { c11x::VARIANTS.len() } else { 1 } {
            flavours.push(Flavour { name, variant: (name + k) % c11x::VARIANTS.len() });
        }
    }
    let per = std::env::var("VERIF_NSEQ").ok().and_then(|s| s.parse().ok()).unwrap_or(check.tier.pick(400usize, 4000));
    let seqs: Vec<Vec<c11x::Op>> = check.draw("resources", &c11x::sequence(), per * flavours.len());
    let root = std::path::PathBuf::from("/verif/target/execc11x");
    let _ = std::fs::remove_dir_all(&root);
    let built: Vec<_> = flavours.par_iter().enumerate().map(|(i, f)| c11x::build(&root.join(format!("r{i}")), f)).collect();
    for (k, (fl, b)) in flavours.iter().zip(&built).enumerate() {
        let b = match b {
            Ok(b) => b,
            Err((sig, msg)) if sig == "harness" => vcommon::harness_error(msg.clone()),
            Err((sig, msg)) => {
                check.case("resources", &serde_json::json!({"flavour": fl, "resource": c11x::NAMES[fl.name]}), |_, _| Err(Failure::new(sig.clone(), format!("{msg}\nWIT:\n{}", c11x::wit(fl)))));
                continue;
            }
        };
        let mine = &seqs[k * per..(k + 1) * per];
        let refs: Vec<&[c11x::Op]> = mine.iter().map(|s| s.as_slice()).collect();
        let results = match c11x::run(b, &refs) {
            Ok(r) => r,
            Err(e) => vcommon::harness_error(e),
        };
        for (ops, fails) in mine.iter().zip(results) {
            let label = serde_json::json!({"resource": c11x::NAMES[fl.name], "variant": c11x::VARIANTS[fl.variant].0, "ops": ops});
            check.case("resources", &label, |_, obs| {
                obs.evals = ops.len() as u64;
                obs.label(format!("resources:{}", c11x::VARIANTS[fl.variant].0));
                if ops.iter().any(|o| matches!(o, c11x::Op::Take(_) | c11x::Op::Merge(..) | c11x::Op::Many(_) | c11x::Op::Opt(Some(_)) | c11x::Op::Drop(_) | c11x::Op::UseIt(_))) {
                    obs.nontrivial_by(&(fl, ops));
                }
                match fails.into_iter().next() {
                    Some((sig, msg)) => {
                        let small = c11x::shrink(b, ops, &sig);
                        let msg = c11x::run(b, &[&small]).ok().and_then(|r| r[0].iter().find(|(s, _)| *s == sig).map(|x| x.1.clone())).unwrap_or(msg);
                        Err(c11x::failure_of(fl, b, &small, &sig, &msg))
                    }
                    None => Ok(()),
                }
            });
        }
    }
    if std::env::var("VERIF_KEEP").is_err() {
        let _ = std::fs::remove_dir_all(&root);
    }
}
