//! C07 — generated Rust bindings keep resource handle ownership exact (imported resources;
//! native execution against the reference host, see exec.rs).
use crate::exec::{self, Member, ProxyWorld};
use vcommon::{Check, Failure};

const HANDLE_SIGS: &[&str] = &["handle-drop", "handle-transfer", "handle-leak", "import-unexpected", "import-call-count", "value-changed-export-to-import", "value-changed-import-to-export", "undecodable-value", "load-error"];

pub fn run(check: &mut Check) {
    check.rule = "proxy worlds over an imported resource `res`: 1..3 functions whose parameters and results carry own<res> and borrow<res> handles directly and nested in records, variants, options, results, lists and tuples (borrows only outside lists, never in results), each either forwarding (exported function calls the imported function of the same name with the very values it received and returns its result) or a sink (exported only, the implementation does nothing) x 3 value sets with globally distinct handle numbers x Rust option variants {default, --std-feature, merge-equal}; native execution with the reference canonical ABI as host and a host-side handle ledger; \
        oracle: every own handle the host passes in is, by the end of the call, handed on to the import exactly once (forwarding) or released with resource.drop exactly once (sink, or values that are not passed on); own handles returned by the import come back in the export's result; a borrowed handle is never dropped and only lent on; no handle is dropped twice, dropped after being handed on, or left over; non-trivial = world with at least one call carrying handles; distinct by world".into();
    check.assumptions.push("only imported resources: exported resources (constructors, rep/new intrinsics, destructors) need hand-written implementations and are outside this check; error-context handles are covered by the runtime checks C18-C23 only as far as the runtime goes".into());
    check.assumptions.push("native x86-64 execution; handle indices are chosen by the host and never reused within a world".into());
    if check.is_replay() {
        vcommon::harness_error("C07 builds batches of worlds; re-run ./check C07 quick to reproduce (worlds are a function of VERIF_SEED)");
    }
    vcommon::abort::install(&check.id, "worlds", check.sub_seed("worlds", 0));
    let nworlds = std::env::var("VERIF_N").ok().and_then(|s| s.parse().ok()).unwrap_or(check.tier.pick(42usize, 700));
    let vars: Vec<(&str, Vec<&str>)> = vec![("default", vec![]), ("no-std", vec!["--std-feature"]), ("merge-equal", vec!["--merge-structurally-equal-types"])];
    let worlds: Vec<ProxyWorld> = check.draw("worlds", &exec::resource_world_strategy(), nworlds);
    let mut idx = 0;
    for chunk in worlds.chunks(70) {
        let members: Vec<Member> = chunk
            .iter()
            .enumerate()
            .map(|(i, w)| {
                let (v, a) = &vars[(idx + i) % vars.len()];
                exec::rust_member(idx + i, w, v, a)
            })
            .collect();
        idx += chunk.len();
        let built = exec::build_rust(&members);
        for (m, b) in members.iter().zip(&built) {
            let label = serde_json::json!({"variant": m.variant, "wit": if m.wit.len() < 700 { m.wit.clone() } else { format!("{}...", &m.wit[..700]) }, "calls": m.world.calls.len()});
            check.case("worlds", &label, |_, obs| {
                obs.label(m.variant.clone());
                let so = match b {
                    Ok(p) => p,
                    Err(e) => {
                        if e.starts_with("harness:") {
                            vcommon::harness_error(format!("{e}\n{}", m.wit));
                        }
                        // whether the bindings compile is C09's subject
                        obs.label("not-built(C09)");
                        if std::env::var("VERIF_SURVEY").is_ok() {
                            eprintln!("NOT BUILT ({}):\n{e}\n{}", m.variant, m.wit);
                        }
                        return Ok(());
                    }
                };
                let mut stats = exec::Stats::default();
                let fails = exec::run_world(so, &m.world, &m.imports, &mut stats);
                obs.evals = stats.calls + stats.import_calls;
                obs.nontrivial_by(&(&m.wit, &m.variant));
                if m.world.funcs.iter().any(|f| f.sink) {
                    obs.label("has-sink");
                }
                for (sig, msg) in fails {
                    if HANDLE_SIGS.contains(&sig.as_str()) {
                        return Err(Failure::new(format!("{sig} {}", m.variant), format!("{msg}\nvariant {}\nWIT:\n{}", m.variant, m.wit)));
                    }
                    obs.label(format!("other-property:{sig}"));
                }
                Ok(())
            });
        }
    }
    exported(check);
    if std::env::var("VERIF_KEEP").is_err() {
        let _ = std::fs::remove_dir_all(exec::WS);
    }
}

/// second half of the property: exported resources (see c07x.rs)
fn exported(check: &mut Check) {
    use crate::c07x::{self, Flavour};
    let thorough = check.tier == vcommon::Tier::Thorough;
    let mut flavours: Vec<Flavour> = vec![];
    for name in 0..c07x::NAMES.len() {
        for k in 0..if thorough { 6 } else { 1 } {
            let j = name + k;
            flavours.push(Flavour { name, fallible: j % 2 == 1, variant: (j / 2) % c07x::VARIANTS.len() });
        }
    }
    let per = std::env::var("VERIF_NSEQ").ok().and_then(|s| s.parse().ok()).unwrap_or(check.tier.pick(150usize, 3000));
    let seqs: Vec<Vec<c07x::Op>> = check.draw("exported", &c07x::sequence(), per * flavours.len());
    let members: Vec<Member> = flavours.iter().map(c07x::member).collect();
    let built = exec::build_rust(&members);
    for (k, ((fl, m), b)) in flavours.iter().zip(&members).zip(&built).enumerate() {
        let so = match b {
            Ok(p) => p,
            Err(e) if e.starts_with("harness:") => vcommon::harness_error(format!("{e}\n{}", m.wit)),
            Err(e) => {
                // a resource world that does not compile is a failure of this property's domain:
                // nothing about handles can be said
                check.case("exported", &serde_json::json!({"flavour": fl}), |_, _| Err(Failure::new(format!("exported-resource not-built {}", m.variant), format!("the bindings of the exported-resource world do not build natively:\n{e}\nWIT:\n{}", m.wit))));
                continue;
            }
        };
        let loaded = match c07x::load(so, fl, &m.imports) {
            Ok(l) => l,
            Err(e) => {
                check.case("exported", &serde_json::json!({"flavour": fl}), |_, _| Err(Failure::new(format!("exported-resource load-error {}", m.variant), format!("{e}\nWIT:\n{}", m.wit))));
                continue;
            }
        };
        for ops in &seqs[k * per..(k + 1) * per] {
            let label = serde_json::json!({"flavour": fl, "resource": c07x::NAMES[fl.name], "ops": ops});
            check.case("exported", &label, |_, obs| {
                vcommon::abort::set_current(&serde_json::json!({"flavour": fl, "ops": ops, "wit": m.wit}).to_string());
                let (fails, evals) = c07x::run_sequence(&loaded, ops);
                obs.evals = evals;
                obs.label(format!("exported:{}", m.variant));
                if ops.iter().any(|o| matches!(o, c07x::Op::Consume(_) | c07x::Op::Unwrap(_) | c07x::Op::Many(..) | c07x::Op::TakeAgg(..) | c07x::Op::Drop(_))) {
                    obs.nontrivial_by(&(fl, ops));
                }
                let r = match fails.into_iter().next() {
                    Some((sig, msg)) => {
                        let small = c07x::shrink(&loaded, ops, &sig);
                        let msg = c07x::run_sequence(&loaded, &small).0.into_iter().find(|(s, _)| *s == sig).map(|x| x.1).unwrap_or(msg);
                        Err(c07x::failure_of(fl, &small, &sig, &msg))
                    }
                    None => Ok(()),
                };
                vcommon::abort::clear();
                r
            });
        }
    }
}
