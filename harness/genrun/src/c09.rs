//! C09 — generated Rust builds for wasm32 and componentizes as exactly the requested world.
//!
//! A batch of (world, Rust option variant) pairs is materialised as one cargo
//! workspace (one no_std cdylib member per pair: generated bindings with
//! `--stubs`, a bump allocator, a panic handler, a `wasip3_task_set` stand-in),
//! built for wasm32-unknown-unknown with -Zbuild-std=core,alloc against a rust-src
//! copy without dlmalloc, then every module is encoded by wit-component, validated,
//! decoded and its world compared with the requested one.
use crate::backends::{self, GenOutcome, Input};
use crate::wasmbuild;
use crate::{tape_strategy, WorldCase};
use proptest::prelude::*;
use std::path::{Path, PathBuf};
use std::process::Command;
use vcommon::{Check, Failure};
use wit_parser::{Resolve, WorldId};

const WS: &str = "/verif/target/c09ws";
const TARGET: &str = "/verif/target/c09";

const LIB_RS: &str = r#"#![no_std]
#![allow(warnings)]
extern crate alloc;
include!("bindings.rs");
mod verif_rt_support {
    use core::alloc::{GlobalAlloc, Layout};
    struct Bump;
    static mut TOP: usize = 0;
    unsafe impl GlobalAlloc for Bump {
        unsafe fn alloc(&self, l: Layout) -> *mut u8 {
            unsafe extern "C" { static __heap_base: u8; }
            if TOP == 0 { TOP = &__heap_base as *const u8 as usize; }
            TOP = (TOP + l.align() - 1) & !(l.align() - 1);
            let p = TOP; TOP += l.size();
            let pages = core::arch::wasm32::memory_size(0);
            if TOP > pages * 65536 {
                let g = (TOP - pages * 65536 + 65535) / 65536;
                if core::arch::wasm32::memory_grow(0, g) == usize::MAX { core::arch::wasm32::unreachable() }
            }
            p as *mut u8
        }
        unsafe fn dealloc(&self, _p: *mut u8, _l: Layout) {}
    }
    #[global_allocator]
    static A: Bump = Bump;
    #[panic_handler]
    fn panic(_: &core::panic::PanicInfo) -> ! { core::arch::wasm32::unreachable() }
    // stand-in for libwit_bindgen_cabi_wasip3.a on this non-p3 target
    static mut CUR: *mut core::ffi::c_void = core::ptr::null_mut();
    #[unsafe(no_mangle)]
    pub unsafe extern "C" fn wasip3_task_set(p: *mut core::ffi::c_void) -> *mut core::ffi::c_void {
        let old = CUR; CUR = p; old
    }
}
"#;

pub struct Member {
    pub label: serde_json::Value,
    pub bindings: String,
    pub resolve: Resolve,
    pub world: WorldId,
    pub variant: String,
    pub edition: &'static str,
    pub ctx: String,
}

fn cargo() -> Command {
    let mut c = Command::new("cargo");
    c.arg("+nightly")
        .env("__CARGO_TESTS_ONLY_SRC_ROOT", "/verif/target/rust-src/library")
        .env("CARGO_NET_OFFLINE", "true")
        .env_remove("RUSTFLAGS");
    c
}

fn ensure_rust_src() {
    let st = Command::new("/verif/tools/prepare_rust_src.sh").status();
    if !st.map(|s| s.success()).unwrap_or(false) {
        vcommon::harness_error("cannot prepare the patched rust-src copy (tools/prepare_rust_src.sh)");
    }
}

fn norm_rustc(e: &str) -> String {
    let first = e.lines().find(|l| l.starts_with("error")).unwrap_or(e.lines().next().unwrap_or(""));
    let re = regex::Regex::new(r"`[^`]*`").unwrap();
    re.replace_all(first, "`_`").chars().take(90).collect()
}

/// build all members; returns per member Ok(module bytes) or Err(compiler output)
pub fn build_batch(members: &[Member]) -> Vec<Result<Vec<u8>, String>> {
    ensure_rust_src();
    let ws = Path::new(WS);
    let _ = std::fs::remove_dir_all(ws);
    std::fs::create_dir_all(ws).unwrap();
    let names: Vec<String> = (0..members.len()).map(|i| format!("m{i}")).collect();
    std::fs::write(
        ws.join("Cargo.toml"),
        format!("[workspace]\nresolver = \"2\"\nmembers = [{}]\n[profile.dev]\npanic = \"abort\"\nopt-level = 1\ndebug = 0\nincremental = false\n", names.iter().map(|n| format!("\"{n}\"")).collect::<Vec<_>>().join(", ")),
    )
    .unwrap();
    let _ = std::fs::copy("/repo/Cargo.lock", ws.join("Cargo.lock"));
    for (n, m) in names.iter().zip(members) {
        let d = ws.join(n);
        std::fs::create_dir_all(d.join("src")).unwrap();
        std::fs::write(
            d.join("Cargo.toml"),
            format!("[package]\nname = \"{n}\"\nversion = \"0.0.0\"\nedition = \"{}\"\n[lib]\ncrate-type = [\"cdylib\"]\n[features]\nstd = []\n[dependencies]\nwit-bindgen = {{ path = \"/repo/crates/guest-rust\", default-features = false, features = [\"realloc\", \"async\", \"bitflags\"] }}\n", m.edition),
        )
        .unwrap();
        std::fs::write(d.join("src/lib.rs"), LIB_RS).unwrap();
        std::fs::write(d.join("src/bindings.rs"), &m.bindings).unwrap();
    }
    let out = cargo()
        .args(["build", "--offline", "--keep-going", "-Zbuild-std=core,alloc", "--target", "wasm32-unknown-unknown", "--manifest-path"])
        .arg(ws.join("Cargo.toml"))
        .arg("--target-dir")
        .arg(TARGET)
        .output()
        .unwrap_or_else(|e| vcommon::harness_error(format!("cannot run cargo: {e}")));
    let all_err = String::from_utf8_lossy(&out.stderr).to_string();
    let mut results = vec![];
    for n in &names {
        let wasm = PathBuf::from(TARGET).join(format!("wasm32-unknown-unknown/debug/{n}.wasm"));
        // only trust artifacts of this build: the target dir is reused between runs
        let fresh = wasm.metadata().and_then(|m| m.modified()).ok().zip(ws.join("Cargo.toml").metadata().and_then(|m| m.modified()).ok()).map(|(a, b)| a >= b).unwrap_or(false);
        if fresh {
            results.push(std::fs::read(&wasm).map_err(|e| e.to_string()));
        } else {
            // rebuild this member alone to get its diagnostics
            let o = cargo()
                .args(["build", "--offline", "-Zbuild-std=core,alloc", "--target", "wasm32-unknown-unknown", "-p", n, "--manifest-path"])
                .arg(ws.join("Cargo.toml"))
                .arg("--target-dir")
                .arg(TARGET)
                .output()
                .unwrap_or_else(|e| vcommon::harness_error(format!("cannot run cargo: {e}")));
            let e = String::from_utf8_lossy(&o.stderr).to_string();
            if o.status.success() {
                results.push(std::fs::read(&wasm).map_err(|e| e.to_string()));
            } else {
                let errs: Vec<&str> = e.lines().filter(|l| l.starts_with("error")).take(5).collect();
                if errs.is_empty() && !all_err.contains("error") {
                    vcommon::harness_error(format!("cargo failed without diagnostics:\n{}", e.lines().rev().take(15).collect::<Vec<_>>().join("\n")));
                }
                results.push(Err(e.lines().filter(|l| l.starts_with("error") || l.trim_start().starts_with("-->")).take(8).collect::<Vec<_>>().join("\n")));
            }
        }
    }
    let _ = std::fs::remove_dir_all(ws);
    results
}

pub fn judge_member(m: &Member, built: &Result<Vec<u8>, String>) -> Result<(), Failure> {
    let module = match built {
        Ok(b) => b,
        Err(e) => {
            // a named world item (`export a: interface {..}`) called like a package namespace
            // (`a:pkg/i`) maps to the same Rust module as the namespace
            let w = &m.resolve.worlds[m.world];
            let ns_clash = |imports: bool| {
                let items = if imports { &w.imports } else { &w.exports };
                let snake = |s: &str| s.replace('-', "_");
                let named: Vec<String> = items.iter().filter(|(_, i)| matches!(i, wit_parser::WorldItem::Interface { .. })).filter_map(|(k, _)| if let wit_parser::WorldKey::Name(n) = k { Some(snake(n)) } else { None }).collect();
                items.iter().any(|(k, _)| match k {
                    wit_parser::WorldKey::Interface(id) => m.resolve.interfaces[*id].package.map(|p| named.contains(&snake(&m.resolve.packages[p].name.namespace))).unwrap_or(false),
                    _ => false,
                })
            };
            if e.contains("E0428") && (ns_clash(true) || ns_clash(false)) {
                return Err(Failure::new(backends::KF_RUST_ITEM_NAMED_LIKE_NAMESPACE, format!("generated Rust ({}, edition {}) does not build:\n{e}\n{}", m.variant, m.edition, m.ctx)));
            }
            if let Some(sig) = classify_known(m, e) {
                return Err(Failure::new(sig, format!("generated Rust ({}, edition {}) does not build:\n{e}\n{}", m.variant, m.edition, m.ctx)));
            }
            if let Ok(d) = std::env::var("VERIF_DUMP") {
                // development aid: keep the failing world for minimisation
                let _ = std::fs::create_dir_all(&d);
                let n = std::fs::read_dir(&d).map(|r| r.count()).unwrap_or(0);
                let _ = std::fs::write(format!("{d}/fail{n}.txt"), format!("{}\n{e}\n", m.ctx));
            }
            return Err(Failure::new(
                format!("rust-compile-error: {}", norm_rustc(e)),
                format!("generated Rust ({}, edition {}) does not build for wasm32-unknown-unknown:\n{e}\n{}", m.variant, m.edition, m.ctx),
            ))
        }
    };
    let comp = wasmbuild::componentize(module, false).map_err(|e| Failure::new(format!("rust-not-a-component-of-the-world {}", m.variant), format!("wit-component rejects the module ({}): {e}\n{}", m.variant, m.ctx)))?;
    if let Err(e) = wasmbuild::componentize(module, true) {
        if e.contains("`async` canonical option requires an async function type") {
            return Ok(()); // listed C13 finding (async ABI forced on sync function types)
        }
        return Err(Failure::new(format!("rust-component-does-not-validate {}", m.variant), format!("the component does not validate ({}): {e}\n{}", m.variant, m.ctx)));
    }
    let extra = wasmbuild::unassigned_exports(module, &m.resolve, m.world).map_err(|e| Failure::new("rust-module-unreadable", e))?;
    if !extra.is_empty() {
        return Err(Failure::new(format!("rust-export-not-in-world {}", m.variant), format!("the module exports {extra:?}, which the component model assigns to no item of the world (the encoder ignores it silently) ({})\n{}", m.variant, m.ctx)));
    }
    wasmbuild::compare_world(&comp, &m.resolve, m.world).map_err(|e| {
        let head = e.split(':').next().unwrap_or("").to_string();
        Failure::new(format!("rust-world-mismatch {head}"), format!("the component's world differs from the requested one ({}): {e}\n{}", m.variant, m.ctx))
    })
}

/// all functions of the world: (exported?, function)
fn world_funcs(m: &Member) -> Vec<(bool, &wit_parser::Function)> {
    let w = &m.resolve.worlds[m.world];
    let mut out = vec![];
    for (exported, items) in [(false, &w.imports), (true, &w.exports)] {
        for (_, item) in items.iter() {
            match item {
                wit_parser::WorldItem::Function(f) => out.push((exported, f)),
                wit_parser::WorldItem::Interface { id, .. } => out.extend(m.resolve.interfaces[*id].functions.values().map(|f| (exported, f))),
                _ => {}
            }
        }
    }
    out
}

/// does `ty` contain a borrow handle below a list/map/fixed-length list
fn borrow_under_list(r: &Resolve, ty: &wit_parser::Type, under: bool) -> bool {
    use wit_parser::{Handle, Type, TypeDefKind as K};
    let Type::Id(id) = ty else { return false };
    match &r.types[*id].kind {
        K::Handle(Handle::Borrow(_)) => under,
        K::List(t) | K::FixedLengthList(t, _) => borrow_under_list(r, t, true),
        K::Map(k, v) => borrow_under_list(r, k, true) || borrow_under_list(r, v, true),
        K::Option(t) | K::Type(t) => borrow_under_list(r, t, under),
        K::Result(x) => x.ok.iter().chain(x.err.iter()).any(|t| borrow_under_list(r, t, under)),
        K::Tuple(t) => t.types.iter().any(|t| borrow_under_list(r, t, under)),
        K::Record(x) => x.fields.iter().any(|f| borrow_under_list(r, &f.ty, under)),
        K::Variant(x) => x.cases.iter().filter_map(|c| c.ty.as_ref()).any(|t| borrow_under_list(r, t, under)),
        _ => false,
    }
}

/// names of the Rust prelude and of items the generated code refers to
const RUST_NAMES: &[&str] = &[
    "sized", "send", "sync", "copy", "debug", "eq", "ord", "hash", "iterator", "t", "guest", "rt", "core", "std", "bitflags", "rep", "to-owned", "as-ref", "from", "option", "result", "string", "char", "u8", "bool", "f32", "list", "cabi-realloc",
];

/// WIT names that collide with generated helper items / modules (one listed finding)
const HELPER_NAMES: &[&str] = &["ret-area", "params-lower", "stub", "exports", "alloc", "wit-future", "wit-stream", "wit-bindgen"];
/// listed findings are recognised by the situation they need, not by the compiler's wording
fn classify_known(m: &Member, e: &str) -> Option<&'static str> {
    use heck::ToSnakeCase;
    let funcs = world_funcs(m);
    let fields: Vec<String> = m
        .resolve
        .types
        .iter()
        .filter_map(|(_, t)| if let wit_parser::TypeDefKind::Record(r) = &t.kind { Some(r) } else { None })
        .flat_map(|r| r.fields.iter().map(|f| wit_bindgen_rust::to_rust_ident(&f.name)))
        .collect();
    let shadowed = funcs.iter().flat_map(|(_, f)| f.params.iter()).any(|p| {
        let n = p.name.to_snake_case();
        let stem = n.trim_end_matches(|c: char| c.is_ascii_digit());
        const STEMS: &[&str] = &["l", "len", "result", "base", "vec", "ptr", "layout", "v", "t", "map", "idx", "handle", "elem", "bytes", "array", "wit_import"];
        n == "cleanup_list" || stem.len() < n.len() && (fields.iter().any(|f| f == stem) || STEMS.contains(&stem))
    });
    // a listed finding only absorbs the kinds of diagnostics it produces; syntax errors never
    let codes = |cs: &[&str]| !e.contains("expected identifier") && cs.iter().any(|c| e.contains(c));
    const TYPE_ERRORS: &[&str] = &["E0599", "E0277", "E0308", "E0369", "E0614", "E0606", "E0605", "E0609", "E0610"];
    if shadowed && codes(TYPE_ERRORS) {
        return Some(backends::KF_RUST_TMP_SHADOWS_PARAM);
    }
    {
        use wit_parser::TypeDefKind as K;
        let named = |names: &[&str], pred: &dyn Fn(&K) -> bool| m.resolve.types.iter().any(|(_, t)| pred(&t.kind) && t.name.as_deref().map(|n| names.contains(&n)).unwrap_or(false));
        if named(&["ok", "err", "some", "none"], &|k| matches!(k, K::Flags(_))) && codes(&["E0308", "E0530", "E0170", "E0532", "E0423", "E0599"]) {
            return Some(backends::KF_RUST_FLAGS_NAMED_LIKE_PRELUDE_CTOR);
        }
        let case_self = m.resolve.types.iter().any(|(_, t)| match &t.kind {
            K::Variant(v) => v.cases.iter().any(|c| c.name == "self"),
            K::Enum(v) => v.cases.iter().any(|c| c.name == "self"),
            K::Flags(v) => v.flags.iter().any(|c| c.name == "self"),
            _ => false,
        });
        if case_self && e.contains("`Self`") {
            return Some(backends::KF_RUST_CASE_NAMED_SELF);
        }
        if e.contains("type_guard") && named(&["t"], &|k| matches!(k, K::Resource)) {
            return Some(backends::KF_RUST_EXPORTED_RESOURCE_NAMED_T);
        }
    }
    if m.variant == "borrowed-duplicate" && ["E0308", "E0107", "E0106", "E0726"].iter().any(|c| e.contains(c)) {
        return Some(backends::KF_RUST_BORROWED_DUPLICATE);
    }
    if m.variant == "raw-strings" && e.contains("E0119") && e.contains("Payload") {
        return Some(backends::KF_RUST_RAW_STRINGS_PAYLOAD);
    }
    {
        let w = &m.resolve.worlds[m.world];
        let ids = |imports: bool| -> Vec<wit_parser::InterfaceId> {
            let items = if imports { &w.imports } else { &w.exports };
            items.iter().filter_map(|(_, i)| if let wit_parser::WorldItem::Interface { id, .. } = i { Some(*id) } else { None }).collect()
        };
        let (imp, exp) = (ids(true), ids(false));
        if e.contains("E0277") && e.contains("Payload` is not satisfied") && imp.iter().any(|i| exp.contains(i)) {
            return Some(backends::KF_RUST_PAYLOAD_IMPORT_EXPORT);
        }
    }
    let wit = m.ctx.split_once("WIT:\n").map(|x| x.1).unwrap_or("");
    let has_ident = |n: &str| {
        wit.match_indices(n).any(|(i, _)| {
            let ok = |c: Option<char>| !c.map(|c| c.is_ascii_alphanumeric() || c == '-').unwrap_or(false);
            ok(wit[..i].chars().next_back()) && ok(wit[i + n.len()..].chars().next())
        })
    };
    if HELPER_NAMES.iter().any(|n| has_ident(n)) && (codes(TYPE_ERRORS) || codes(&["E0428", "E0433", "E0260", "E0769", "E0405", "E0432"])) {
        return Some(backends::KF_RUST_HELPER_ITEM_NAMES);
    }
    if e.contains("E0592") && funcs.iter().any(|(ex, f)| !ex && !matches!(f.kind, wit_parser::FunctionKind::Freestanding | wit_parser::FunctionKind::AsyncFreestanding | wit_parser::FunctionKind::Constructor(_)) && ["handle", "take_handle", "from_handle", "new"].contains(&f.item_name().to_snake_case().as_str())) {
        return Some(backends::KF_RUST_RESOURCE_FUNC_NAME);
    }
    if e.contains("E0506") && e.contains("`handle") && funcs.iter().filter(|(ex, _)| *ex).flat_map(|(_, f)| f.params.iter()).any(|p| borrow_under_list(&m.resolve, &p.ty, false)) {
        return Some(backends::KF_RUST_BORROW_IMPORTED_IN_LIST);
    }
    if m.variant.starts_with("borrowed") && (e.contains("E0726") || e.contains("E0106")) && (funcs.iter().any(|(ex, f)| !ex && f.kind.is_async()) || m.resolve.types.iter().any(|(_, t)| matches!(t.kind, wit_parser::TypeDefKind::Future(_) | wit_parser::TypeDefKind::Stream(_)))) {
        return Some(backends::KF_RUST_BORROWING_ASYNC_IMPORT);
    }
    None
}

fn rust_index() -> u8 {
    backends::BACKENDS.iter().position(|b| *b == "rust").unwrap() as u8
}

/// Rust option variants that can be built without std
fn nostd_variants() -> Vec<(&'static str, Vec<&'static str>)> {
    backends::variants("rust").into_iter().filter(|(n, _)| *n != "hashmap").collect()
}

pub fn run(check: &mut Check) {
    // every shrink step is a compiler run
    vcommon::SHRINK_ITERS.store(150, std::sync::atomic::Ordering::Relaxed);
    check.rule = "generated worlds (adversarial names: Rust keywords, prelude items, generator temporaries such as ptr0/len0/result0/ret/base/e, names differing by separator) + corpus files x Rust option variants {default, borrowing, borrowing-duplicate-if-necessary, --async=all, --std-feature, --merge-structurally-equal-types, --raw-strings} x editions {2021, 2024}: `--stubs --generate-all` output is built as a no_std cdylib for wasm32-unknown-unknown (-Zbuild-std=core,alloc), encoded with wit_component::ComponentEncoder, validated, decoded; \
        oracle: the build succeeds, the component validates, it exports exactly the requested world's exports with identical function types and imports a subset of its imports; non-trivial = every member (each is a distinct (world, variant, edition) build); batches are built with one cargo invocation".into();
    check.assumptions.push("std is unavailable for wasm32 here (dlmalloc not cached): the HashMap map type (needs std) is not built; a bump allocator, a panic handler and a wasip3_task_set stand-in are supplied by the harness".into());
    check.assumptions.push("stub bodies do not call imports, so imports are only checked as a subset".into());
    if check.is_replay() {
        vcommon::harness_error("C09 builds batches; re-run ./check C09 quick to reproduce (members are a function of VERIF_SEED)");
    }
    let vars = nostd_variants();
    let mut members: Vec<Member> = vec![];
    // corpus sample
    let corpus = backends::corpus();
    let ncorpus = check.tier.pick(14usize, corpus.len());
    let stride = (corpus.len() / ncorpus).max(1);
    // (file index, variant index): a strided sample with rotating variants, plus the files
    // with many structurally equal types under --merge-structurally-equal-types
    let merge_idx = vars.iter().position(|v| v.0 == "merge-equal").unwrap();
    let mut picks: Vec<(usize, usize)> = (0..corpus.len()).filter(|i| i % stride == 0).map(|i| (i, i % vars.len())).collect();
    for (i, (name, _, _)) in corpus.iter().enumerate() {
        if ["records.wit", "variants.wit", "flags.wit", "lists.wit", "resources.wit", "simple-functions.wit", "multi-return.wit", "smoke.wit"].contains(&name.as_str()) || check.tier == vcommon::Tier::Thorough {
            picks.push((i, merge_idx));
        }
    }
    picks.sort();
    picks.dedup();
    for (i, vi) in picks {
        let (name, path, text) = &corpus[i];
        let Ok((resolve, world)) = backends::resolve_input(&Input::Path(path), None) else { continue };
        let (variant, args) = vars[vi].clone();
        if backends::corpus_excluded(name, text, "rust", variant) {
            continue;
        }
        let tmp = tempfile::tempdir().unwrap();
        if let GenOutcome::Files(f) = backends::generate("rust", &args, &resolve, world, Some(tmp.path())) {
            if let Some((_, b)) = f.iter().find(|(n, _)| n.ends_with(".rs")) {
                members.push(Member {
                    label: serde_json::json!({"corpus": name, "variant": variant}),
                    bindings: String::from_utf8_lossy(b).to_string(),
                    resolve,
                    world,
                    variant: variant.to_string(),
                    edition: if i % 2 == 0 { "2021" } else { "2024" },
                    ctx: format!("tests/codegen/{name} variant {variant}"),
                });
            }
        }
    }
    // generated worlds
    let nworlds = check.tier.pick(26usize, 600);
    let tapes = check.draw("worlds", &tape_strategy(700), nworlds);
    // listed finding: the duplicate-if-necessary mode is only exercised on the corpus
    let known = backends::all_known_sigs();
    let vars: Vec<_> = vars.into_iter().filter(|v| !(v.0 == "borrowed-duplicate" && known.iter().any(|k| k == backends::KF_RUST_BORROWED_DUPLICATE))).collect();
    for (i, tape) in tapes.into_iter().enumerate() {
        let vi = vars.iter().position(|v| v.0 == vars[i % vars.len()].0).unwrap();
        // map onto the index space of backends::variants("rust")
        let all = backends::variants("rust");
        let variant_idx = all.iter().position(|v| v.0 == vars[vi].0).unwrap() as u8;
        let c = WorldCase { tape, backend: rust_index(), variant: variant_idx };
        // option combinations: every third world gets a second option on top of its variant's
        const EXTRA: &[&str] = &["--merge-structurally-equal-types", "--ownership=borrowing", "--raw-strings", "--std-feature"];
        let extra: Option<&'static str> = if i % 3 == 2 { Some(EXTRA[(i / 3) % EXTRA.len()]) } else { None };
        let base_variant = vars[vi].0;
        let extra = extra.filter(|e| !vars[vi].1.contains(e) && !(base_variant.starts_with("borrowed") && e.starts_with("--ownership")));
        let merge = base_variant == "merge-equal" || extra == Some("--merge-structurally-equal-types");
        let no_async = matches!(extra, Some("--ownership=borrowing") | Some("--raw-strings"));
        let Some(mut p) = crate::c16::prepare_with(&c, |p| {
            p.extra_names = RUST_NAMES.to_vec();
            // structurally equal types with different uses matter to the merge option
            p.near_equal_types = merge;
            if no_async && (known.iter().any(|k| k == backends::KF_RUST_BORROWING_ASYNC_IMPORT) || known.iter().any(|k| k == backends::KF_RUST_RAW_STRINGS_PAYLOAD)) {
                p.async_ = false;
                p.async_funcs = false;
            }
        }) else {
            continue;
        };
        let variant_name: String = match extra {
            // classification of listed findings goes by the leading option
            Some("--ownership=borrowing") => format!("borrowed+{base_variant}"),
            Some("--raw-strings") => "raw-strings".to_string(),
            Some(e) => format!("{base_variant}+{}", e.trim_start_matches("--")),
            None => base_variant.to_string(),
        };
        if let Some(e) = extra {
            p.args.push(e);
        }
        let tmp = tempfile::tempdir().unwrap();
        if let GenOutcome::Files(f) = backends::generate("rust", &p.args, &p.resolve, p.world, Some(tmp.path())) {
            if let Some((_, b)) = f.iter().find(|(n, _)| n.ends_with(".rs")) {
                members.push(Member {
                    label: serde_json::json!({"tape_len": c.tape.len(), "variant": variant_name, "wit": if p.text.len() < 400 { p.text.clone() } else { format!("{}...", &p.text.chars().take(400).collect::<String>()) }}),
                    bindings: String::from_utf8_lossy(b).to_string(),
                    world: p.world,
                    variant: variant_name.clone(),
                    edition: if i % 2 == 0 { "2021" } else { "2024" },
                    ctx: format!("variant {} args {:?}\nWIT:\n{}", variant_name, p.args, p.text),
                    resolve: p.resolve,
                });
            }
        }
    }
    // witnesses: listed findings (tolerated by signature only) and fixed defects (must build)
    for (wname, wargs, wit) in [
        ("item-named-like-namespace", vec!["--stubs", "--generate-all"], "package a:a;\ninterface i { f: func(); }\nworld w {\n  export i;\n  export a: interface { g: func(); }\n}"),
        ("field-tmp-shadows-param", vec!["--stubs", "--generate-all"], "package a:a;\ninterface i {\n  resource c;\n  record r { a: s16 }\n  f: func(x: r, a1: borrow<c>);\n}\nworld w { import i; }"),
        ("tmp-ptr0-shadows-param", vec!["--stubs", "--generate-all"], "package a:a;\nworld w { import f: func(a: string, ptr0: string); }"),
        ("resource-func-named-handle", vec!["--stubs", "--generate-all"], "package a:a;\ninterface i { resource r { handle: func(); } }\nworld w { import i; }"),
        ("borrow-imported-in-list", vec!["--stubs", "--generate-all"], "package a:a;\ninterface res { resource r; }\ninterface i { use res.{r}; f: func(x: list<borrow<r>>); }\nworld w { export i; }"),
        ("borrowing-async-import", vec!["--stubs", "--generate-all", "--ownership=borrowing"], "package a:a;\ninterface i { record r { a: list<u8> } f: async func(x: r); }\nworld w { import i; }"),
        ("borrowing-future-payload", vec!["--stubs", "--generate-all", "--ownership=borrowing"], "package a:a;\ninterface i { record c { s: string } f: func(x: future<c>); }\nworld w { import i; }"),
        ("tmp-cleanup-list-shadows-param", vec!["--stubs", "--generate-all"], "package a:a;\nworld w { import f: func(a: list<list<string>>, cleanup-list: s16); }"),
        ("flags-named-err", vec!["--stubs", "--generate-all"], "package a:a;\ninterface i { flags err { a, b } resource r { constructor(x: bool) -> result<r>; } }\nworld w { import i; }"),
        ("case-named-self", vec!["--stubs", "--generate-all"], "package a:a;\ninterface i { enum e { a, self } f: func(x: e); }\nworld w { import i; }"),
        ("exported-resource-named-t", vec!["--stubs", "--generate-all"], "package a:a;\nworld w { export i: interface { resource t; } }"),
        ("borrowed-duplicate-alias", vec!["--stubs", "--generate-all", "--ownership=borrowing-duplicate-if-necessary"], "package a:a;\ninterface i {\n  record foo { s: string }\n  type bar = foo;\n  f: func(this: bar);\n}\nworld w { import i; export i; }"),
        ("raw-strings-payloads", vec!["--stubs", "--generate-all", "--raw-strings"], "package a:a;\nworld w { import f: func(a: stream<string>, b: stream<list<u8>>); }"),
        ("payload-of-imported-and-exported-type", vec!["--stubs", "--generate-all"], "package a:a;\ninterface i { record n { a: u8 } f: func(x: stream<result<n>>); }\nworld w { import i; export i; }"),
        ("helper-item-name", vec!["--stubs", "--generate-all"], "package a:a;\nworld w { import f: func(ret-area: string) -> string; }"),
        // fixed in /repo (must build)
        ("fixed-raw-strings", vec!["--stubs", "--generate-all", "--raw-strings"], "package a:a;\nworld w { export f: func(x: string) -> string; import g: func(x: string) -> string; }"),
        ("fixed-world-level-map", vec!["--stubs", "--generate-all"], "package a:a;\nworld w { import f: func(x: map<string, bool>); export g: func() -> future<map<bool, bool>>; }"),
        ("fixed-fixed-list-of-strings", vec!["--stubs", "--generate-all"], "package a:a;\nworld w {\n  resource ffi;\n  import f: func(x: list<string, 2>);\n  import h: func(x: list<option<ffi>, 3>, y: string, z: list<u8>, a: u64, b: u64, c: u64, d: u64, e: u64, f: u64, g: u64, h: u64, i: u64, j: u64, k: u64, l: u64, m: u64);\n}"),
        ("fixed-type-named-self", vec!["--stubs", "--generate-all"], "package a:a;\ninterface i { enum self { a, b } f: func(x: self) -> self; }\nworld w { import i; export i; }"),
        ("fixed-type-named-result", vec!["--stubs", "--generate-all"], "package a:a;\nworld w {\n  export i: interface {\n    record %result { a: u8 }\n    resource r { constructor(x: bool) -> result<r>; }\n    f: func(a: result<%result>) -> result<u8, %result>;\n  }\n}"),
        ("fixed-type-named-into", vec!["--stubs", "--generate-all", "--async=all"], "package a:a;\ninterface i { flags into { a } resource r { f: static async func(a: list<s64>); } }\nworld w { import i; }"),
        ("fixed-resource-named-self", vec!["--stubs", "--generate-all"], "package a:a;\nworld w {\n  export thing: interface {\n    resource self { constructor(); f: func(x: borrow<self>); }\n    resource guest { constructor(); }\n    resource %option { constructor(); }\n    g: func(x: self, y: guest) -> self;\n  }\n}"),
        ("fixed-types-named-like-traits", vec!["--stubs", "--generate-all", "--async=all"], "package a:a;\nworld w {\n  export thing: interface {\n    resource %from { constructor() -> result<%from>; f: func(x: list<u8>); }\n    resource sized { constructor(); }\n    resource send { constructor(); g: async func(x: list<u8>); }\n  }\n}"),
        ("fixed-keyword-gen", vec!["--stubs", "--generate-all"], "package a:a;\ninterface i { record r { gen: u8 } gen: func(gen: r); }\nworld w { import i; export i; }"),
    ] {
        let (resolve, world) = backends::resolve_input(&Input::Text(wit), None).unwrap_or_else(|e| vcommon::harness_error(format!("witness does not parse: {e:#}")));
        let tmp = tempfile::tempdir().unwrap();
        if let GenOutcome::Files(f) = backends::generate("rust", &wargs, &resolve, world, Some(tmp.path())) {
            if let Some((_, b)) = f.iter().find(|(n, _)| n.ends_with(".rs")) {
                let variant = if wargs.contains(&"--raw-strings") {
                    "raw-strings"
                } else if wargs.iter().any(|a| a.contains("duplicate")) {
                    "borrowed-duplicate"
                } else if wargs.iter().any(|a| a.contains("borrowing")) {
                    "borrowed"
                } else {
                    "default"
                };
                members.push(Member { label: serde_json::json!({"witness": wname, "wit": wit}), bindings: String::from_utf8_lossy(b).to_string(), resolve, world, variant: variant.into(), edition: "2024", ctx: format!("witness {wname} args {wargs:?} WIT:\n{wit}") });
            }
        }
    }
    // every adversarial name in every position (function, parameter, record, field, enum case,
    // interface), a chunk of names per world: a single missing escape is seen by the quick tier
    {
        let known = backends::all_known_sigs();
        let mut profile = backends::profile_excluding_known("rust", "default", &known);
        profile.extra_names.clear();
        let mut names: Vec<&str> = witgen::names::ADVERSARIAL.iter().copied().chain(RUST_NAMES.iter().copied()).collect();
        names.sort();
        names.dedup();
        for (ci, chunk) in names.chunks(24).enumerate() {
            let mut funcs = String::new();
            let mut types = String::new();
            for (k, n) in chunk.iter().enumerate() {
                let w = witgen::wit_name(n);
                let tn = if profile.avoid_type_names.contains(n) { format!("{n}-n") } else { n.to_string() };
                let cn = if profile.avoid_case_names.contains(n) { format!("{n}-n") } else { n.to_string() };
                let pn = if profile.avoid_param_names.contains(n) { format!("{n}-p") } else { n.to_string() };
                let (tw, cw, pw) = (witgen::wit_name(&tn), witgen::wit_name(&cn), witgen::wit_name(&pn));
                types.push_str(&format!("  record {tw} {{ {w}: u8, other: string }}\n  enum e{k} {{ {cw}, other }}\n"));
                funcs.push_str(&format!("  use types{ci}.{{{tw} as ty{k}, e{k}}};\n  {w}: func({pw}: ty{k}, second-param: e{k}) -> ty{k};\n"));
            }
            let first = witgen::wit_name(chunk[0]);
            let wit = format!("package a:kw;\ninterface types{ci} {{\n{types}}}\ninterface {first} {{\n{funcs}}}\nworld w{ci} {{\n  import {first};\n  export {first};\n}}\n");
            let (resolve, world) = backends::resolve_input(&Input::Text(&wit), None).unwrap_or_else(|e| vcommon::harness_error(format!("name-sweep world does not parse: {e:#}\n{wit}")));
            let (variant, args) = vars[ci % vars.len()].clone();
            let tmp = tempfile::tempdir().unwrap();
            if let GenOutcome::Files(f) = backends::generate("rust", &args, &resolve, world, Some(tmp.path())) {
                if let Some((_, b)) = f.iter().find(|(n, _)| n.ends_with(".rs")) {
                    members.push(Member { label: serde_json::json!({"name-sweep": ci, "variant": variant, "names": chunk}), bindings: String::from_utf8_lossy(b).to_string(), resolve, world, variant: variant.to_string(), edition: "2024", ctx: format!("name sweep {ci} variant {variant} args {args:?}\nWIT:\n{wit}") });
                }
            }
        }
    }
    let built = build_batch(&members);
    for (i, (m, b)) in members.iter().zip(&built).enumerate() {
        check.case("members", &m.label, |_, obs| {
            obs.evals = 3;
            obs.nontrivial_by(&(i, &m.ctx));
            obs.label(m.variant.clone());
            judge_member(m, b)
        });
    }
}
