//! C33 — CLI check mode succeeds exactly when outputs are up to date, reports
//! line-ending-only differences as such, and never writes.
use crate::c15::{build_cli, read_tree, run_cli};
use crate::c16::prepare;
use crate::{tape_strategy, WorldCase};
use proptest::prelude::*;
use serde::{Deserialize, Serialize};
use std::collections::BTreeMap;
use std::path::Path;
use vcommon::{ensure, CaseResult, Check, Failure, Obs};

#[derive(Clone, Debug, Hash, Serialize, Deserialize)]
pub struct CheckCase {
    pub world: WorldCase,
    /// per generated file (by sorted index): which mutation to apply
    pub plan: Vec<u8>,
    pub extra_file: bool,
}

#[derive(Clone, Copy, Debug, PartialEq, Eq)]
enum Mutation {
    Keep,
    Delete,
    FlipByte,
    Append,
    Crlf,
    Binary,
    Truncate,
}

fn mutation(code: u8) -> Mutation {
    match code % 12 {
        0..=5 => Mutation::Keep,
        6 => Mutation::Delete,
        7 => Mutation::FlipByte,
        8 => Mutation::Append,
        9 => Mutation::Crlf,
        10 => Mutation::Binary,
        _ => Mutation::Truncate,
    }
}

fn snapshot(dir: &Path) -> BTreeMap<String, (Vec<u8>, Option<std::time::SystemTime>)> {
    let mut out = BTreeMap::new();
    for (n, b) in read_tree(dir) {
        let m = std::fs::metadata(dir.join(&n)).ok().and_then(|m| m.modified().ok());
        out.insert(n, (b, m));
    }
    out
}

fn copy_tree(from: &Path, to: &Path) -> std::io::Result<()> {
    for (n, b) in read_tree(from) {
        let p = to.join(&n);
        if let Some(parent) = p.parent() {
            std::fs::create_dir_all(parent)?;
        }
        std::fs::write(p, b)?;
    }
    Ok(())
}

fn prop(c: &CheckCase, obs: &mut Obs) -> CaseResult {
    let Some(p) = prepare(&c.world) else {
        obs.label("discarded-generator-invalid-world");
        return Ok(());
    };
    let io = |e: std::io::Error| Failure::new("io", e.to_string());
    let root = tempfile::tempdir().map_err(io)?;
    let wit = root.path().join("gen.wit");
    std::fs::write(&wit, &p.text).map_err(io)?;
    let d = root.path().join("out");
    let wname = p.resolve.worlds[p.world].name.clone();
    let (ok, _err) = run_cli(p.backend, &p.args, &wit, Some(&wname), &d, false);
    if !ok {
        obs.label("generation-failed");
        return Ok(());
    }
    let files = read_tree(&d);
    if files.is_empty() {
        return Ok(());
    }
    // apply the mutation plan
    let mut applied = vec![];
    let mut any = false;
    for (i, (name, bytes)) in files.iter().enumerate() {
        let m = mutation(c.plan.get(i).copied().unwrap_or(0));
        let path = d.join(name);
        let is_text = std::str::from_utf8(bytes).map(|s| !s.chars().any(|c| c.is_control() && !matches!(c, '\n' | '\r' | '\t'))).unwrap_or(false);
        let did = match m {
            Mutation::Keep => false,
            Mutation::Delete => {
                std::fs::remove_file(&path).map_err(io)?;
                true
            }
            Mutation::FlipByte if !bytes.is_empty() => {
                let mut b = bytes.clone();
                let k = (c.plan[i] as usize * 7919) % b.len();
                b[k] ^= 0x20;
                std::fs::write(&path, b).map_err(io)?;
                true
            }
            Mutation::Append => {
                let mut b = bytes.clone();
                b.extend_from_slice(b"\n// appended\n");
                std::fs::write(&path, b).map_err(io)?;
                true
            }
            Mutation::Crlf if is_text && bytes.contains(&b'\n') && !bytes.contains(&b'\r') => {
                let s = String::from_utf8(bytes.clone()).unwrap().replace('\n', "\r\n");
                std::fs::write(&path, s).map_err(io)?;
                true
            }
            Mutation::Binary => {
                std::fs::write(&path, [0u8, 159, 146, 150, 0, 1, 2]).map_err(io)?;
                true
            }
            Mutation::Truncate if bytes.len() > 1 => {
                std::fs::write(&path, &bytes[..bytes.len() / 2]).map_err(io)?;
                true
            }
            _ => false,
        };
        if did {
            any = true;
            applied.push(format!("{m:?}:{name}"));
        }
    }
    if c.extra_file {
        std::fs::write(d.join("unrelated-extra-file.txt"), b"not generated").map_err(io)?;
        applied.push("extra-file".into());
    }
    // oracle: what would a real (writing) run change in a byte copy of the directory?
    let d2 = root.path().join("copy");
    copy_tree(&d, &d2).map_err(io)?;
    let before_copy = read_tree(&d2);
    let (ok_gen, gen_err) = run_cli(p.backend, &p.args, &wit, Some(&wname), &d2, false);
    if !ok_gen {
        // a writing run that fails (e.g. C++ refusing something) gives no oracle
        obs.label("oracle-run-failed");
        let _ = gen_err;
        return Ok(());
    }
    let after_copy = read_tree(&d2);
    let up_to_date = before_copy == after_copy;
    // line-ending-only staleness, judged from what the writing run changed
    let mut only_crlf = !up_to_date;
    for (n, new) in &after_copy {
        match before_copy.get(n) {
            None => only_crlf = false, // a file would be created
            Some(old) if old == new => {}
            Some(old) => {
                let text_ok = |b: &Vec<u8>| std::str::from_utf8(b).map(|s| !s.chars().any(|c| c.is_control() && !matches!(c, '\n' | '\r' | '\t'))).unwrap_or(false);
                let same_lines = text_ok(old)
                    && text_ok(new)
                    && std::str::from_utf8(old).unwrap().lines().eq(std::str::from_utf8(new).unwrap().lines());
                if !same_lines {
                    only_crlf = false;
                }
            }
        }
    }
    // the check run
    let snap = snapshot(&d);
    let root_before: Vec<String> = read_tree(root.path()).keys().cloned().collect();
    let (check_ok, stderr) = run_cli(p.backend, &p.args, &wit, Some(&wname), &d, true);
    let snap_after = snapshot(&d);
    let root_after: Vec<String> = read_tree(root.path()).keys().cloned().collect();

    obs.label(p.backend.to_string());
    obs.label(if up_to_date { "up-to-date" } else { "stale" });
    if any || c.extra_file {
        obs.nontrivial_by(&(&p.text, p.backend, p.variant, &applied));
        if p.text.len() < 300 {
            obs.sample = Some(serde_json::json!({"backend": p.backend, "variant": p.variant, "mutations": applied, "up_to_date": up_to_date, "check_ok": check_ok}));
        }
    }
    obs.evals = 3;
    let ctx = format!("backend {} variant {} mutations {applied:?}\nstderr: {}\nWIT:\n{}", p.backend, p.variant, stderr.lines().last().unwrap_or(""), p.text);
    ensure!(
        snap == snap_after,
        format!("check-mode-wrote {}", p.backend),
        "--check modified the output directory (names, bytes or mtimes changed)\n{ctx}"
    );
    ensure!(
        root_before == root_after,
        format!("check-mode-wrote-elsewhere {}", p.backend),
        "--check created or removed files outside the output directory: {:?} -> {:?}\n{ctx}",
        root_before,
        root_after
    );
    ensure!(
        check_ok == up_to_date,
        format!("check-mode-verdict {} expected-{}", p.backend, if up_to_date { "success" } else { "failure" }),
        "--check {} but a writing run {} the directory\n{ctx}",
        if check_ok { "succeeded" } else { "failed" },
        if up_to_date { "would not change" } else { "changes" }
    );
    // the CLI reports the first stale file in name order: classify that one
    let mut first_kind = None;
    for (n, new) in &after_copy {
        match before_copy.get(n) {
            None => {
                first_kind = Some("missing");
                break;
            }
            Some(old) if old == new => {}
            Some(old) => {
                let text_ok = |b: &Vec<u8>| std::str::from_utf8(b).map(|s| !s.chars().any(|c| c.is_control() && !matches!(c, '\n' | '\r' | '\t'))).unwrap_or(false);
                // the CLI only inspects the *existing* file for control characters
                let crlf = text_ok(old) && std::str::from_utf8(new).is_ok() && std::str::from_utf8(old).unwrap().lines().eq(std::str::from_utf8(new).unwrap().lines());
                first_kind = Some(if crlf { "crlf" } else { "other" });
                break;
            }
        }
    }
    if first_kind == Some("other") {
        ensure!(
            !stderr.contains("line endings"),
            format!("non-crlf-difference-reported-as-line-endings {}", p.backend),
            "the first stale file differs in more than line endings but the error blames line endings\n{ctx}"
        );
    }
    if first_kind == Some("crlf") {
        ensure!(
            stderr.contains("line endings"),
            format!("crlf-not-reported {}", p.backend),
            "the first stale file differs only in line endings but the error does not say so\n{ctx}"
        );
        obs.label("first-stale-file-crlf-only");
    }
    if !up_to_date && only_crlf {
        ensure!(
            stderr.contains("line endings"),
            format!("crlf-not-reported {}", p.backend),
            "only CRLF/LF differences exist but the error does not say so\n{ctx}"
        );
        obs.label("crlf-only");
    }
    Ok(())
}

fn strategy() -> impl Strategy<Value = CheckCase> {
    (tape_strategy(500), any::<u8>(), any::<u8>(), prop::collection::vec(any::<u8>(), 0..12), prop::bool::weighted(0.2)).prop_map(|(tape, backend, variant, plan, extra_file)| CheckCase {
        world: WorldCase { tape, backend, variant },
        plan,
        extra_file,
    })
}

pub fn run(check: &mut Check) {
    check.rule = "generated worlds x (backend, variant): the CLI (built from /repo) writes into D; a generated mutation plan per file in {keep, delete, flip a byte, append, LF->CRLF (text only), replace by binary, truncate} plus optionally an unrelated extra file; then `--check` on D. \
        Oracle (metamorphic): a writing run into a byte copy D' changes nothing <=> --check must succeed; D (names, bytes, mtimes) identical after --check and nothing appears elsewhere under the scratch root; CRLF-only differences must be reported as line-ending differences; \
        non-trivial = at least one file mutated or an extra file; distinct by (WIT, backend, variant, mutations)".into();
    check.assumptions.push("the oracle run and the check run are separate processes of the same CLI binary built from /repo's working tree".into());
    build_cli();
    // hand-picked plans: nothing mutated (must succeed), all CRLF
    let n = check.tier.pick(400, 8_000);
    check.prop("check-mode", strategy, n, prop);
    check.prop(
        "crlf-only",
        || (tape_strategy(300), any::<u8>(), any::<u8>(), 0usize..4).prop_map(|(tape, backend, variant, which)| {
            let mut plan = vec![0u8; 12];
            plan[which] = 9;
            CheckCase { world: WorldCase { tape, backend, variant }, plan, extra_file: false }
        }),
        n / 4,
        prop,
    );
    check.prop(
        "untouched",
        || (tape_strategy(300), any::<u8>(), any::<u8>()).prop_map(|(tape, backend, variant)| CheckCase { world: WorldCase { tape, backend, variant }, plan: vec![], extra_file: false }),
        n / 4,
        |c, obs| {
            let r = prop(c, obs);
            // counts as non-trivial: the plain up-to-date case across backends
            obs.nontrivial_by(&(&c.world.tape, c.world.backend));
            r
        },
    );
}
