//! C14 — every backend's scalar conversions implement the canonical ABI mapping.
//!
//! One world with a function `f<i>: func(p0: T) -> T` per scalar type, imported and exported.
//!
//! * Rust, C and C++: the generated code is compiled natively and executed (exec.rs): the host
//!   calls the export with an arbitrary core value `b`, the forwarding guest lifts it, lowers it
//!   again into the import call, the host answers with an arbitrary core value `r` which comes
//!   back through the import's lift and the export's lower. Both observed core values must be
//!   `lower(lift(.))` of the canonical ABI. Narrow types are enumerated exhaustively (all 2^8 /
//!   2^16 low patterns under several high-bit patterns), wide ones at boundaries and at random.
//! * MoonBit, Go, D and C# (no toolchain in the sandbox): the four conversion expressions per
//!   type are taken from the generated source and evaluated by a small interpreter of each
//!   language's integer conversion semantics over the same inputs.
use crate::backends::{self, GenOutcome, Input};
use crate::exec::{self, Func, ProxyWorld};
use crate::execc;
use refabi::Ty;
use std::cell::RefCell;
use std::path::Path;
use vcommon::{Check, Failure};

const TYPES: &[(&str, Ty)] = &[("u8", Ty::U8), ("s8", Ty::S8), ("u16", Ty::U16), ("s16", Ty::S16), ("u32", Ty::U32), ("s32", Ty::S32), ("u64", Ty::U64), ("s64", Ty::S64), ("f32", Ty::F32), ("f64", Ty::F64), ("char", Ty::Char), ("bool", Ty::Bool)];

fn world() -> ProxyWorld {
    ProxyWorld { funcs: TYPES.iter().map(|(_, t)| Func { params: vec![t.clone()], result: Some(t.clone()), sink: false }).collect(), calls: vec![] }
}

fn is64(t: &Ty) -> bool {
    matches!(t, Ty::U64 | Ty::S64 | Ty::F64)
}

/// canonical `lower(lift(bits))` of a core value; None when lifting traps (invalid char)
pub fn canon(t: &Ty, bits: u64) -> Option<u64> {
    let b32 = bits as u32;
    Some(match t {
        Ty::U8 => (b32 & 0xff) as u64,
        Ty::S8 => (b32 as u8 as i8 as i32 as u32) as u64,
        Ty::U16 => (b32 & 0xffff) as u64,
        Ty::S16 => (b32 as u16 as i16 as i32 as u32) as u64,
        Ty::U32 | Ty::S32 | Ty::F32 => b32 as u64,
        Ty::U64 | Ty::S64 | Ty::F64 => bits,
        Ty::Char => {
            char::from_u32(b32)?;
            b32 as u64
        }
        Ty::Bool => (b32 != 0) as u64,
        _ => unreachable!(),
    })
}

/// the core values fed into a lift of type `t`
fn inputs(t: &Ty, seed: u64, thorough: bool) -> Vec<u64> {
    let mut x = seed | 1;
    let mut rnd = move || {
        x ^= x << 13;
        x ^= x >> 7;
        x ^= x << 17;
        x
    };
    let mut v: Vec<u64> = vec![];
    match t {
        Ty::U8 | Ty::S8 => {
            for hi in [0u64, 0xffff_ff00, 0x1234_5600, 0x8000_0000, 0x0000_0100] {
                for lo in 0..256u64 {
                    v.push(hi | lo);
                }
            }
        }
        Ty::U16 | Ty::S16 => {
            for hi in [0u64, 0xffff_0000, 0x8001_0000] {
                for lo in 0..65536u64 {
                    v.push(hi | lo);
                }
            }
        }
        // a conforming host lowers booleans to exactly 0 or 1 (the Rust runtime asserts it)
        Ty::Bool => v.extend([0u64, 1]),
        Ty::Char => {
            v.extend([0u64, 1, 0x7f, 0x80, 0x7ff, 0x800, 0xd7ff, 0xe000, 0xffff, 0x10000, 0x10ffff]);
            for _ in 0..if thorough { 200_000 } else { 20_000 } {
                let c = (rnd() % 0x110000) as u32;
                if char::from_u32(c).is_some() {
                    v.push(c as u64);
                }
            }
        }
        _ => {
            let w = if is64(t) { 64 } else { 32 };
            let mask = if w == 64 { u64::MAX } else { 0xffff_ffff };
            for k in 0..w {
                v.extend([(1u64 << k) & mask, ((1u64 << k).wrapping_sub(1)) & mask, (!(1u64 << k)) & mask]);
            }
            // float specials: infinities, NaNs with payloads, signed zeros, subnormals
            v.extend([0x7f80_0000u64, 0xff80_0000, 0x7fc0_0000, 0x7fa0_0001, 0xffc1_2345, 0x8000_0000, 1, 0x007f_ffff]);
            if w == 64 {
                v.extend([0x7ff0_0000_0000_0000u64, 0xfff0_0000_0000_0000, 0x7ff8_0000_0000_0000, 0x7ff4_0000_0000_0001, 0xfff8_1234_5678_9abc, 0x8000_0000_0000_0000, 0x000f_ffff_ffff_ffff]);
            }
            for _ in 0..if thorough { 500_000 } else { 50_000 } {
                v.push(rnd() & mask);
            }
        }
    }
    v
}

// ---------------------------------------------------------------- native execution

thread_local! {
    /// (value the import answers with, core argument the import saw, import calls)
    static NATIVE: RefCell<(u64, u64, u32)> = const { RefCell::new((0, 0, 0)) };
}

unsafe extern "C" fn native_host(id: u32, args: *const u64, nargs: usize, ret: *mut u64) {
    if id >= 8000 {
        // value probes of the C glue (C10's subject)
        return;
    }
    NATIVE.with(|n| {
        let mut n = n.borrow_mut();
        n.1 = if nargs > 0 { *args } else { 0 };
        n.2 += 1;
        *ret = n.0;
    })
}

/// drive all scalar functions of a natively built guest object
fn run_native(so: &Path, imports: &[(String, String)], seed: u64, thorough: bool, evals: &mut u64) -> Result<(), Failure> {
    let lib = exec::Lib::open(so).map_err(|e| Failure::new("load-error", format!("cannot load the guest object: {e}")))?;
    let set_host: unsafe extern "C" fn(unsafe extern "C" fn(u32, *const u64, usize, *mut u64)) = unsafe { std::mem::transmute(lib.sym("__verif_set_host").expect("glue symbol")) };
    unsafe { set_host(native_host) };
    let _ = imports;
    for (i, (name, t)) in TYPES.iter().enumerate() {
        let export: unsafe extern "C" fn(*const u64, *mut u64) = unsafe { std::mem::transmute(lib.sym(&format!("__verif_export_{i}")).expect("trampoline")) };
        let ins = inputs(t, seed.wrapping_add(i as u64), thorough);
        let mask = if is64(t) { u64::MAX } else { 0xffff_ffff };
        for (k, b) in ins.iter().enumerate() {
            // the import answers with another input of the same type
            let r = ins[(k * 7 + 3) % ins.len()];
            let (Some(want_arg), Some(want_ret)) = (canon(t, *b), canon(t, r)) else { continue };
            NATIVE.with(|n| *n.borrow_mut() = (r, 0, 0));
            let a = [*b];
            let mut ret = 0u64;
            unsafe { export(a.as_ptr(), &mut ret) };
            let (_, seen, calls) = NATIVE.with(|n| *n.borrow());
            *evals += 2;
            if calls != 1 {
                return Err(Failure::new(format!("import-call-count {name}"), format!("f{i} ({name}): the forwarding export called its import {calls} times")));
            }
            if seen & mask != want_arg {
                return Err(Failure::new(format!("scalar {name}: export-lift + import-lower"), format!("{name}: the export received core value {b:#x}; lifting and lowering it again must give {want_arg:#x}, the import was called with {:#x}", seen & mask)));
            }
            if ret & mask != want_ret {
                return Err(Failure::new(format!("scalar {name}: import-lift + export-lower"), format!("{name}: the import returned core value {r:#x}; lifting and lowering it again must give {want_ret:#x}, the export returned {:#x}", ret & mask)));
            }
        }
    }
    Ok(())
}

const CPP_TYPES: &[&str] = &["uint8_t", "int8_t", "uint16_t", "int16_t", "uint32_t", "int32_t", "uint64_t", "int64_t", "float", "double", "uint32_t", "bool"];

/// build the C++ scalar world natively
fn cpp_member(dir: &Path, wit: &str) -> Result<std::path::PathBuf, String> {
    let (resolve, wid) = backends::resolve_input(&Input::Text(wit), Some("w")).map_err(|e| format!("harness: {e:#}"))?;
    let _ = std::fs::remove_dir_all(dir);
    std::fs::create_dir_all(dir).unwrap();
    let files = match backends::generate("cpp", &[], &resolve, wid, Some(dir)) {
        GenOutcome::Files(f) => f,
        GenOutcome::Error(e) => return Err(format!("generator error: {e}")),
        GenOutcome::Panic(p) => return Err(format!("generator panic: {}", p.render())),
    };
    for (n, b) in &files {
        if n.ends_with(".cpp") || n.ends_with(".h") {
            std::fs::write(dir.join(n), b).unwrap();
        }
    }
    let src = files.iter().find(|(n, _)| n.ends_with(".cpp")).map(|(_, b)| String::from_utf8_lossy(b).to_string()).ok_or("harness: no .cpp output")?;
    let mut g = String::from("#include <cstdint>\n#include <cstddef>\n#include <cstring>\n#include \"w_cpp.h\"\nextern \"C\" void __component_type_object_force_link_w(void) {}\ntypedef void (*verif_host_fn)(uint32_t, const uint64_t *, size_t, uint64_t *);\nstatic verif_host_fn v_host;\nextern \"C\" void __verif_set_host(verif_host_fn f) { v_host = f; }\nstatic inline uint64_t v_f32(float f) { uint32_t b; memcpy(&b, &f, 4); return b; }\nstatic inline uint64_t v_f64(double f) { uint64_t b; memcpy(&b, &f, 8); return b; }\nstatic inline float v_tof32(uint64_t b) { uint32_t x = (uint32_t)b; float f; memcpy(&f, &x, 4); return f; }\nstatic inline double v_tof64(uint64_t b) { double f; memcpy(&f, &b, 8); return f; }\n");
    for (i, (_, t)) in TYPES.iter().enumerate() {
        let core = match t {
            Ty::U64 | Ty::S64 => "int64_t",
            Ty::F32 => "float",
            Ty::F64 => "double",
            _ => "int32_t",
        };
        let (pack, unpack, unpack_a) = match core {
            "int64_t" => ("(uint64_t)(a0)", "(int64_t)r", "(int64_t)a[0]"),
            "float" => ("v_f32(a0)", "v_tof32(r)", "v_tof32(a[0])"),
            "double" => ("v_f64(a0)", "v_tof64(r)", "v_tof64(a[0])"),
            _ => ("(uint64_t)(uint32_t)(a0)", "(int32_t)(uint32_t)r", "(int32_t)(uint32_t)a[0]"),
        };
        let imp = regex::Regex::new(&format!(r"import_name\(\x22f{i}\x22\)\)\)\s*[a-z0-9_]+\s+(__wasm_import_[A-Za-z0-9_]+)\(")).unwrap();
        let iname = imp.captures(&src).ok_or_else(|| format!("harness: import declaration of f{i} not found in the C++ source"))?[1].to_string();
        let exp = regex::Regex::new(&format!(r"__export_name__\(\x22v:w/api#f{i}\x22\)\)\)\s*[a-z0-9_]+\s+(__wasm_export_[A-Za-z0-9_]+)\(")).unwrap();
        let ename = exp.captures(&src).ok_or_else(|| format!("no export named v:w/api#f{i} in the C++ source"))?[1].to_string();
        let ct = CPP_TYPES[i];
        g.push_str(&format!("extern \"C\" {core} {iname}({core} a0) {{ uint64_t args[1] = {{ {pack} }}; uint64_t r = 0; v_host({i}, args, 1, &r); return {unpack}; }}\n"));
        g.push_str(&format!("{ct} exports::v::w::api::F{i}({ct} p0) {{ return ::v::w::api::F{i}(p0); }}\n"));
        let packed = match core {
            "int64_t" => format!("(uint64_t)({ename}({unpack_a}))"),
            "float" => format!("v_f32({ename}({unpack_a}))"),
            "double" => format!("v_f64({ename}({unpack_a}))"),
            _ => format!("(uint64_t)(uint32_t)({ename}({unpack_a}))"),
        };
        g.push_str(&format!("extern \"C\" {core} {ename}({core});\nextern \"C\" void __verif_export_{i}(const uint64_t *a, uint64_t *ret) {{ *ret = {packed}; }}\n"));
    }
    std::fs::write(dir.join("glue.cpp"), &g).unwrap();
    let so = dir.join("libw.so");
    let o = std::process::Command::new("g++")
        .args(["-std=c++20", "-D_GLIBCXX_USE_DEPRECATED=0", "-shared", "-fPIC", "-O1", "-w", "-I"])
        .arg(dir)
        .args(["-I", "/repo/crates/cpp/helper-types", "-I", "/repo/crates/cpp/test_headers"])
        .arg(dir.join(files.iter().find(|(n, _)| n.ends_with(".cpp")).unwrap().0.as_str()))
        .arg(dir.join("glue.cpp"))
        .arg("-o")
        .arg(&so)
        .output()
        .map_err(|e| format!("harness: cannot run g++: {e}"))?;
    if !o.status.success() {
        return Err(format!("error: the C++ scalar world does not build natively\n{}", String::from_utf8_lossy(&o.stderr).lines().filter(|l| l.contains("error")).take(6).collect::<Vec<_>>().join("\n")));
    }
    Ok(so)
}

// ---------------------------------------------------------------- interpreted backends

/// a typed machine value: `bits` holds the two's complement pattern in the low `w` bits
#[derive(Clone, Copy, Debug, PartialEq)]
struct TV {
    bits: u64,
    w: u8,
    signed: bool,
    /// 0 int, 1 bool, 2 float (bit pattern carried unchanged)
    kind: u8,
}

impl TV {
    fn int(bits: u64, w: u8, signed: bool) -> TV {
        let m = if w == 64 { u64::MAX } else { (1u64 << w) - 1 };
        TV { bits: bits & m, w, signed, kind: 0 }
    }
    /// mathematical value as i128
    fn val(&self) -> i128 {
        if self.kind == 1 {
            return (self.bits != 0) as i128;
        }
        if self.signed && self.w < 64 && (self.bits >> (self.w - 1)) & 1 == 1 {
            self.bits as i128 - (1i128 << self.w)
        } else if self.signed && self.w == 64 {
            self.bits as i64 as i128
        } else {
            self.bits as i128
        }
    }
    /// integer conversion: value-preserving modulo 2^w (what every one of the four languages does
    /// for integer-to-integer conversions)
    fn cast(&self, w: u8, signed: bool) -> TV {
        if self.kind == 2 {
            return TV { bits: self.bits, w, signed, kind: 2 };
        }
        TV::int(self.val() as u64, w, signed)
    }
}

/// type names of the four languages
fn lang_type(n: &str) -> Option<(u8, bool, u8)> {
    Some(match n {
        // Go
        "int8" => (8, true, 0),
        "uint8" => (8, false, 0),
        "int16" => (16, true, 0),
        "uint16" => (16, false, 0),
        "int32" | "rune" => (32, true, 0),
        "uint32" => (32, false, 0),
        "int64" => (64, true, 0),
        "uint64" => (64, false, 0),
        "float32" => (32, false, 2),
        "float64" => (64, false, 2),
        // D
        "byte" if false => unreachable!(),
        "ubyte" => (8, false, 0),
        "short" => (16, true, 0),
        "ushort" => (16, false, 0),
        "int" => (32, true, 0),
        "uint" => (32, false, 0),
        "long" => (64, true, 0),
        "ulong" => (64, false, 0),
        "dchar" => (32, false, 0),
        "float" => (32, false, 2),
        "double" => (64, false, 2),
        "bool" | "Bool" => (8, false, 1),
        // C#
        "sbyte" => (8, true, 0),
        // MoonBit
        "Int" => (32, true, 0),
        "UInt" => (32, false, 0),
        "Int64" => (64, true, 0),
        "UInt64" => (64, false, 0),
        "Byte" => (8, false, 0),
        "Float" => (32, false, 2),
        "Double" => (64, false, 2),
        "Char" => (32, false, 0),
        _ => return None,
    })
}

struct Interp<'a> {
    s: &'a [u8],
    i: usize,
    /// `byte` is signed in D and unsigned in C#
    byte_signed: bool,
    var: (&'a str, TV),
}

impl<'a> Interp<'a> {
    fn ty(&self, n: &str) -> Option<(u8, bool, u8)> {
        if n == "byte" {
            return Some((8, self.byte_signed, 0));
        }
        lang_type(n)
    }
    fn ws(&mut self) {
        while self.i < self.s.len() && (self.s[self.i] as char).is_whitespace() {
            self.i += 1;
        }
    }
    fn eat(&mut self, t: &str) -> bool {
        self.ws();
        if self.s[self.i..].starts_with(t.as_bytes()) {
            self.i += t.len();
            true
        } else {
            false
        }
    }
    fn ident(&mut self) -> Option<String> {
        self.ws();
        let st = self.i;
        while self.i < self.s.len() && ((self.s[self.i] as char).is_ascii_alphanumeric() || self.s[self.i] == b'_' || (self.s[self.i] == b':' && self.i + 1 < self.s.len() && self.s[self.i + 1] == b':') || (self.i > st && self.s[self.i - 1] == b':' && self.s[self.i] == b':')) {
            self.i += 1;
        }
        if self.i == st {
            None
        } else {
            Some(String::from_utf8_lossy(&self.s[st..self.i]).to_string())
        }
    }
    fn mk(&self, t: (u8, bool, u8), v: TV) -> TV {
        match t.2 {
            1 => TV { bits: (v.val() != 0) as u64, w: 8, signed: false, kind: 1 },
            2 => TV { bits: v.bits, w: t.0, signed: false, kind: 2 },
            _ => v.cast(t.0, t.1),
        }
    }
    fn expr(&mut self) -> Result<TV, String> {
        let mut l = self.unary()?;
        loop {
            self.ws();
            if self.eat("!=") {
                let r = self.unary()?;
                l = TV { bits: (l.val() != r.val()) as u64, w: 8, signed: false, kind: 1 };
            } else if self.eat("==") {
                let r = self.unary()?;
                l = TV { bits: (l.val() == r.val()) as u64, w: 8, signed: false, kind: 1 };
            } else if self.i < self.s.len() && self.s[self.i] == b'-' {
                self.i += 1;
                let r = self.unary()?;
                // wrapping subtraction at the left operand's width
                l = TV::int((l.val() - r.val()) as u64, l.w, l.signed);
            } else if self.i < self.s.len() && self.s[self.i] == b'&' && self.s.get(self.i + 1) != Some(&b'&') {
                self.i += 1;
                let r = self.unary()?;
                l = TV::int(l.bits & (r.val() as u64), l.w, l.signed);
            } else if self.eat("?") {
                let a = self.expr()?;
                if !self.eat(":") {
                    return Err("expected `:`".into());
                }
                let b = self.expr()?;
                l = if l.val() != 0 { a } else { b };
            } else {
                return Ok(l);
            }
        }
    }
    fn unary(&mut self) -> Result<TV, String> {
        self.ws();
        let mut v = self.primary()?;
        // method chain (MoonBit)
        loop {
            self.ws();
            if self.i < self.s.len() && self.s[self.i] == b'.' {
                self.i += 1;
                let m = self.ident().ok_or("method name")?;
                if !self.eat("(") {
                    return Err(format!("`(` after .{m}"));
                }
                let arg = if self.eat(")") {
                    None
                } else {
                    let a = self.expr()?;
                    if !self.eat(")") {
                        return Err("`)` after method argument".into());
                    }
                    Some(a)
                };
                v = match (m.as_str(), arg) {
                    ("to_int", None) => v.cast(32, true),
                    ("to_byte", None) => v.cast(8, false),
                    ("to_uint", None) => v.cast(32, false),
                    ("to_int64", None) => v.cast(64, true),
                    ("to_uint64", None) => v.cast(64, false),
                    ("reinterpret_as_int", None) => TV::int(v.bits, 32, true),
                    ("reinterpret_as_uint", None) => TV::int(v.bits, 32, false),
                    ("reinterpret_as_int64", None) => TV::int(v.bits, 64, true),
                    ("reinterpret_as_uint64", None) => TV::int(v.bits, 64, false),
                    ("land", Some(a)) => TV::int(v.bits & (a.val() as u64), v.w, v.signed),
                    ("lor", Some(a)) => TV::int(v.bits | (a.val() as u64), v.w, v.signed),
                    (other, _) => return Err(format!("unknown method `{other}`")),
                };
            } else {
                return Ok(v);
            }
        }
    }
    fn primary(&mut self) -> Result<TV, String> {
        self.ws();
        if self.eat("(") {
            // C-style cast `(T)e` or a parenthesised expression
            let save = self.i;
            if let Some(id) = self.ident() {
                if let (Some(t), true) = (self.ty(&id), self.eat(")")) {
                    // a cast unless the parenthesis simply wrapped a variable called like a type
                    let v = self.unary()?;
                    return Ok(self.mk(t, v));
                }
            }
            self.i = save;
            let v = self.expr()?;
            if !self.eat(")") {
                return Err("expected `)`".into());
            }
            return Ok(v);
        }
        if self.eat("if ") {
            // MoonBit: if c { a } else { b }
            let c = self.expr()?;
            if !self.eat("{") {
                return Err("`{`".into());
            }
            let a = self.expr()?;
            if !(self.eat("}") && self.eat("else") && self.eat("{")) {
                return Err("if/else shape".into());
            }
            let b = self.expr()?;
            if !self.eat("}") {
                return Err("`}`".into());
            }
            return Ok(if c.val() != 0 { a } else { b });
        }
        if self.i < self.s.len() && (self.s[self.i] as char).is_ascii_digit() {
            let st = self.i;
            while self.i < self.s.len() && ((self.s[self.i] as char).is_ascii_alphanumeric()) {
                self.i += 1;
            }
            let t = String::from_utf8_lossy(&self.s[st..self.i]).to_string();
            let n = if let Some(h) = t.strip_prefix("0x").or_else(|| t.strip_prefix("0X")) { u64::from_str_radix(h, 16) } else { t.parse::<u64>() }.map_err(|_| format!("number `{t}`"))?;
            return Ok(TV::int(n, 64, true));
        }
        let id = self.ident().ok_or_else(|| format!("unexpected input at `{}`", String::from_utf8_lossy(&self.s[self.i..])))?;
        if id == "true" || id == "false" {
            return Ok(TV { bits: (id == "true") as u64, w: 8, signed: false, kind: 1 });
        }
        if id == "cast" {
            // D: cast(T)(e)
            if !self.eat("(") {
                return Err("cast(".into());
            }
            let t = self.ident().and_then(|n| self.ty(&n)).ok_or("cast type")?;
            if !self.eat(")") {
                return Err("cast(T)".into());
            }
            let v = self.unary()?;
            return Ok(self.mk(t, v));
        }
        if self.eat("(") {
            // function-style conversion or helper
            let a = self.expr()?;
            if !self.eat(")") {
                return Err(format!("`)` after {id}(.."));
            }
            if let Some(t) = self.ty(&id) {
                return Ok(self.mk(t, a));
            }
            return match id.as_str() {
                "unchecked" => Ok(a),
                "mbt_ffi_extend8" => Ok(TV::int(a.bits as u8 as i8 as i32 as u32 as u64, 32, true)),
                "mbt_ffi_extend16" => Ok(TV::int(a.bits as u16 as i16 as i32 as u32 as u64, 32, true)),
                "Int::unsafe_to_char" => Ok(TV::int(a.bits, 32, false)),
                other => Err(format!("unknown function `{other}`")),
            };
        }
        if id == self.var.0 {
            return Ok(self.var.1);
        }
        Err(format!("unknown identifier `{id}`"))
    }
}

/// evaluate `expr` with variable `name` = `v`; the result converted to `ret` (implicit conversion
/// at the use site) when given
fn eval(expr: &str, name: &str, v: TV, byte_signed: bool, ret: Option<(u8, bool, u8)>) -> Result<TV, String> {
    let mut p = Interp { s: expr.as_bytes(), i: 0, byte_signed, var: (name, v) };
    let r = p.expr()?;
    p.ws();
    if p.i != p.s.len() {
        return Err(format!("trailing input `{}`", String::from_utf8_lossy(&p.s[p.i..])));
    }
    Ok(match ret {
        Some(t) => p.mk(t, r),
        None => r,
    })
}

/// per language and scalar type: (language type of the value, core type, import-lower expr over
/// `x`, import-lift expr over `r`, export-lift expr over `p`, export-lower expr over `q`)
struct Conv {
    lang_ty: String,
    core_ty: String,
    import_lower: String,
    import_lift: String,
    export_lift: String,
    export_lower: String,
}

fn grab(re: &str, text: &str, what: &str) -> Result<Vec<String>, String> {
    let re = regex::Regex::new(re).unwrap();
    let c = re.captures(text).ok_or_else(|| format!("cannot find {what}"))?;
    Ok((1..c.len()).map(|i| c.get(i).map(|m| m.as_str().trim().to_string()).unwrap_or_default()).collect())
}

fn file<'a>(files: &'a std::collections::BTreeMap<String, Vec<u8>>, suffix: &str) -> Result<String, String> {
    files.iter().find(|(n, _)| n.ends_with(suffix)).map(|(_, b)| String::from_utf8_lossy(b).to_string()).ok_or_else(|| format!("no generated file ending in {suffix}"))
}

fn extract(lang: &str, files: &std::collections::BTreeMap<String, Vec<u8>>, i: usize) -> Result<Conv, String> {
    match lang {
        "moonbit" => {
            let imp = files.iter().find(|(n, _)| !n.contains("gen/") && n.ends_with("interface/v/w/api/top.mbt")).map(|(_, b)| String::from_utf8_lossy(b).to_string()).ok_or("no import-side top.mbt")?;
            let exp = files.iter().find(|(n, _)| n.contains("gen/interface") && n.ends_with("ffi.mbt")).map(|(_, b)| String::from_utf8_lossy(b).to_string()).ok_or("no gen ffi.mbt")?;
            let a = grab(&format!(r"pub fn f{i}\(p0 : (\w+)\) -> \w+ \{{\s*let result : (\w+) =\s*wasmImportF{i}\((.*)\);\s*let ret = (.*)\n"), &imp, "the MoonBit import function")?;
            let b = grab(&format!(r"pub fn wasmExportF{i}\(p0 : \w+\) -> \w+ \{{\s*let \(result\) : \(\w+\) = f{i}\((.*)\);\s*let ret = (.*)\n"), &exp, "the MoonBit export function")?;
            Ok(Conv { lang_ty: a[0].clone(), core_ty: a[1].clone(), import_lower: a[2].replace("p0", "x"), import_lift: a[3].replace("result", "r"), export_lift: b[0].replace("p0", "p"), export_lower: b[1].replace("result", "q") })
        }
        "go" => {
            let imp = file(files, "v_w_api/wit_bindings.go")?;
            let exp = file(files, "wit_exports.go")?;
            if TYPES[i].1 == Ty::Bool {
                // lowering a bool is an if/else statement in Go; check its shape literally
                let ok = regex::Regex::new(&format!(r"func F{i}\(p0 bool\) bool \{{\s*var (\w+) int32\s*if p0 \{{\s*\w+ = 1\s*\}} else \{{\s*\w+ = 0\s*\}}")).unwrap().is_match(&imp);
                if !ok {
                    return Err("the Go lowering of bool is not the `if p0 { r = 1 } else { r = 0 }` statement".into());
                }
                let a = grab(&format!(r"(?s)func F{i}\(p0 bool\) bool \{{.*?(\w+) := wasm_import_f{i}\(\w+\)\s*return (.*?)\n"), &imp, "the Go bool import")?;
                let b = grab(&format!(r"(?s)func wasm_export_v_w_api_f{i}\(arg0 int32\) int32 \{{\s*(\w+) := \w+\.F{i}\((.*?)\)\n\s*var (\w+) int32\s*if (\w+) \{{\s*\w+ = 1\s*\}} else \{{\s*\w+ = 0\s*\}}\s*return (\w+)"), &exp, "the Go bool export (lift expression and `if r { x = 1 } else { x = 0 }` lowering)")?;
                if b[0] != b[3] || b[2] != b[4] {
                    return Err("the Go bool export does not lower the value it received".into());
                }
                return Ok(Conv { lang_ty: "bool".into(), core_ty: "int32".into(), import_lower: "x ? 1 : 0".into(), import_lift: a[1].replace(&a[0], "r"), export_lift: b[1].replace("arg0", "p"), export_lower: "q ? 1 : 0".into() });
            }
            let a = grab(&format!(r"func F{i}\(p0 (\w+)\) \w+ \{{\s*result := wasm_import_f{i}\((.*)\)\s*return (.*)\n"), &imp, "the Go import function")?;
            let b = grab(&format!(r"func wasm_export_v_w_api_f{i}\(arg0 (\w+)\) \w+ \{{\s*(\w+) := \w+\.F{i}\((.*)\)\s*return (.*)\n"), &exp, "the Go export function")?;
            Ok(Conv { lang_ty: a[0].clone(), core_ty: b[0].clone(), import_lower: a[1].replace("p0", "x"), import_lift: a[2].replace("result", "r"), export_lift: b[2].replace("arg0", "p"), export_lower: b[3].replace(&b[1], "q") })
        }
        "d" => {
            let imp = file(files, "api/imports.d")?;
            let exp = file(files, "api/exports.d")?;
            let a = grab(&format!(r"(\w+) f{i}\(\w+ p0\) @trusted nothrow \{{\s*auto _ret = __import_f{i}\((.*)\);\s*return (.*);"), &imp, "the D import function")?;
            let core = grab(&format!(r"private extern\(C\) (\w+) __import_f{i}\("), &imp, "the D import declaration")?;
            let b = grab(&format!(r"(?s)__export_f{i}\((\w+) (\w+)\)[^\{{]*\{{\s*auto (\w+) = f{i}_Impl\((.*?)\);\s*return (.*?);"), &exp, "the D export function")?;
            Ok(Conv { lang_ty: a[0].clone(), core_ty: core[0].clone(), import_lower: a[1].replace("p0", "x"), import_lift: a[2].replace("_ret", "r"), export_lift: b[3].replace(&b[1], "p"), export_lower: b[4].replace(&b[2], "q") })
        }
        "csharp" => {
            let imp = file(files, "IApiImports.cs")?;
            let decl = file(files, "ApiImportsInterop.cs")?;
            let exp = file(files, "ApiExportsInterop.cs")?;
            let a = grab(&format!(r"(?s)public static unsafe (\w+) F{i}\(\w+ p0\)\s*\{{\s*var result =\s*ApiImportsInterop\.F{i}WasmInterop\.wasmImportF{i}\((.*?)\);\s*return (.*?);"), &imp, "the C# import function")?;
            let core = grab(&format!(r"public static extern (\w+) wasmImportF{i}\("), &decl, "the C# import declaration")?;
            let b = grab(&format!(r"(?s)public static unsafe \w+ wasmExportF{i}\(\w+ p0\) \{{\s*(\w+) ret;\s*ret = ApiExportsImpl\.F{i}\((.*?)\);\s*return (.*?);"), &exp, "the C# export function")?;
            Ok(Conv { lang_ty: a[0].clone(), core_ty: core[0].clone(), import_lower: a[1].replace("p0", "x"), import_lift: a[2].replace("result", "r"), export_lift: b[1].replace("p0", "p"), export_lower: b[2].replace("ret", "q") })
        }
        _ => Err("unknown language".into()),
    }
}

fn run_interpreted(lang: &str, wit: &str, seed: u64, thorough: bool, evals: &mut u64) -> Result<(), Failure> {
    let (resolve, wid) = backends::resolve_input(&Input::Text(wit), Some("w")).unwrap_or_else(|e| vcommon::harness_error(format!("scalar world: {e:#}")));
    let args: Vec<&str> = if lang == "csharp" { vec!["--runtime=native-aot"] } else { vec![] };
    let tmp = tempfile::tempdir().unwrap();
    let files = match backends::generate(lang, &args, &resolve, wid, Some(tmp.path())) {
        GenOutcome::Files(f) => f,
        GenOutcome::Error(e) => return Err(Failure::new(format!("{lang}-generator-error"), e)),
        GenOutcome::Panic(p) => return Err(Failure::new(format!("{lang}-generator-panic"), p.render())),
    };
    let byte_signed = lang == "d";
    for (i, (name, t)) in TYPES.iter().enumerate() {
        let c = extract(lang, &files, i).unwrap_or_else(|e| vcommon::harness_error(format!("C14 cannot locate the {lang} conversion code of {name}: {e} (the generated source changed shape; the check is inconclusive)")));
        let lt = if c.lang_ty == "byte" { (8, byte_signed, 0) } else { lang_type(&c.lang_ty).unwrap_or_else(|| vcommon::harness_error(format!("{lang}: unknown type `{}`", c.lang_ty))) };
        let ct = lang_type(&c.core_ty).unwrap_or_else(|| vcommon::harness_error(format!("{lang}: unknown core type `{}`", c.core_ty)));
        let core_val = |bits: u64| TV { bits: if ct.0 == 64 { bits } else { bits & 0xffff_ffff }, w: ct.0, signed: ct.1, kind: ct.2 };
        let ins = inputs(t, seed.wrapping_add(i as u64), thorough);
        let mask = if is64(t) { u64::MAX } else { 0xffff_ffff };
        let inconclusive = |e: String, ex: &str| -> ! { vcommon::harness_error(format!("C14 cannot interpret the {lang} expression `{ex}` ({name}): {e}; the check is inconclusive")) };
        for b in ins.iter() {
            let Some(want) = canon(t, *b) else { continue };
            // export: lift the core argument, lower the value again
            let lifted = eval(&c.export_lift, "p", core_val(*b), byte_signed, Some(lt)).unwrap_or_else(|e| inconclusive(e, &c.export_lift));
            // the value the user code sees must be the canonical one (a wrong lift can be undone
            // by the matching lower, so the round trip alone is not enough)
            let want_val: i128 = match t {
                Ty::S8 => want as u32 as i32 as i128,
                Ty::S16 => want as u32 as i32 as i128,
                Ty::S32 => want as u32 as i32 as i128,
                Ty::S64 => want as i64 as i128,
                _ => want as i128,
            };
            let got_val = if lifted.kind == 2 { lifted.bits as i128 } else { lifted.val() };
            if got_val != want_val {
                return Err(Failure::new(format!("scalar {lang} {name}: lift `{}`", c.export_lift), format!("{lang} {name}: core value {b:#x} lifts through `{}` to the value {got_val}; the canonical ABI gives {want_val}", c.export_lift)));
            }
            let lowered = eval(&c.export_lower, "q", lifted, byte_signed, Some(ct)).unwrap_or_else(|e| inconclusive(e, &c.export_lower));
            *evals += 2;
            if lowered.bits & mask != want {
                return Err(Failure::new(format!("scalar {lang} {name}: export lift `{}` / lower `{}`", c.export_lift, c.export_lower), format!("{lang} {name}: core value {b:#x} lifts through `{}` to {:#x} ({}) and lowers through `{}` to {:#x}; the canonical ABI gives {want:#x}", c.export_lift, lifted.bits, lifted.val(), c.export_lower, lowered.bits & mask)));
            }
            // import: lift the core result, lower the value again as an argument
            let lifted = eval(&c.import_lift, "r", core_val(*b), byte_signed, Some(lt)).unwrap_or_else(|e| inconclusive(e, &c.import_lift));
            let got_val = if lifted.kind == 2 { lifted.bits as i128 } else { lifted.val() };
            if got_val != want_val {
                return Err(Failure::new(format!("scalar {lang} {name}: lift `{}`", c.import_lift), format!("{lang} {name}: core value {b:#x} lifts through `{}` to the value {got_val}; the canonical ABI gives {want_val}", c.import_lift)));
            }
            let lowered = eval(&c.import_lower, "x", lifted, byte_signed, Some(ct)).unwrap_or_else(|e| inconclusive(e, &c.import_lower));
            *evals += 2;
            if lowered.bits & mask != want {
                return Err(Failure::new(format!("scalar {lang} {name}: import lift `{}` / lower `{}`", c.import_lift, c.import_lower), format!("{lang} {name}: core value {b:#x} lifts through `{}` to {:#x} ({}) and lowers through `{}` to {:#x}; the canonical ABI gives {want:#x}", c.import_lift, lifted.bits, lifted.val(), c.import_lower, lowered.bits & mask)));
            }
        }
    }
    Ok(())
}

pub fn run(check: &mut Check) {
    check.rule = "one world with f<i>: func(p0: T) -> T for T in {u8, s8, u16, s16, u32, s32, u64, s64, f32, f64, char, bool}, imported and exported. Inputs: for 8/16-bit types every low pattern under 3..5 high-bit patterns (the host may pass any upper bits), for 32/64-bit and float types all single-bit / all-but-one-bit / low-mask patterns, float specials (infinities, NaNs with payloads, signed zero, subnormals) and 50k (thorough 500k) random patterns, for char the boundary scalars and 20k random valid scalars, for bool 0, 1 and non-canonical non-zero values. Rust, C (default, --no-sig-flattening) and C++: native execution of the generated code with a forwarding guest; MoonBit, Go, D, C#: the four conversion expressions per type taken from the generated source and interpreted with the language's conversion semantics. Oracle: every observed core value equals lower(lift(input)) of the canonical ABI (zero/sign extension by signedness, low bits on lift, bit-exact 64-bit and float values, char as scalar value, bool as 0/1); non-trivial = every (backend, type) pair; distinct by (backend, type)".into();
    check.assumptions.push("C#, Go, MoonBit and D cannot be compiled in this sandbox: their conversion expressions are interpreted (integer conversions are value-preserving modulo 2^n in all four; D `byte` is signed, C# `byte` unsigned; MoonBit Int arithmetic wraps); an expression the interpreter does not understand makes the check inconclusive (exit 2), never a violation".into());
    if check.is_replay() {
        vcommon::harness_error("C14 has no per-case replay: re-run ./check C14 quick");
    }
    vcommon::abort::install(&check.id, "worlds", check.sub_seed("worlds", 0));
    let thorough = check.tier == vcommon::Tier::Thorough;
    let seed = check.sub_seed("scalars", 0);
    let w = world();
    let wit = w.wit(0).replace("package v:w0;", "package v:w;");
    // native: Rust
    let rust = exec::rust_member(0, &w, "default", &[]);
    let built = exec::build_rust(std::slice::from_ref(&rust));
    let root = std::path::PathBuf::from("/verif/target/c14ws");
    let _ = std::fs::remove_dir_all(&root);
    let c1 = execc::c_member(&root.join("c-default"), &w, "default", &[]);
    let c2 = execc::c_member(&root.join("c-nosig"), &w, "no-sig-flattening", &["--no-sig-flattening"]);
    let cpp = cpp_member(&root.join("cpp"), &wit);
    let natives: Vec<(&str, Result<std::path::PathBuf, String>)> = vec![("rust", built[0].clone()), ("c", c1.built.clone()), ("c --no-sig-flattening", c2.built.clone()), ("cpp", cpp)];
    for (name, so) in natives {
        check.case("native", &serde_json::json!({"backend": name}), |_, obs| {
            obs.nontrivial_by(&name);
            let so = match &so {
                Ok(p) => p,
                Err(e) if e.starts_with("harness:") => vcommon::harness_error(e.clone()),
                Err(e) => return Err(Failure::new(format!("{name}-native-build"), format!("the scalar world does not build natively for {name}:\n{e}"))),
            };
            let mut evals = 0;
            vcommon::abort::set_current(&serde_json::json!({"backend": name, "wit": wit}).to_string());
            let r = run_native(so, &[], seed, thorough, &mut evals);
            vcommon::abort::clear();
            obs.evals = evals;
            r
        });
    }
    for lang in ["moonbit", "go", "d", "csharp"] {
        check.case("interpreted", &serde_json::json!({"backend": lang}), |_, obs| {
            obs.nontrivial_by(&lang);
            let mut evals = 0;
            let r = run_interpreted(lang, &wit, seed, thorough, &mut evals);
            obs.evals = evals;
            r
        });
    }
    let _ = std::fs::remove_dir_all(&root);
    let _ = std::fs::remove_dir_all(exec::WS);
}
