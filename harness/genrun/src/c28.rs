//! C28 — type analysis identifies exactly the structurally equal types and
//! computes the usage/content facts the definitions and uses imply.
use crate::backends::{self, Input};
use crate::{tape_strategy, WorldCase};
use proptest::prelude::*;
use std::collections::{BTreeMap, BTreeSet};
use vcommon::{CaseResult, Check, Failure, Obs};
use wit_bindgen_core::Types;
use wit_parser::*;

fn peel(resolve: &Resolve, t: &Type) -> Type {
    let mut t = *t;
    loop {
        match t {
            Type::Id(id) => match &resolve.types[id].kind {
                TypeDefKind::Type(inner) => t = *inner,
                _ => return t,
            },
            _ => return t,
        }
    }
}

/// independent structural equality (no union-find, no memo)
fn eq_ty(resolve: &Resolve, a: &Type, b: &Type) -> bool {
    let (a, b) = (peel(resolve, a), peel(resolve, b));
    match (a, b) {
        (Type::Id(x), Type::Id(y)) => eq_id(resolve, x, y),
        (Type::Id(_), _) | (_, Type::Id(_)) => false,
        (x, y) => x == y,
    }
}

fn eq_opt(resolve: &Resolve, a: &Option<Type>, b: &Option<Type>) -> bool {
    match (a, b) {
        (None, None) => true,
        (Some(a), Some(b)) => eq_ty(resolve, a, b),
        _ => false,
    }
}

fn eq_id(resolve: &Resolve, a: TypeId, b: TypeId) -> bool {
    if a == b {
        return true;
    }
    use TypeDefKind as K;
    match (&resolve.types[a].kind, &resolve.types[b].kind) {
        (K::Type(_), _) | (_, K::Type(_)) => eq_ty(resolve, &Type::Id(a), &Type::Id(b)),
        (K::Record(x), K::Record(y)) => x.fields.len() == y.fields.len() && x.fields.iter().zip(&y.fields).all(|(f, g)| f.name == g.name && eq_ty(resolve, &f.ty, &g.ty)),
        (K::Variant(x), K::Variant(y)) => x.cases.len() == y.cases.len() && x.cases.iter().zip(&y.cases).all(|(f, g)| f.name == g.name && eq_opt(resolve, &f.ty, &g.ty)),
        (K::Enum(x), K::Enum(y)) => x.cases.len() == y.cases.len() && x.cases.iter().zip(&y.cases).all(|(f, g)| f.name == g.name),
        (K::Flags(x), K::Flags(y)) => x.flags.len() == y.flags.len() && x.flags.iter().zip(&y.flags).all(|(f, g)| f.name == g.name),
        (K::Tuple(x), K::Tuple(y)) => x.types.len() == y.types.len() && x.types.iter().zip(&y.types).all(|(f, g)| eq_ty(resolve, f, g)),
        (K::List(x), K::List(y)) => eq_ty(resolve, x, y),
        (K::FixedLengthList(x, n), K::FixedLengthList(y, m)) => n == m && eq_ty(resolve, x, y),
        (K::Map(k1, v1), K::Map(k2, v2)) => eq_ty(resolve, k1, k2) && eq_ty(resolve, v1, v2),
        (K::Option(x), K::Option(y)) => eq_ty(resolve, x, y),
        (K::Result(x), K::Result(y)) => eq_opt(resolve, &x.ok, &y.ok) && eq_opt(resolve, &x.err, &y.err),
        (K::Future(x), K::Future(y)) => eq_opt(resolve, x, y),
        (K::Stream(x), K::Stream(y)) => eq_opt(resolve, x, y),
        (K::Handle(Handle::Own(x)), K::Handle(Handle::Own(y))) | (K::Handle(Handle::Borrow(x)), K::Handle(Handle::Borrow(y))) => eq_ty(resolve, &Type::Id(*x), &Type::Id(*y)),
        // resources are equal only to themselves (a == b handled above)
        _ => false,
    }
}

#[derive(Default, Clone, Copy, PartialEq, Eq, Debug)]
struct Content {
    has_list: bool,
    has_tuple: bool,
    has_resource: bool,
    has_borrow_handle: bool,
    has_own_handle: bool,
}

fn content(resolve: &Resolve, t: &Type, out: &mut Content) {
    match t {
        Type::String => out.has_list = true,
        Type::ErrorContext => out.has_resource = true,
        Type::Id(id) => {
            use TypeDefKind as K;
            match &resolve.types[*id].kind {
                K::Record(r) => r.fields.iter().for_each(|f| content(resolve, &f.ty, out)),
                K::Variant(v) => v.cases.iter().filter_map(|c| c.ty.as_ref()).for_each(|t| content(resolve, t, out)),
                K::Tuple(t) => {
                    out.has_tuple = true;
                    t.types.iter().for_each(|t| content(resolve, t, out))
                }
                K::List(t) => {
                    out.has_list = true;
                    content(resolve, t, out)
                }
                K::Map(k, v) => {
                    out.has_list = true;
                    content(resolve, k, out);
                    content(resolve, v, out)
                }
                K::FixedLengthList(t, _) | K::Option(t) | K::Type(t) => content(resolve, t, out),
                K::Result(r) => [&r.ok, &r.err].into_iter().flatten().for_each(|t| content(resolve, t, out)),
                K::Resource => out.has_resource = true,
                K::Handle(Handle::Own(_)) => {
                    out.has_resource = true;
                    out.has_own_handle = true
                }
                K::Handle(Handle::Borrow(_)) => {
                    out.has_resource = true;
                    out.has_borrow_handle = true
                }
                // futures and streams are opaque owned handles
                K::Future(_) | K::Stream(_) => {
                    out.has_resource = true;
                    out.has_own_handle = true
                }
                K::Flags(_) | K::Enum(_) | K::Unknown => {}
            }
        }
        _ => {}
    }
}

fn reach(resolve: &Resolve, t: &Type, out: &mut BTreeSet<TypeId>) {
    let Type::Id(id) = t else { return };
    if !out.insert(*id) {
        return;
    }
    use TypeDefKind as K;
    match &resolve.types[*id].kind {
        K::Record(r) => r.fields.iter().for_each(|f| reach(resolve, &f.ty, out)),
        K::Variant(v) => v.cases.iter().filter_map(|c| c.ty.as_ref()).for_each(|t| reach(resolve, t, out)),
        K::Tuple(t) => t.types.iter().for_each(|t| reach(resolve, t, out)),
        K::List(t) | K::FixedLengthList(t, _) | K::Option(t) | K::Type(t) => reach(resolve, t, out),
        K::Map(k, v) => {
            reach(resolve, k, out);
            reach(resolve, v, out)
        }
        K::Result(r) => [&r.ok, &r.err].into_iter().flatten().for_each(|t| reach(resolve, t, out)),
        K::Future(t) | K::Stream(t) => t.iter().for_each(|t| reach(resolve, t, out)),
        K::Handle(Handle::Own(r) | Handle::Borrow(r)) => reach(resolve, &Type::Id(*r), out),
        K::Resource | K::Flags(_) | K::Enum(_) | K::Unknown => {}
    }
}

#[derive(Default, Clone, Copy, PartialEq, Eq, Debug)]
struct Usage {
    borrowed: bool,
    owned: bool,
    error: bool,
}

fn usage(resolve: &Resolve) -> BTreeMap<TypeId, Usage> {
    let mut out: BTreeMap<TypeId, Usage> = BTreeMap::new();
    for (_, world) in resolve.worlds.iter() {
        for (import, items) in [(true, &world.imports), (false, &world.exports)] {
            for (_, item) in items.iter() {
                let funcs: Vec<&Function> = match item {
                    WorldItem::Function(f) => vec![f],
                    WorldItem::Interface { id, .. } => resolve.interfaces[*id].functions.values().collect(),
                    WorldItem::Type { .. } => vec![],
                };
                for f in funcs {
                    let mut ps = BTreeSet::new();
                    f.params.iter().for_each(|p| reach(resolve, &p.ty, &mut ps));
                    for id in ps {
                        let u = out.entry(id).or_default();
                        if import {
                            u.borrowed = true
                        } else {
                            u.owned = true
                        }
                    }
                    let mut rs = BTreeSet::new();
                    if let Some(r) = &f.result {
                        reach(resolve, r, &mut rs);
                    }
                    for id in rs {
                        out.entry(id).or_default().owned = true;
                    }
                    // the error type of a function whose result is (an alias of) a result type
                    if let Some(r) = &f.result {
                        if let Type::Id(rid) = peel(resolve, r) {
                            if let TypeDefKind::Result(res) = &resolve.types[rid].kind {
                                if let Some(Type::Id(e)) = &res.err {
                                    // the definition the (possibly `use`d / aliased) name refers to; a
                                    // named alias of a primitive is itself that definition
                                    let mut eid = *e;
                                    while let TypeDefKind::Type(Type::Id(next)) = &resolve.types[eid].kind {
                                        eid = *next;
                                    }
                                    out.entry(eid).or_default().error = true;
                                }
                            }
                        }
                    }
                }
            }
        }
    }
    out
}

fn describe(resolve: &Resolve, id: TypeId) -> String {
    let t = &resolve.types[id];
    format!("{}{:?}", t.name.as_ref().map(|n| format!("`{n}` ")).unwrap_or_default(), t.kind).chars().take(160).collect()
}

pub fn judge(resolve: &Resolve, world: WorldId, ctx: &str, obs: &mut Obs) -> CaseResult {
    let mut types = Types::default();
    types.analyze(resolve);
    // content facts, before merging
    let mut n_facts = 0;
    for (id, _) in resolve.types.iter() {
        let mut want = Content::default();
        content(resolve, &Type::Id(id), &mut want);
        let got = types.get(id);
        let got_c = Content { has_list: got.has_list, has_tuple: got.has_tuple, has_resource: got.has_resource, has_borrow_handle: got.has_borrow_handle, has_own_handle: got.has_own_handle };
        n_facts += 1;
        if got_c != want {
            return Err(Failure::new("content-facts", format!("type {}: analysis says {got_c:?}, its definition implies {want:?}\n{ctx}", describe(resolve, id))));
        }
    }
    let use_map = usage(resolve);
    for (id, td) in resolve.types.iter() {
        let mut want = use_map.get(&id).copied().unwrap_or_default();
        let got = types.get(id);
        let mut got_u = Usage { borrowed: got.borrowed, owned: got.owned, error: got.error };
        if td.name.is_none() {
            // borrowed/owned are only recorded for named types; `error` for any type
            want.borrowed = false;
            want.owned = false;
            got_u.borrowed = false;
            got_u.owned = false;
        }
        if got_u != want {
            let which = if got_u.error != want.error { "error" } else if got_u.borrowed != want.borrowed { "borrowed" } else { "owned" };
            return Err(Failure::new(format!("usage-facts {which}"), format!("named type {}: analysis says {got_u:?}, its uses imply {want:?}\n{ctx}", describe(resolve, id))));
        }
    }
    // equivalence classes
    types.collect_equal_types(resolve, world, &|_| true);
    let mut live = LiveTypes::default();
    live.add_world(resolve, world);
    let ids: Vec<TypeId> = live.iter().collect();
    let mut equal_pairs = 0;
    let mut near_pairs = 0;
    for (i, a) in ids.iter().enumerate() {
        for b in &ids[..i] {
            let same = types.get_representative_type(*a) == types.get_representative_type(*b);
            let want = eq_id(resolve, *a, *b);
            if want && a != b {
                equal_pairs += 1;
            }
            if !want && std::mem::discriminant(&resolve.types[*a].kind) == std::mem::discriminant(&resolve.types[*b].kind) {
                near_pairs += 1;
            }
            if same != want {
                return Err(Failure::new(
                    if same { "merged-unequal-types" } else { "equal-types-not-merged" },
                    format!("types {} and {} are {} but the analysis {} them\n{ctx}", describe(resolve, *a), describe(resolve, *b), if want { "structurally equal" } else { "not structurally equal" }, if same { "merges" } else { "keeps apart" }),
                ));
            }
        }
    }
    // after merging every member carries the union of the (named members') usage facts
    let mut classes: BTreeMap<TypeId, Vec<TypeId>> = BTreeMap::new();
    for id in &ids {
        classes.entry(types.get_representative_type(*id)).or_default().push(*id);
    }
    for members in classes.values() {
        let mut want = Usage::default();
        for m in members {
            let u = use_map.get(m).copied().unwrap_or_default();
            want.error |= u.error;
            if resolve.types[*m].name.is_some() {
                want.borrowed |= u.borrowed;
                want.owned |= u.owned;
            }
        }
        for m in members {
            if resolve.types[*m].name.is_none() {
                continue;
            }
            let got = types.get(*m);
            let got_u = Usage { borrowed: got.borrowed, owned: got.owned, error: got.error };
            if got_u != want {
                return Err(Failure::new("class-union-facts", format!("after merging, type {} has {got_u:?} but its class ({} members) implies {want:?}\n{ctx}", describe(resolve, *m), members.len())));
            }
        }
    }
    obs.evals = n_facts + (ids.len() * ids.len() / 2) as u64;
    if equal_pairs >= 1 && near_pairs >= 1 {
        obs.nontrivial = Some(vcommon::hash_of(&ctx));
        obs.label("has-equal-and-near-equal-pairs");
    }
    Ok(())
}

fn prop(c: &WorldCase, obs: &mut Obs) -> CaseResult {
    let mut profile = witgen::Profile::full();
    profile.near_equal_types = true;
    profile.docs = false;
    profile.adversarial_names = false;
    profile.named_handle_alias = true;
    let w = witgen::generate(&c.tape, &profile);
    let text = w.to_text();
    let Ok((resolve, world)) = backends::resolve_input(&Input::Text(&text), Some(&witgen::wit_name(&w.world))) else {
        obs.label("discarded-generator-invalid-world");
        return Ok(());
    };
    let r = judge(&resolve, world, &format!("WIT:\n{text}"), obs);
    if obs.nontrivial.is_some() && text.len() < 700 {
        obs.sample = Some(serde_json::json!({"wit": text}));
    }
    r
}

pub fn run(check: &mut Check) {
    check.rule = "generated worlds in near-equal mode (every type definition may be followed by exact structural copies, copies with one field/case renamed, two fields/cases swapped, one field retyped / payload toggled, and aliases; plus `use`-imports with renames, resources, handles, futures/streams, maps, fixed lists) used in imported and exported functions; \
        oracle: an independent recursive structural equality (aliases peeled, resources equal only to themselves) must agree with get_representative_type for every pair of live types; content facts (has_list/tuple/resource/borrow/own) equal an independent walk; usage facts (borrowed/owned/error) of named types equal reachability from import parameters / export parameters and results / the error type of a result-returning function; after collect_equal_types every named member of a class carries the union; \
        non-trivial = world with at least one structurally equal pair and one near-equal pair of the same kind; distinct by WIT text; the corpus is checked the same way".into();
    check.assumptions.push("usage facts are only judged for named types (the analysis records them for named types only); futures/streams are opaque owned handles for content facts but transparent for reachability, as wit-parser's LiveTypes treats them".into());
    if check.is_replay() {
        check.prop("worlds", || (tape_strategy(10), Just(0u8), Just(0u8)).prop_map(|(tape, backend, variant)| WorldCase { tape, backend, variant }), 1, prop);
        return;
    }
    for (name, path, _) in backends::corpus() {
        let Ok((resolve, world)) = backends::resolve_input(&Input::Path(&path), None) else { continue };
        let case = serde_json::json!({"corpus": name});
        check.case("corpus", &case, |_, obs| {
            let r = judge(&resolve, world, &format!("tests/codegen/{name}"), obs);
            obs.nontrivial_by(&name);
            r
        });
    }
    let n = check.tier.pick(10_000, 300_000);
    check.prop("worlds", || (tape_strategy(900), Just(0u8), Just(0u8)).prop_map(|(tape, backend, variant)| WorldCase { tape, backend, variant }), n, prop);
}
