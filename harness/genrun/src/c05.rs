//! C05 / C06 — generated Rust bindings carry every value across the boundary unchanged and
//! leave the guest heap as it was (native execution against the reference host, see exec.rs).
use crate::exec::{self, Member, ProxyWorld};
use vcommon::{Check, Failure};

/// Rust option variants that the forwarding implementation can be written for
fn variants() -> Vec<(&'static str, Vec<&'static str>)> {
    vec![
        ("default", vec![]),
        ("borrowed", vec!["--ownership=borrowing"]),
        ("no-std", vec!["--std-feature"]),
        ("merge-equal", vec!["--merge-structurally-equal-types"]),
        ("raw-strings", vec!["--raw-strings"]),
        ("hashmap", vec!["--map-type=std::collections::HashMap"]),
        ("borrowed+merge-equal", vec!["--ownership=borrowing", "--merge-structurally-equal-types"]),
    ]
}

/// list/map parameter whose elements own heap data anonymously (not through a named type)
fn deep_borrow(t: &refabi::Ty) -> bool {
    use refabi::Ty;
    fn anon_heap(t: &Ty) -> bool {
        match t {
            Ty::String | Ty::List(_) | Ty::Map(..) => true,
            Ty::Option(t) | Ty::FixedList(t, _) => anon_heap(t),
            Ty::Result(a, b) => a.as_deref().map(anon_heap).unwrap_or(false) || b.as_deref().map(anon_heap).unwrap_or(false),
            Ty::Tuple(ts) => ts.iter().any(anon_heap),
            _ => false,
        }
    }
    // (named element types that own heap data are passed as `&[&T]`)
    match t {
        Ty::List(e) => anon_heap(e) || refabi::has_heap(e),
        Ty::Map(k, v) => anon_heap(k) || anon_heap(v) || refabi::has_heap(v),
        _ => false,
    }
}

/// constructed call sequences: results whose cases differ in what they own, returned in the order
/// "heap-owning case first, heap-less case next" (the static return area and recycled list
/// buffers still hold the pointers of the earlier value), directly and inside lists, and the
/// same shapes as parameters
pub fn constructed() -> Vec<ProxyWorld> {
    use exec::{Call, Func};
    use refabi::{Ty, Val};
    let s = |x: &str| Val::Str(x.to_string());
    let some = |v: Val| Val::Option(Some(Box::new(v)));
    let none = || Val::Option(None);
    let opt_s = Ty::Option(Box::new(Ty::String));
    let res = Ty::Result(Some(Box::new(Ty::U32)), Some(Box::new(Ty::String)));
    let var = Ty::Variant(vec![("c0".into(), None), ("c1".into(), Some(Ty::String)), ("c2".into(), Some(Ty::List(Box::new(Ty::U16))))]);
    let lst = Ty::List(Box::new(opt_s.clone()));
    let rec = |t: Ty| Ty::Record(vec![("w".to_string(), t)]);
    let ok = |v: Val| Val::Result(Ok(Some(Box::new(v))));
    let err = |v: Val| Val::Result(Err(Some(Box::new(v))));
    let results = |t: Ty, vals: Vec<Val>, f: usize| -> (Func, Vec<Call>) { (Func { params: vec![], result: Some(t), sink: false }, vals.into_iter().map(|v| Call { func: f, params: vec![], result: Some(v) }).collect()) };
    let params = |t: Ty, vals: Vec<Val>, f: usize| -> (Func, Vec<Call>) { (Func { params: vec![rec(t)], result: None, sink: false }, vals.into_iter().map(|v| Call { func: f, params: vec![Val::Record(vec![v])], result: None }).collect()) };
    let opt_vals = || vec![some(s("first value")), none(), none(), some(s("x")), none()];
    let res_vals = || vec![err(s("an error text")), ok(Val::U32(7)), ok(Val::U32(0)), err(s("")), ok(Val::U32(1))];
    let var_vals = || vec![Val::Variant(1, Some(Box::new(s("payload")))), Val::Variant(0, None), Val::Variant(2, Some(Box::new(Val::List(vec![Val::U16(1), Val::U16(2)])))), Val::Variant(0, None), Val::Variant(1, Some(Box::new(s("")))), Val::Variant(0, None)];
    let lst_vals = || vec![Val::List(vec![some(s("a")), some(s("bb")), some(s("ccc"))]), Val::List(vec![none(), none(), none()]), Val::List(vec![none(), some(s("z")), none()]), Val::List(vec![])];
    let mut out = vec![];
    for as_result in [true, false] {
        let mk = |t: Ty, v: Vec<Val>, f: usize| if as_result { results(t, v, f) } else { params(t, v, f) };
        let (f0, c0) = mk(opt_s.clone(), opt_vals(), 0);
        let (f1, c1) = mk(res.clone(), res_vals(), 1);
        out.push(ProxyWorld { funcs: vec![f0, f1], calls: c0.into_iter().chain(c1).collect() });
        let (f0, c0) = mk(var.clone(), var_vals(), 0);
        let (f1, c1) = mk(lst.clone(), lst_vals(), 1);
        out.push(ProxyWorld { funcs: vec![f0, f1], calls: c0.into_iter().chain(c1).collect() });
    }
    out
}

const VALUE_SIGS: &[&str] = &["value-changed-in-implementation", "value-changed-export-to-import", "value-changed-import-to-export", "undecodable-value", "import-call-count", "import-arity", "import-unexpected", "import-name", "load-error"];
const HEAP_SIGS: &[&str] = &["heap-leak", "heap-misuse"];

pub fn run(check: &mut Check) {
    let heap = check.id == "C06";
    check.rule = format!(
        "proxy worlds (an interface of 1..3 functions with 0..4 parameters and an optional result over all WIT value types — scalars, strings, lists, options, results, tuples, records, variants, enums, flags of 1..32 members, maps, fixed-length lists — nested up to depth 3; imported and exported by the same world) x 3 random value sets per function x Rust option variants {{default, borrowing, --std-feature, merge-equal, raw-strings, HashMap, borrowing+merge-equal}}; the generated bindings are built natively as a shared object whose exported functions forward to the imported ones; the reference canonical ABI (refabi, P = 8) lowers the parameters into the export call, lifts them again from the import call the guest makes, lowers the import's result and lifts the export's result; \
        oracle ({}): {}; non-trivial = call whose types own heap data (string/list/map); distinct by (world, call)",
        check.id,
        if heap { "after every call and its post-return the guest heap has exactly the blocks it had before (tracking allocator inside the guest object), and no block is freed twice or with a foreign pointer" } else { "both values arrive unchanged, the import is called exactly once with the arity the canonical ABI prescribes" }
    );
    check.assumptions.push("native x86-64 execution: pointers are 64-bit, which the generated Rust is agnostic to; `#[cfg(target_arch = \"wasm32\")]` import declarations are replaced by calls of the host callback".into());
    check.assumptions.push("resources, futures, streams and error-contexts are not part of these worlds (C07/C08/C18-C23)".into());
    if check.is_replay() {
        vcommon::harness_error("C05/C06 build batches of worlds; re-run ./check <ID> quick to reproduce (worlds are a function of VERIF_SEED)");
    }
    vcommon::abort::install(&check.id, "worlds", check.sub_seed("worlds", 0));
    let nworlds = std::env::var("VERIF_N").ok().and_then(|s| s.parse().ok()).unwrap_or(check.tier.pick(42usize, 700));
    let vars = variants();
    let mut worlds: Vec<ProxyWorld> = check.draw("worlds", &exec::world_strategy(true, true), nworlds);
    worlds.extend(constructed());
    let batch = 70;
    let mut idx = 0;
    for chunk in worlds.chunks(batch) {
        let members: Vec<Member> = chunk
            .iter()
            .enumerate()
            .map(|(i, w)| {
                let (mut v, mut a) = vars[(idx + i) % vars.len()].clone();
                // `--ownership=borrowing` turns `list<list<string>>` parameters of imports into
                // `&[&[&str]]`-like types, which the forwarding implementation (it only knows `x`
                // and `&x`) cannot produce from the owned value it received: such worlds run
                // with the default options instead
                if v.starts_with("borrowed") && w.funcs.iter().any(|f| f.params.iter().any(deep_borrow)) {
                    (v, a) = vars[0].clone();
                }
                // value probes through the generated types where their names are the plain ones
                let probe = matches!(v, "default" | "no-std" | "raw-strings" | "hashmap");
                exec::rust_member_probed(idx + i, w, v, &a, probe)
            })
            .collect();
        idx += chunk.len();
        let built = exec::build_rust(&members);
        for (m, b) in members.iter().zip(&built) {
            let label = serde_json::json!({"variant": m.variant, "wit": if m.wit.len() < 600 { m.wit.clone() } else { format!("{}...", &m.wit[..600]) }, "calls": m.world.calls.len()});
            check.case("worlds", &label, |_, obs| {
                obs.label(m.variant.clone());
                if m.world.funcs.iter().any(|f| f.params.iter().chain(f.result.iter()).any(exec::has_numeric_aggregate_list)) {
                    obs.label("list-of-numeric-aggregate");
                }
                let so = match b {
                    Ok(p) => p,
                    Err(e) => {
                        if e.starts_with("harness:") {
                            vcommon::harness_error(format!("{e}\n{}", m.wit));
                        }
                        // compile errors are C09's subject; here the world is simply not executed
                        obs.label("not-built(C09)");
                        if heap {
                            return Ok(());
                        }
                        let first = e.lines().find(|l| l.starts_with("error")).unwrap_or("").to_string();
                        let re = regex::Regex::new(r"`[^`]*`").unwrap();
                        return Err(Failure::new(format!("rust-native-build: {}", re.replace_all(&first, "`_`").chars().take(80).collect::<String>()), format!("the bindings ({}) do not build natively:\n{e}\nWIT:\n{}", m.variant, m.wit)));
                    }
                };
                let mut stats = exec::Stats::default();
                let fails = exec::run_world(so, &m.world, &m.imports, &mut stats);
                obs.evals = stats.calls + stats.import_calls;
                if stats.heap_values > 0 {
                    obs.nontrivial_by(&(&m.wit, &m.variant));
                }
                let mine: &[&str] = if heap { HEAP_SIGS } else { VALUE_SIGS };
                for (sig, msg) in fails {
                    if mine.contains(&sig.as_str()) {
                        return Err(Failure::new(format!("{sig} {}", m.variant), format!("{msg}\nvariant {}\nWIT:\n{}", m.variant, m.wit)));
                    }
                    obs.label(format!("other-property:{sig}"));
                }
                Ok(())
            });
        }
    }
    if std::env::var("VERIF_KEEP").is_err() {
        let _ = std::fs::remove_dir_all(exec::WS);
    }
}
