//! C08 — Rust async imports and exports deliver the same values as sync ones.
//!
//! The proxy worlds of exec.rs with every function bound in one of four ways chosen per
//! function: {sync, async} export x {sync, async} import (`--async=export:..` /
//! `--async=import:..`). The forwarding guest is `f(args)` / `f(args).await` /
//! `block_on(f(args))` accordingly. The host (reference ABI, P = 8) drives the async exports
//! through `[async-lift]` + `[callback]`, observes `task.return`, and plays the callee of the
//! async imports under a generated schedule (returns at once; starts and returns later; is
//! still starting when the call returns). Values, call counts and the guest heap are judged as
//! for the sync bindings (C05/C06).
use crate::backends::{self, GenOutcome, Input};
use crate::exec::{self, Call, Member, ProxyWorld, ABI};
use proptest::prelude::*;
use refabi::{Flat, Ty, Val};
use serde::{Deserialize, Serialize};
use std::cell::RefCell;
use std::collections::BTreeMap;
use vcommon::{Check, Failure};

#[derive(Clone, Debug, Hash, Serialize, Deserialize)]
pub struct AsyncWorld {
    pub world: ProxyWorld,
    /// per function: (async export, async import)
    pub modes: Vec<(bool, bool)>,
    /// per call: status the async import call returns at once (0 STARTING, 1 STARTED, 2 RETURNED)
    pub schedule: Vec<u8>,
}

fn strategy() -> BoxedStrategy<AsyncWorld> {
    exec::world_strategy(true, false)
        .prop_flat_map(|w| {
            let n = w.funcs.len();
            let c = w.calls.len();
            // 0..=2: how the async callee answers; 3, 4: the callee blocks (STARTING / STARTED) and
            // the host cancels the exported task while it waits (only for async export + import)
            (Just(w), prop::collection::vec((any::<bool>(), any::<bool>()), n), prop::collection::vec(prop_oneof![4 => 0u8..3, 1 => 3u8..5], c))
        })
        .prop_map(|(world, mut modes, schedule)| {
            // at least one function is async somewhere
            if !modes.iter().any(|m| m.0 || m.1) {
                modes[0] = (true, true);
            }
            AsyncWorld { world, modes, schedule }
        })
        .boxed()
}

// ---------------------------------------------------------------- guest side

/// the canonical built-ins of the async runtime, forwarded to a table the host installs
const KF_INDIRECT_PARAMS: &str = "heap-leak: async export with more than 16 flat parameters never frees the parameter area";

const ASYNC_GLUE: &str = r#"
#[repr(C)]
pub struct AsyncHost {
    pub set_new: unsafe extern "C" fn() -> u32,
    pub set_drop: unsafe extern "C" fn(u32),
    pub join: unsafe extern "C" fn(u32, u32),
    pub wait: unsafe extern "C" fn(u32, *mut [u32; 2]) -> u32,
    pub poll: unsafe extern "C" fn(u32, *mut [u32; 2]) -> u32,
    pub subtask_cancel: unsafe extern "C" fn(u32) -> u32,
    pub subtask_drop: unsafe extern "C" fn(u32),
    pub task_cancel: unsafe extern "C" fn(),
}
static mut AHOST: Option<&'static AsyncHost> = None;
#[no_mangle]
pub unsafe extern "C" fn __verif_set_async_host(h: &'static AsyncHost) { AHOST = Some(h); }
fn ah() -> &'static AsyncHost { unsafe { AHOST.expect("async host installed") } }
static mut CTX_SLOT: *mut u8 = std::ptr::null_mut();
static mut TASK_SLOT: *mut u8 = std::ptr::null_mut();
#[export_name = "[context-get-0]"] pub unsafe extern "C" fn __ctx_get() -> *mut u8 { CTX_SLOT }
#[export_name = "[context-set-0]"] pub unsafe extern "C" fn __ctx_set(v: *mut u8) { CTX_SLOT = v; }
#[no_mangle] pub unsafe extern "C" fn __verif_ctx() -> *mut u8 { CTX_SLOT }
#[export_name = "wasip3_task_set"] pub unsafe extern "C" fn __task_set(p: *mut u8) -> *mut u8 { let o = TASK_SLOT; TASK_SLOT = p; o }
#[export_name = "[waitable-set-new]"] pub unsafe extern "C" fn __ws_new() -> u32 { (ah().set_new)() }
#[export_name = "[waitable-set-drop]"] pub unsafe extern "C" fn __ws_drop(s: u32) { (ah().set_drop)(s) }
#[export_name = "[waitable-join]"] pub unsafe extern "C" fn __ws_join(w: u32, s: u32) { (ah().join)(w, s) }
#[export_name = "[waitable-set-wait]"] pub unsafe extern "C" fn __ws_wait(s: u32, p: *mut [u32; 2]) -> u32 { (ah().wait)(s, p) }
#[export_name = "[waitable-set-poll]"] pub unsafe extern "C" fn __ws_poll(s: u32, p: *mut [u32; 2]) -> u32 { (ah().poll)(s, p) }
#[export_name = "[subtask-cancel]"] pub unsafe extern "C" fn __st_cancel(s: u32) -> u32 { (ah().subtask_cancel)(s) }
#[export_name = "[subtask-drop]"] pub unsafe extern "C" fn __st_drop(s: u32) { (ah().subtask_drop)(s) }
#[export_name = "[thread-yield]"] pub unsafe extern "C" fn __th_yield() -> bool { false }
#[export_name = "[backpressure-inc]"] pub unsafe extern "C" fn __bp_inc() {}
#[export_name = "[backpressure-dec]"] pub unsafe extern "C" fn __bp_dec() {}
#[export_name = "[task-cancel]"] pub unsafe extern "C" fn __t_cancel() { (ah().task_cancel)() }
#[export_name = "[error-context-new-utf8]"] pub unsafe extern "C" fn __ec_new(_: *const u8, _: usize) -> u32 { 1 }
#[export_name = "[error-context-drop]"] pub unsafe extern "C" fn __ec_drop(_: u32) {}
#[export_name = "[error-context-debug-message-utf8]"] pub unsafe extern "C" fn __ec_msg(_: u32, _: *mut u8) {}
"#;

/// rewrite the `--stubs` bodies into forwarding calls according to the binding modes
fn patch_async(text: &str, aw: &AsyncWorld) -> Result<(String, Vec<(String, String)>), String> {
    // the import stand-ins (sync imports, `[async-lower]` calls, `[task-return]` imports) are
    // rewritten by the common patcher; it is given no functions so it leaves the stubs alone
    let (mut out, table) = exec::patch_rust_bindings(text, &[])?;
    for i in 0..aw.world.funcs.len() {
        let (aexp, aimp) = aw.modes[i];
        let key = if aimp { format!("pub async fn f{i}(") } else { format!("pub fn f{i}(") };
        let Some(at) = out.find(&key) else { return Err(format!("no import wrapper `{key}..` in the bindings (modes {:?})", aw.modes[i])) };
        let params = exec::balanced(&out[at + key.len()..]).ok_or_else(|| format!("unbalanced parameter list of import wrapper f{i}"))?;
        let args: Vec<String> = exec::split_top(params)
            .into_iter()
            .map(|x| {
                let (n, t) = x.split_once(':').unwrap_or((x.as_str(), ""));
                if t.trim().starts_with('&') {
                    format!("&{}", n.trim())
                } else {
                    n.trim().to_string()
                }
            })
            .collect();
        let call = format!("v::w::api::f{i}({})", args.join(", "));
        let body = match (aexp, aimp) {
            (false, false) | (true, false) => format!("{{ {call} }}"),
            (true, true) => format!("{{ {call}.await }}"),
            (false, true) => format!("{{ wit_bindgen::rt::async_support::block_on({call}) }}"),
        };
        let skey = if aexp { format!("  async fn f{i}(") } else { format!("  fn f{i}(") };
        let Some(sat) = out.find(&skey) else { return Err(format!("no `--stubs` method `{}` in the bindings", skey.trim())) };
        const BODY: &str = "{ unreachable!() }";
        let Some(bat) = out[sat..].find(BODY) else { return Err(format!("no `--stubs` body for f{i}")) };
        let bat = sat + bat;
        out.replace_range(bat..bat + BODY.len(), &body);
    }
    Ok((out, table))
}

fn trampolines(aw: &AsyncWorld) -> String {
    let w = &aw.world;
    let mut s = String::from("extern \"C\" {\n");
    for i in 0..w.funcs.len() {
        let ps = exec::export_flat_params(w, i);
        let decl: Vec<String> = ps.iter().enumerate().map(|(k, f)| format!("a{k}: {}", exec::rust_flat(*f))).collect();
        if aw.modes[i].0 {
            s.push_str(&format!("    #[link_name = \"[async-lift]v:w/api#f{i}\"]\n    fn __e{i}({}) -> i32;\n    #[link_name = \"[callback][async-lift]v:w/api#f{i}\"]\n    fn __c{i}(a: u32, b: u32, c: u32) -> u32;\n", decl.join(", ")));
        } else {
            let rs = exec::export_flat_result(w, i);
            let ret = rs.map(|f| format!(" -> {}", exec::rust_flat(f))).unwrap_or_default();
            s.push_str(&format!("    #[link_name = \"v:w/api#f{i}\"]\n    fn __e{i}({}){ret};\n", decl.join(", ")));
            if w.needs_post_return(i) {
                s.push_str(&format!("    #[link_name = \"cabi_post_v:w/api#f{i}\"]\n    fn __p{i}(a0: {});\n", exec::rust_flat(rs.unwrap())));
            }
        }
    }
    s.push_str("}\n");
    for i in 0..w.funcs.len() {
        let ps = exec::export_flat_params(w, i);
        let args: Vec<String> = ps.iter().enumerate().map(|(k, f)| exec::unpack(*f, k)).collect();
        let call = format!("__e{i}({})", args.join(", "));
        let n = ps.len().max(1);
        if aw.modes[i].0 {
            s.push_str(&format!("#[no_mangle]\npub unsafe extern \"C\" fn __verif_export_{i}(args: *const u64, ret: *mut u64) {{ let a = std::slice::from_raw_parts(args, {n}); *ret = ({call}) as u32 as u64; }}\n"));
            s.push_str(&format!("#[no_mangle]\npub unsafe extern \"C\" fn __verif_callback_{i}(a: u32, b: u32, c: u32) -> u32 {{ __c{i}(a, b, c) }}\n"));
        } else {
            let rs = exec::export_flat_result(w, i);
            let body = match rs {
                Some(f) => format!("*ret = {};", exec::pack(f, &call)),
                None => format!("{call};"),
            };
            s.push_str(&format!("#[no_mangle]\npub unsafe extern \"C\" fn __verif_export_{i}(args: *const u64, ret: *mut u64) {{ let a = std::slice::from_raw_parts(args, {n}); {body} }}\n"));
            if w.needs_post_return(i) {
                s.push_str(&format!("#[no_mangle]\npub unsafe extern \"C\" fn __verif_post_{i}(args: *const u64) {{ let a = std::slice::from_raw_parts(args, 1); __p{i}({}); }}\n", exec::unpack(rs.unwrap(), 0)));
            }
        }
    }
    s
}

fn member(aw: &AsyncWorld) -> Member {
    let wit = aw.world.wit(0).replace("package v:w0;", "package v:w;");
    let variant = aw.modes.iter().map(|(e, i)| format!("{}{}", if *e { "E" } else { "e" }, if *i { "I" } else { "i" })).collect::<Vec<_>>().join(",");
    let mut m = Member { world: aw.world.clone(), wit: wit.clone(), variant, sources: Err(String::new()), imports: vec![], async_rt: true };
    let (resolve, wid) = match backends::resolve_input(&Input::Text(&wit), Some("w")) {
        Ok(x) => x,
        Err(e) => {
            m.sources = Err(format!("harness: proxy world does not parse: {e:#}"));
            return m;
        }
    };
    let mut args: Vec<String> = vec!["--generate-all".into(), "--stubs".into()];
    for (i, (e, im)) in aw.modes.iter().enumerate() {
        if *e {
            args.push(format!("--async=export:v:w/api#f{i}"));
        }
        if *im {
            args.push(format!("--async=import:v:w/api#f{i}"));
        }
    }
    let argv: Vec<&str> = args.iter().map(|s| s.as_str()).collect();
    let tmp = tempfile::tempdir().unwrap();
    let files = match backends::generate("rust", &argv, &resolve, wid, Some(tmp.path())) {
        GenOutcome::Files(f) => f,
        GenOutcome::Error(e) => {
            m.sources = Err(format!("generator error: {e}"));
            return m;
        }
        GenOutcome::Panic(p) => {
            m.sources = Err(format!("generator panic: {}", p.render()));
            return m;
        }
    };
    let Some((_, b)) = files.iter().find(|(n, _)| n.ends_with(".rs")) else {
        m.sources = Err("no .rs output".into());
        return m;
    };
    match patch_async(&String::from_utf8_lossy(b), aw) {
        Ok((patched, table)) => {
            m.imports = table;
            m.sources = Ok(vec![("lib.rs".into(), format!("{}\n{ASYNC_GLUE}\n{}", exec::RUST_GLUE_HEAD, trampolines(aw))), ("b.rs".into(), patched)]);
        }
        Err(e) => m.sources = Err(format!("harness: cannot adapt the bindings for native execution: {e}")),
    }
    m
}

// ---------------------------------------------------------------- host side

#[derive(Clone, Copy, PartialEq, Debug)]
enum Imp {
    Sync(usize),
    AsyncLower(usize),
    TaskReturn(usize),
    Other,
}

#[derive(Default)]
struct Sub {
    func: usize,
    state: u32,
    set: u32,
    event: Option<u32>,
    args: Vec<u64>,
    results_ptr: u64,
    params_checked: bool,
    dropped: bool,
}

#[derive(Default)]
struct AHost {
    imports: Vec<Imp>,
    world: Option<ProxyWorld>,
    modes: Vec<(bool, bool)>,
    call: Option<Call>,
    imm: u32,
    next: u32,
    sets: BTreeMap<u32, bool>,
    subs: BTreeMap<u32, Sub>,
    import_calls: u32,
    task_returns: u32,
    task_cancels: u32,
    /// the host cancels the exported task of the current call
    cancel: bool,
}

thread_local! {
    static AH: RefCell<AHost> = RefCell::new(AHost::default());
}

fn ah<R>(f: impl FnOnce(&mut AHost) -> R) -> R {
    AH.with(|a| f(&mut a.borrow_mut()))
}

/// lift the parameters of an import call (flat limit `max_flat`) and compare them
fn check_params(f: usize, args: &[u64], max_flat: usize) {
    let (call, func) = ah(|a| (a.call.clone(), a.world.as_ref().unwrap().funcs[f].clone()));
    let Some(call) = call else { return };
    let flats: Vec<Flat> = func.params.iter().flat_map(|t| ABI.flatten(t)).collect();
    let mem = exec::real_mem();
    let got: Option<Vec<Val>> = exec::decode(&format!("parameters of import f{f}"), || {
        if flats.len() > max_flat {
            let tuple = Ty::Tuple(func.params.clone());
            exec::add_valid(args[0], ABI.size(&tuple));
            let Val::Tuple(v) = refabi::load(&ABI, &mem, &tuple, args[0]) else { unreachable!() };
            v
        } else {
            let mut it = args[..flats.len()].iter();
            func.params.iter().map(|t| refabi::lift_flat(&ABI, &mem, t, &mut it)).collect()
        }
    });
    if let Some(got) = got {
        for (i, (g, w)) in got.iter().zip(&call.params).enumerate() {
            if exec::canon(g) != exec::canon(w) {
                exec::fail("value-changed-export-to-import", format!("parameter {i} of f{f}: the host sent {w:?} into the export, the guest passed {g:?} to the import (type {:?})", func.params[i]));
            }
        }
    }
}

fn write_result(f: usize, at: u64) {
    let (call, func) = ah(|a| (a.call.clone(), a.world.as_ref().unwrap().funcs[f].clone()));
    if let (Some(call), Some(t)) = (call, &func.result) {
        if let Some(v) = &call.result {
            let mut mem = exec::real_mem();
            ABI.store(&mut mem, v, t, at);
        }
    }
}

unsafe extern "C" fn host_call(id: u32, args: *const u64, nargs: usize, ret: *mut u64) {
    let args = std::slice::from_raw_parts(args, nargs).to_vec();
    *ret = 0;
    let imp = ah(|a| a.imports.get(id as usize).copied().unwrap_or(Imp::Other));
    match imp {
        Imp::Sync(f) => {
            ah(|a| a.import_calls += 1);
            let (func, call) = ah(|a| (a.world.as_ref().unwrap().funcs[f].clone(), a.call.clone()));
            let res_flats: Vec<Flat> = func.result.as_ref().map(|t| ABI.flatten(t)).unwrap_or_default();
            check_params(f, &args, 16);
            if let (Some(t), Some(v)) = (&func.result, call.and_then(|c| c.result)) {
                let mut mem = exec::real_mem();
                if res_flats.len() > 1 {
                    ABI.store(&mut mem, &v, t, args[nargs - 1]);
                } else if let Some((_, bits)) = ABI.lower_flat(&mut mem, &v, t).first() {
                    *ret = *bits;
                }
            }
        }
        Imp::AsyncLower(f) => {
            ah(|a| a.import_calls += 1);
            let func = ah(|a| a.world.as_ref().unwrap().funcs[f].clone());
            let nflat: usize = func.params.iter().map(|t| ABI.flatten(t).len()).sum();
            let want = if nflat > 4 { 1 } else { nflat } + func.result.is_some() as usize;
            if nargs != want {
                exec::fail("import-arity", format!("async-lowered import f{f} was called with {nargs} core arguments, the canonical ABI gives {want}"));
                *ret = 2;
                return;
            }
            let results_ptr = if func.result.is_some() { args[nargs - 1] } else { 0 };
            let imm = ah(|a| a.imm);
            if imm >= 1 {
                // the callee starts before the call returns: it reads its parameters now
                check_params(f, &args, 4);
            }
            if imm == 2 {
                if results_ptr != 0 {
                    exec::add_valid(results_ptr, func.result.as_ref().map(|t| ABI.size(t)).unwrap_or(0));
                    write_result(f, results_ptr);
                }
                *ret = 2;
                return;
            }
            let h = ah(|a| {
                a.next += 1;
                let h = a.next;
                a.subs.insert(h, Sub { func: f, state: imm, set: 0, event: None, args: args.clone(), results_ptr, params_checked: imm >= 1, dropped: false });
                h
            });
            *ret = (imm | (h << 4)) as u64;
        }
        Imp::TaskReturn(f) => {
            let n = ah(|a| {
                a.task_returns += 1;
                a.task_returns
            });
            if n > 1 {
                exec::fail("task-return-count", format!("task.return of f{f} was called {n} times"));
                return;
            }
            // the result values, flattened like parameters (16 flat values, else through memory)
            let (func, call) = ah(|a| (a.world.as_ref().unwrap().funcs[f].clone(), a.call.clone()));
            if let (Some(t), Some(want)) = (&func.result, call.and_then(|c| c.result)) {
                let flats = ABI.flatten(t);
                let mem = exec::real_mem();
                let got = exec::decode(&format!("task.return of f{f}"), || {
                    if flats.len() > 16 {
                        exec::add_valid(args[0], ABI.size(t));
                        refabi::load(&ABI, &mem, t, args[0])
                    } else {
                        let mut it = args.iter();
                        refabi::lift_flat(&ABI, &mem, t, &mut it)
                    }
                });
                if let Some(got) = got {
                    if exec::canon(&got) != exec::canon(&want) {
                        exec::fail("value-changed-import-to-export", format!("result of f{f}: the import returned {want:?}, task.return delivered {got:?} (type {t:?})"));
                    }
                }
            }
        }
        Imp::Other => exec::fail("import-unexpected", format!("import #{id} is not one the forwarding guest may call")),
    }
}

/// the callee of subtask `h` makes one step of progress
fn advance(h: u32) -> bool {
    let Some((state, f, args, rp, checked)) = ah(|a| a.subs.get(&h).filter(|s| !s.dropped && s.event.is_none()).map(|s| (s.state, s.func, s.args.clone(), s.results_ptr, s.params_checked))) else { return false };
    match state {
        0 => {
            if !checked {
                check_params(f, &args, 4);
            }
            ah(|a| {
                let s = a.subs.get_mut(&h).unwrap();
                s.state = 1;
                s.params_checked = true;
                s.event = Some(1);
            });
            true
        }
        1 => {
            if rp != 0 {
                let size = ah(|a| a.world.as_ref().unwrap().funcs[f].result.as_ref().map(|t| ABI.size(t)).unwrap_or(0));
                exec::add_valid(rp, size);
                write_result(f, rp);
            }
            ah(|a| {
                let s = a.subs.get_mut(&h).unwrap();
                s.state = 2;
                s.event = Some(2);
            });
            true
        }
        _ => false,
    }
}

fn host_step() -> bool {
    let hs: Vec<u32> = ah(|a| a.subs.keys().copied().collect());
    hs.into_iter().any(advance)
}

fn take_event(set: u32) -> Option<(u32, u32, u32)> {
    ah(|a| {
        let h = a.subs.iter().find(|(_, s)| s.set == set && s.event.is_some() && !s.dropped).map(|(h, _)| *h)?;
        let st = a.subs.get_mut(&h).unwrap().event.take().unwrap();
        Some((1, h, st))
    })
}

unsafe extern "C" fn a_set_new() -> u32 {
    ah(|a| {
        a.next += 1;
        let s = a.next;
        a.sets.insert(s, true);
        s
    })
}
unsafe extern "C" fn a_set_drop(s: u32) {
    let members = ah(|a| {
        a.sets.insert(s, false);
        a.subs.values().filter(|x| x.set == s && !x.dropped).count()
    });
    if members > 0 {
        exec::fail("async-protocol", format!("waitable-set.drop({s}) while {members} subtasks are still joined"));
    }
}
unsafe extern "C" fn a_join(w: u32, s: u32) {
    ah(|a| {
        if let Some(x) = a.subs.get_mut(&w) {
            x.set = s;
        }
    })
}
unsafe extern "C" fn a_wait(s: u32, p: *mut [u32; 2]) -> u32 {
    for _ in 0..64 {
        if let Some((e, w, st)) = take_event(s) {
            *p = [w, st];
            return e;
        }
        if !host_step() {
            break;
        }
    }
    vcommon::harness_error(format!("waitable-set.wait({s}) under block_on: no subtask can make progress"))
}
unsafe extern "C" fn a_poll(s: u32, p: *mut [u32; 2]) -> u32 {
    match take_event(s) {
        Some((e, w, st)) => {
            *p = [w, st];
            e
        }
        None => {
            *p = [0, 0];
            0
        }
    }
}
unsafe extern "C" fn a_subtask_cancel(h: u32) -> u32 {
    if !ah(|a| a.cancel) {
        exec::fail("async-protocol", format!("subtask.cancel({h}): the forwarding guest never drops a call in flight unless its task is cancelled"));
        return 4;
    }
    // the callee acknowledges at once: STARTED_CANCELLED (3) if it had not started, else
    // RETURNED_CANCELLED (4); an undelivered progress event is gone with it
    ah(|a| match a.subs.get_mut(&h) {
        Some(s) if !s.dropped && s.state < 2 => {
            s.state = if s.state == 0 { 3 } else { 4 };
            s.event = None;
            s.state
        }
        other => {
            let st = other.map(|s| (s.state, s.dropped));
            exec::fail("async-protocol", format!("subtask.cancel({h}) of a subtask in state {st:?}"));
            4
        }
    })
}
unsafe extern "C" fn a_subtask_drop(h: u32) {
    let st = ah(|a| a.subs.get_mut(&h).map(|s| {
        let st = (s.state, s.dropped, s.set, s.event);
        s.dropped = true;
        st
    }));
    match st {
        Some((2, false, 0, None)) => {}
        // a cancelled subtask (dropping a waitable takes it out of its set)
        Some((3 | 4, false, _, None)) => {}
        other => exec::fail("async-protocol", format!("subtask.drop({h}) in state {other:?} (expected: returned, delivered, not joined, not yet dropped)")),
    }
}
unsafe extern "C" fn a_task_cancel() {
    ah(|a| a.task_cancels += 1)
}

#[repr(C)]
struct AsyncHostTable {
    set_new: unsafe extern "C" fn() -> u32,
    set_drop: unsafe extern "C" fn(u32),
    join: unsafe extern "C" fn(u32, u32),
    wait: unsafe extern "C" fn(u32, *mut [u32; 2]) -> u32,
    poll: unsafe extern "C" fn(u32, *mut [u32; 2]) -> u32,
    subtask_cancel: unsafe extern "C" fn(u32) -> u32,
    subtask_drop: unsafe extern "C" fn(u32),
    task_cancel: unsafe extern "C" fn(),
}
static TABLE: AsyncHostTable = AsyncHostTable { set_new: a_set_new, set_drop: a_set_drop, join: a_join, wait: a_wait, poll: a_poll, subtask_cancel: a_subtask_cancel, subtask_drop: a_subtask_drop, task_cancel: a_task_cancel };

fn run(so: &std::path::Path, aw: &AsyncWorld, imports: &[(String, String)], evals: &mut u64, async_calls: &mut u64) -> Vec<(String, String)> {
    let lib = match exec::Lib::open(so) {
        Ok(l) => l,
        Err(e) => return vec![("load-error".into(), format!("cannot load the guest object: {e}"))],
    };
    let world = &aw.world;
    let mut table = vec![];
    for (m, n) in imports {
        let idx = |p: &str| n.strip_prefix(p).and_then(|x| x.strip_prefix('f')).and_then(|x| x.parse::<usize>().ok()).filter(|i| *i < world.funcs.len());
        table.push(if m == "v:w/api" && n.starts_with("[async-lower]") {
            idx("[async-lower]").map(Imp::AsyncLower).unwrap_or(Imp::Other)
        } else if m == "[export]v:w/api" && n.starts_with("[task-return]") {
            idx("[task-return]").map(Imp::TaskReturn).unwrap_or(Imp::Other)
        } else if m == "v:w/api" {
            idx("").map(Imp::Sync).unwrap_or(Imp::Other)
        } else {
            Imp::Other
        });
    }
    if table.contains(&Imp::Other) {
        return vec![("import-name".into(), format!("the bindings import {imports:?}: not all of them belong to the world"))];
    }
    let set_host: unsafe extern "C" fn(unsafe extern "C" fn(u32, *const u64, usize, *mut u64)) = unsafe { std::mem::transmute(lib.sym("__verif_set_host").expect("glue symbol")) };
    let set_async: unsafe extern "C" fn(&'static AsyncHostTable) = unsafe { std::mem::transmute(lib.sym("__verif_set_async_host").expect("glue symbol")) };
    let stats_fn: unsafe extern "C" fn(*mut u64) = unsafe { std::mem::transmute(lib.sym("__verif_stats").expect("glue symbol")) };
    let ctx_fn: unsafe extern "C" fn() -> *mut u8 = unsafe { std::mem::transmute(lib.sym("__verif_ctx").expect("glue symbol")) };
    unsafe {
        set_host(host_call);
        set_async(&TABLE);
    }
    exec::install_guest(world, &lib);
    ah(|a| {
        *a = AHost::default();
        a.imports = table;
        a.world = Some(world.clone());
        a.modes = aw.modes.clone();
        a.next = 10;
    });
    let snapshot = || {
        let mut s = [0u64; 4];
        unsafe { stats_fn(s.as_mut_ptr()) };
        s
    };
    for (ci, call) in world.calls.iter().enumerate() {
        let f = call.func;
        let func = &world.funcs[f];
        let (aexp, aimp) = aw.modes[f];
        let export: unsafe extern "C" fn(*const u64, *mut u64) = unsafe { std::mem::transmute(lib.sym(&format!("__verif_export_{f}")).expect("trampoline")) };
        let before = snapshot();
        exec::clear_valid();
        ah(|a| {
            a.call = Some(call.clone());
            let sched = aw.schedule[ci % aw.schedule.len().max(1)] as u32;
            a.imm = if sched >= 3 { sched - 3 } else { sched };
            a.cancel = sched >= 3 && aexp && aimp;
            a.import_calls = 0;
            a.task_returns = 0;
            a.task_cancels = 0;
            a.subs.clear();
        });
        *evals += 1;
        if aexp || aimp {
            *async_calls += 1;
        }
        let mut mem = exec::real_mem();
        let flats = world.flat_params(f);
        let mut args: Vec<u64> = if flats.len() > 16 {
            let tuple = Ty::Tuple(func.params.clone());
            let at = mem.alloc(ABI.size(&tuple), ABI.align(&tuple));
            ABI.store(&mut mem, &Val::Tuple(call.params.clone()), &tuple, at);
            vec![at]
        } else {
            call.params.iter().zip(&func.params).flat_map(|(v, t)| ABI.lower_flat(&mut mem, v, t).into_iter().map(|x| x.1)).collect()
        };
        if args.is_empty() {
            args.push(0);
        }
        let mut ret = 0u64;
        unsafe { export(args.as_ptr(), &mut ret) };
        if aexp {
            // drive the task: callback codes EXIT 0, YIELD 1, WAIT 2|set<<4
            let callback: unsafe extern "C" fn(u32, u32, u32) -> u32 = unsafe { std::mem::transmute(lib.sym(&format!("__verif_callback_{f}")).expect("trampoline")) };
            let mut code = ret as u32;
            let mut rounds = 0;
            let cancel = ah(|a| a.cancel);
            let mut cancel_sent = false;
            while code & 0xf != 0 {
                rounds += 1;
                if rounds > 64 {
                    exec::fail("async-protocol", format!("the task of f{f} did not finish within 64 callbacks"));
                    break;
                }
                let ev = match code & 0xf {
                    1 => Some((0, 0, 0)),
                    // the task waits for its blocked callee: the host cancels it (EVENT_CANCEL)
                    2 if cancel && !cancel_sent => {
                        cancel_sent = true;
                        Some((6, 0, 0))
                    }
                    2 => {
                        let set = code >> 4;
                        let mut e = take_event(set);
                        if e.is_none() && host_step() {
                            e = take_event(set);
                        }
                        if e.is_none() {
                            exec::fail("async-protocol", format!("the task of f{f} waits on set {set} but no subtask joined to it can make progress"));
                        }
                        e
                    }
                    other => {
                        exec::fail("async-protocol", format!("callback code {other}"));
                        None
                    }
                };
                let Some((e0, e1, e2)) = ev else { break };
                *evals += 1;
                code = unsafe { callback(e0, e1, e2) };
            }
            let (tr, tc) = ah(|a| (a.task_returns, a.task_cancels));
            if cancel_sent {
                // its work was dropped: cancellation is signalled exactly once, no result
                if tc != 1 || tr != 0 {
                    exec::fail("task-cancel-count", format!("the async export f{f} was cancelled while it waited for its callee: task.cancel was called {tc} times and task.return {tr} times (expected 1 and 0)"));
                }
            } else if tr != 1 || tc != 0 {
                exec::fail("task-return-count", format!("the async export f{f} finished with task.return called {tr} times (task.cancel {tc} times)"));
            }
            if !unsafe { ctx_fn() }.is_null() {
                exec::fail("async-protocol", format!("the task of f{f} exited but the context slot still holds its state"));
            }
        } else if let (Some(t), Some(want)) = (&func.result, &call.result) {
            let rf = world.flat_result(f);
            let mem = exec::real_mem();
            let got = exec::decode(&format!("result of export f{f}"), || {
                if rf.len() > 1 {
                    exec::add_valid(ret, ABI.size(t));
                    refabi::load(&ABI, &mem, t, ret)
                } else {
                    let v = [ret];
                    let mut it = v.iter();
                    refabi::lift_flat(&ABI, &mem, t, &mut it)
                }
            });
            if let Some(got) = got {
                if exec::canon(&got) != exec::canon(want) {
                    exec::fail("value-changed-import-to-export", format!("result of f{f}: the import returned {want:?}, the export returned {got:?} (type {t:?})"));
                }
            }
            if world.needs_post_return(f) {
                let post: unsafe extern "C" fn(*const u64) = unsafe { std::mem::transmute(lib.sym(&format!("__verif_post_{f}")).expect("trampoline")) };
                let a = [ret];
                unsafe { post(a.as_ptr()) };
            }
        } else if !aexp && world.needs_post_return(f) {
            let post: unsafe extern "C" fn(*const u64) = unsafe { std::mem::transmute(lib.sym(&format!("__verif_post_{f}")).expect("trampoline")) };
            let a = [ret];
            unsafe { post(a.as_ptr()) };
        }
        let (calls, left): (u32, Vec<u32>) = ah(|a| (a.import_calls, a.subs.iter().filter(|(_, s)| !s.dropped).map(|(h, _)| *h).collect()));
        if calls != 1 {
            exec::fail("import-call-count", format!("export f{f} (async export {aexp}, async import {aimp}) called its import {calls} times"));
        }
        if !left.is_empty() {
            exec::fail("async-protocol", format!("after the call of f{f} the subtask handles {left:?} were never dropped"));
        }
        ah(|a| a.call = None);
        let after = snapshot();
        if after[2] != before[2] {
            exec::fail("heap-misuse", format!("call of f{f} (modes {:?}): {} frees of blocks that are not live", aw.modes[f], after[2] - before[2]));
        }
        if after[0] != before[0] {
            let dump: unsafe extern "C" fn(*mut u64, usize) -> usize = unsafe { std::mem::transmute(lib.sym("__verif_dump").expect("glue symbol")) };
            let mut buf = [0u64; 32];
            let n = unsafe { dump(buf.as_mut_ptr(), 16) };
            let blocks: Vec<String> = (0..n)
                .map(|i| {
                    let (a, s) = (buf[2 * i], buf[2 * i + 1]);
                    let bytes = unsafe { std::slice::from_raw_parts(a as usize as *const u8, (s as usize).min(24)) };
                    format!("{s} bytes {:?}", String::from_utf8_lossy(bytes))
                })
                .collect();
            // listed finding: the area the host allocates (cabi_realloc) for more than 16 flat
            // parameters is freed by sync exports only
            let area = ABI.size(&refabi::Ty::Tuple(func.params.clone())) as i64;
            let sig = if aexp && world.flat_params(f).len() > 16 && after[0] as i64 - before[0] as i64 == 1 && after[1] as i64 - before[1] as i64 == area { KF_INDIRECT_PARAMS } else { "heap-leak" };
            exec::fail(sig, format!("call of f{f} (async export {aexp}, async import {aimp}, import answers with status {}) with {:?} -> {:?}: {} heap blocks / {} bytes are still allocated after the call finished (the same call through sync bindings leaves none); live blocks: {blocks:?}", aw.schedule[ci % aw.schedule.len().max(1)], call.params, call.result, after[0] as i64 - before[0] as i64, after[1] as i64 - before[1] as i64));
        }
    }
    let fails = exec::take_failures();
    drop(lib);
    fails
}

pub fn run_check(check: &mut Check) {
    check.rule = "proxy worlds (1..3 functions, 0..4 parameters and an optional result over all WIT value types incl. maps, nested to depth 3; imported and exported) where every function is bound per a generated choice of {sync, async} export x {sync, async} import (`--async=export:..`/`--async=import:..`), forwarding guest `f(..)`, `f(..).await` or `block_on(f(..))`, x 3 value sets per function x a generated callee schedule per call (the async import returns RETURNED at once / STARTED then RETURNED later / STARTING, STARTED, RETURNED); native execution: the reference ABI drives `[async-lift]` + `[callback]`, observes `task.return`, plays the async callee (reads the parameters when the callee starts, writes the results when it returns); \
        oracle: values equal in both directions exactly as for sync bindings, the import is called once with the canonical async arity (4 flat parameters, results through memory), task.return exactly once with the right values, every subtask dropped once after RETURNED was delivered, context slot empty after exit, guest heap identical before and after each call; non-trivial = call with at least one async side; distinct by world".into();
    check.assumptions.push("native x86-64 execution; the async built-ins are forwarded from the guest object to a small host written for this check (waitable sets with subtasks only); cancellation of calls in flight is not part of the forwarding guest (the runtime side of cancellation is C21/C22)".into());
    check.assumptions.push("streams and futures as parameter types are outside these worlds (C19/C20 at the runtime level)".into());
    if check.is_replay() {
        vcommon::harness_error("C08 builds batches of worlds; re-run ./check C08 quick to reproduce (worlds are a function of VERIF_SEED)");
    }
    vcommon::abort::install(&check.id, "worlds", check.sub_seed("worlds", 0));
    let nworlds = std::env::var("VERIF_N").ok().and_then(|s| s.parse().ok()).unwrap_or(check.tier.pick(42usize, 700));
    let mut worlds: Vec<AsyncWorld> = check.draw("worlds", &strategy(), nworlds);
    // the listed finding is excluded by construction (such functions keep a sync export) and
    // shown once by its witness, so that the search goes on behind it
    let listed = check.known.matches(KF_INDIRECT_PARAMS);
    let mut excluded = 0u64;
    if listed {
        for aw in worlds.iter_mut() {
            for f in 0..aw.world.funcs.len() {
                if aw.modes[f].0 && aw.world.flat_params(f).len() > 16 {
                    aw.modes[f].0 = false;
                    excluded += 1;
                }
            }
        }
        check.assumptions.push(format!("{excluded} generated functions with more than 16 flat parameters were bound as sync exports instead of async ones (listed finding, shown by its witness)"));
        let p: Vec<(String, Ty)> = (0..17).map(|i| (format!("m{i}"), Ty::U32)).collect();
        let world = ProxyWorld { funcs: vec![exec::Func { params: vec![refabi::Ty::Record(p)], result: None, sink: false }], calls: vec![exec::Call { func: 0, params: vec![refabi::Val::Record((0..17).map(refabi::Val::U32).collect())], result: None }] };
        worlds.insert(0, AsyncWorld { world, modes: vec![(true, false)], schedule: vec![0] });
    }
    for chunk in worlds.chunks(70) {
        let members: Vec<Member> = chunk.iter().map(member).collect();
        let built = exec::build_rust(&members);
        for ((m, b), aw) in members.iter().zip(&built).zip(chunk) {
            let label = serde_json::json!({"modes": m.variant, "wit": if m.wit.len() < 600 { m.wit.clone() } else { format!("{}...", &m.wit[..600]) }, "calls": m.world.calls.len(), "schedule": aw.schedule});
            check.case("worlds", &label, |_, obs| {
                let so = match b {
                    Ok(p) => p,
                    Err(e) => {
                        if e.starts_with("harness:") {
                            vcommon::harness_error(format!("{e}\n{}", m.wit));
                        }
                        let first = e.lines().find(|l| l.starts_with("error")).unwrap_or("").to_string();
                        let re = regex::Regex::new(r"`[^`]*`").unwrap();
                        return Err(Failure::new(format!("rust-native-build: {}", re.replace_all(&first, "`_`").chars().take(80).collect::<String>()), format!("the async bindings (modes {}) do not build natively:\n{e}\nWIT:\n{}", m.variant, m.wit)));
                    }
                };
                let (mut evals, mut async_calls) = (0, 0);
                vcommon::abort::set_current(&serde_json::json!({"modes": m.variant, "wit": m.wit, "world": aw.world, "schedule": aw.schedule}).to_string());
                let fails = run(so, aw, &m.imports, &mut evals, &mut async_calls);
                vcommon::abort::clear();
                obs.evals = evals;
                if async_calls > 0 {
                    obs.nontrivial_by(&(&m.wit, &m.variant));
                }
                for (ci, c) in aw.world.calls.iter().enumerate() {
                    let s = aw.schedule[ci % aw.schedule.len().max(1)];
                    if s >= 3 && aw.modes[c.func] == (true, true) {
                        obs.label(if s == 3 { "export-task-cancelled:callee-not-started" } else { "export-task-cancelled:callee-started" });
                    }
                }
                for (e, i) in &aw.modes {
                    obs.label(format!("export:{} import:{}", if *e { "async" } else { "sync" }, if *i { "async" } else { "sync" }));
                }
                // (a listed finding never hides another failure of the same world)
                let mut fails = fails;
                fails.sort_by_key(|(sig, _)| sig == KF_INDIRECT_PARAMS);
                if let Some((sig, msg)) = fails.into_iter().next() {
                    if sig == KF_INDIRECT_PARAMS {
                        return Err(Failure::new(sig, format!("{msg}\nmodes: {}\nWIT:\n{}", m.variant, m.wit)));
                    }
                    return Err(Failure::new(format!("{sig} [{}]", m.variant), format!("{msg}\nmodes (E/e = async/sync export, I/i = async/sync import per function): {}\nWIT:\n{}", m.variant, m.wit)));
                }
                Ok(())
            });
        }
    }
    if std::env::var("VERIF_KEEP").is_err() {
        let _ = std::fs::remove_dir_all(exec::WS);
    }
}
