//! C29 — Markdown docs have valid links and verbatim documentation text.
use crate::backends::{self, GenOutcome};
use crate::c16::prepare;
use crate::{tape_strategy, WorldCase};
use proptest::prelude::*;
use std::collections::BTreeSet;
use vcommon::{CaseResult, Check, Failure, Obs};
use wit_parser::*;

fn md_index() -> u8 {
    backends::BACKENDS.iter().position(|b| *b == "markdown").unwrap() as u8
}

/// (opening `<a ...>` tags with their attributes, nesting violations)
fn scan_html(html: &str) -> (Vec<String>, BTreeSet<String>, Option<String>) {
    let tag = regex::Regex::new(r#"(?s)<(/?)a(\s[^>]*)?>"#).unwrap();
    let href = regex::Regex::new(r##"href="#([^"]*)""##).unwrap();
    // only inside real tags: an anchor that ended up in escaped text (`&lt;a id="x"&gt;`, e.g.
    // inside a code block) is not an anchor
    let id = regex::Regex::new(r#"<[A-Za-z][^<>]*?\bid="([^"]*)""#).unwrap();
    let mut hrefs = vec![];
    let mut depth = 0i32;
    let mut nested = None;
    let mut link_start = 0;
    for m in tag.captures_iter(html) {
        let closing = &m[1] == "/";
        let attrs = m.get(2).map(|a| a.as_str()).unwrap_or("");
        let whole = m.get(0).unwrap();
        if closing {
            depth = (depth - 1).max(0);
        } else {
            // `<a id="x"></a>` anchors are links too as far as nesting goes
            if depth > 0 && nested.is_none() {
                let from = link_start;
                let to = (whole.end() + 40).min(html.len());
                nested = Some(html[from..to].chars().take(300).collect::<String>());
            }
            if depth == 0 {
                link_start = whole.start();
            }
            depth += 1;
            for h in href.captures_iter(attrs) {
                hrefs.push(h[1].to_string());
            }
        }
    }
    // ids can sit on any element
    let ids: BTreeSet<String> = id.captures_iter(html).map(|c| c[1].to_string()).collect();
    (hrefs, ids, nested)
}

fn docs_of_world(resolve: &Resolve, world: WorldId) -> Vec<(String, String)> {
    // (where, doc text) for every documented item the world reaches
    let mut out = vec![];
    let mut push = |w: String, d: &Docs| {
        if let Some(c) = &d.contents {
            out.push((w, c.clone()));
        }
    };
    let w = &resolve.worlds[world];
    push(format!("world {}", w.name), &w.docs);
    let mut types: Vec<TypeId> = vec![];
    let mut funcs: Vec<&Function> = vec![];
    let mut ifaces: BTreeSet<InterfaceId> = BTreeSet::new();
    for (_, item) in w.imports.iter().chain(w.exports.iter()) {
        match item {
            WorldItem::Interface { id, .. } => {
                ifaces.insert(*id);
            }
            WorldItem::Function(f) => funcs.push(f),
            WorldItem::Type { id, .. } => types.push(*id),
        }
    }
    for id in &ifaces {
        let i = &resolve.interfaces[*id];
        push(format!("interface {:?}", i.name), &i.docs);
        types.extend(i.types.values().copied());
        funcs.extend(i.functions.values());
    }
    for f in funcs {
        push(format!("func {}", f.name), &f.docs);
    }
    for t in types {
        let td = &resolve.types[t];
        push(format!("type {:?}", td.name), &td.docs);
        match &td.kind {
            TypeDefKind::Record(r) => r.fields.iter().for_each(|f| push(format!("field {}", f.name), &f.docs)),
            TypeDefKind::Variant(v) => v.cases.iter().for_each(|c| push(format!("case {}", c.name), &c.docs)),
            TypeDefKind::Enum(e) => e.cases.iter().for_each(|c| push(format!("enum case {}", c.name), &c.docs)),
            TypeDefKind::Flags(f) => f.flags.iter().for_each(|c| push(format!("flag {}", c.name), &c.docs)),
            _ => {}
        }
    }
    out
}

fn kind_of(place: &str) -> &str {
    place.split(' ').next().unwrap_or("")
}

fn prop(c: &WorldCase, obs: &mut Obs) -> CaseResult {
    let c = WorldCase { tape: c.tape.clone(), backend: md_index(), variant: 0 };
    let Some(p) = prepare(&c) else {
        obs.label("discarded-generator-invalid-world");
        return Ok(());
    };
    let files = match backends::generate("markdown", &[], &p.resolve, p.world, None) {
        GenOutcome::Files(f) => f,
        GenOutcome::Error(_) => return Ok(()),
        GenOutcome::Panic(_) => return Ok(()), // C16's subject
    };
    let html = files.iter().find(|(n, _)| n.ends_with(".html")).map(|(_, b)| String::from_utf8_lossy(b).to_string());
    let md = files.iter().find(|(n, _)| n.ends_with(".md")).map(|(_, b)| String::from_utf8_lossy(b).to_string());
    let (Some(html), Some(md)) = (html, md) else {
        return Err(Failure::new("missing-output", format!("markdown generator produced {:?}", files.keys().collect::<Vec<_>>())));
    };
    let ctx = format!("WIT:\n{}", p.text);
    let (hrefs, ids, nested) = scan_html(&html);
    if let Some(n) = nested {
        return Err(Failure::new("nested-link", format!("an <a> is opened inside another <a>: {n:?}\n{ctx}")));
    }
    for h in &hrefs {
        if !ids.contains(h) {
            // classify by the kind of target (a type name, a function, ...) via its spelling
            return Err(Failure::new(
                "dangling-href",
                format!("href=\"#{h}\" has no id=\"{h}\" in the same document\n{ctx}"),
            ));
        }
    }
    let docs = docs_of_world(&p.resolve, p.world);
    let md_lines: Vec<&str> = md.lines().collect();
    let mut doc_lines = 0;
    for (place, text) in &docs {
        for l in text.lines() {
            let t = l.trim();
            if t.is_empty() {
                continue;
            }
            doc_lines += 1;
            if !md_lines.iter().any(|ml| ml.contains(t)) {
                return Err(Failure::new(
                    format!("doc-text-missing {}", kind_of(place)),
                    format!("documentation line {t:?} of {place} does not occur verbatim in the .md output\n{ctx}"),
                ));
            }
        }
    }
    obs.evals = 1 + doc_lines as u64;
    if doc_lines >= 3 && !hrefs.is_empty() {
        obs.nontrivial_by(&p.text);
        obs.label("docs-and-links");
        if p.text.len() < 500 {
            obs.sample = Some(serde_json::json!({"wit": p.text, "hrefs": hrefs.len(), "doc_lines": doc_lines}));
        }
    }
    Ok(())
}

pub fn run(check: &mut Check) {
    check.rule = "generated worlds (full feature set, names shared between interfaces, doc comments on worlds/interfaces/types/fields/cases/functions built from unique tokens plus fragments with braces, `//`, `/* */`, HTML tags, `&`, backticks, brackets, `#`, `*`, `_`, tabs, quotes, blank lines) + the corpus -> Markdown generator; \
        oracle: in the .html no <a> opens inside another <a>, every href=\"#x\" has an id=\"x\" in the same document; in the .md every non-blank documentation line of every item reachable from the world occurs verbatim (trimmed) as a substring of some line; \
        non-trivial = world with >= 3 documentation lines and >= 1 intra-document link; distinct by WIT text".into();
    check.assumptions.push("doc comments themselves contain no links/anchors (a dangling link written by the user is not the generator's)".into());
    if check.is_replay() {
        check.prop("worlds", || (tape_strategy(10), Just(0u8), Just(0u8)).prop_map(|(tape, backend, variant)| WorldCase { tape, backend, variant }), 1, prop);
        return;
    }
    // corpus
    for (name, path, _text) in backends::corpus() {
        let Ok((resolve, world)) = backends::resolve_input(&backends::Input::Path(&path), None) else { continue };
        let case = serde_json::json!({"corpus": name});
        check.case("corpus", &case, |_, obs| {
            let files = match backends::generate("markdown", &[], &resolve, world, None) {
                GenOutcome::Files(f) => f,
                _ => return Ok(()),
            };
            obs.nontrivial_by(&name);
            let Some(html) = files.iter().find(|(n, _)| n.ends_with(".html")).map(|(_, b)| String::from_utf8_lossy(b).to_string()) else { return Ok(()) };
            let (hrefs, ids, nested) = scan_html(&html);
            if let Some(n) = nested {
                return Err(Failure::new("nested-link", format!("tests/codegen/{name}: an <a> is opened inside another <a>: {n:?}")));
            }
            for h in &hrefs {
                if !ids.contains(h) {
                    return Err(Failure::new("dangling-href", format!("tests/codegen/{name}: href=\"#{h}\" has no id=\"{h}\"")));
                }
            }
            Ok(())
        });
    }
    let n = check.tier.pick(20_000, 300_000);
    check.prop("worlds", || (tape_strategy(900), Just(0u8), Just(0u8)).prop_map(|(tape, backend, variant)| WorldCase { tape, backend, variant }), n, prop);
}
