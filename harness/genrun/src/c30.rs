//! C30 — MoonBit output forms a consistent package graph.
use crate::backends::{self, GenOutcome};
use crate::c16::prepare;
use crate::{tape_strategy, WorldCase};
use proptest::prelude::*;
use std::collections::{BTreeMap, BTreeSet};
use vcommon::{CaseResult, Check, Failure, Obs};

fn mb_index() -> u8 {
    backends::BACKENDS.iter().position(|b| *b == "moonbit").unwrap() as u8
}

/// remove string literals, char literals and comments from MoonBit source
fn strip_mbt(src: &str) -> String {
    let mut out = String::with_capacity(src.len());
    for line in src.lines() {
        let b: Vec<char> = line.chars().collect();
        let mut i = 0;
        // multi-line string lines start with #| or $|
        let t = line.trim_start();
        if t.starts_with("#|") || t.starts_with("$|") {
            out.push('\n');
            continue;
        }
        while i < b.len() {
            let c = b[i];
            if c == '/' && i + 1 < b.len() && b[i + 1] == '/' {
                break;
            }
            if c == '"' {
                i += 1;
                while i < b.len() && b[i] != '"' {
                    if b[i] == '\\' {
                        i += 1;
                    }
                    i += 1;
                }
                i += 1;
                out.push_str("\"\"");
                continue;
            }
            if c == '\'' {
                // char literal like 'a' or '\n' (but not a lifetime-like tick)
                if i + 2 < b.len() && b[i + 2] == '\'' {
                    i += 3;
                    continue;
                }
                if i + 3 < b.len() && b[i + 1] == '\\' && b[i + 3] == '\'' {
                    i += 4;
                    continue;
                }
            }
            out.push(c);
            i += 1;
        }
        out.push('\n');
    }
    out
}

pub fn check_files(files: &BTreeMap<String, Vec<u8>>, resolve: &wit_parser::Resolve, world: wit_parser::WorldId, ctx: &str, obs: &mut Obs) -> CaseResult {
    let text = |n: &str| String::from_utf8_lossy(&files[n]).to_string();
    let Some(modfile) = files.keys().find(|k| k.as_str() == "moon.mod.json") else {
        return Err(Failure::new("no-moon-mod", format!("no moon.mod.json generated\n{ctx}")));
    };
    let module: serde_json::Value = serde_json::from_str(&text(modfile)).map_err(|e| Failure::new("moon-mod-json", format!("moon.mod.json is not JSON: {e}\n{ctx}")))?;
    let module_name = module["name"].as_str().unwrap_or("").to_string();
    // package dir -> (alias -> path)
    let mut pkgs: BTreeMap<String, BTreeMap<String, String>> = BTreeMap::new();
    for (n, _) in files.iter().filter(|(n, _)| n.ends_with("moon.pkg.json")) {
        let dir = n.trim_end_matches("moon.pkg.json").trim_end_matches('/').to_string();
        let v: serde_json::Value = serde_json::from_str(&text(n)).map_err(|e| Failure::new("moon-pkg-json", format!("{n} is not JSON: {e}\n{ctx}")))?;
        let mut aliases = BTreeMap::new();
        if let Some(imports) = v["import"].as_array() {
            for imp in imports {
                let (path, alias) = match imp {
                    serde_json::Value::String(p) => (p.clone(), p.rsplit('/').next().unwrap_or("").to_string()),
                    o => (
                        o["path"].as_str().unwrap_or("").to_string(),
                        o["alias"].as_str().map(|s| s.to_string()).unwrap_or_else(|| o["path"].as_str().unwrap_or("").rsplit('/').next().unwrap_or("").to_string()),
                    ),
                };
                if let Some(prev) = aliases.insert(alias.clone(), path.clone()) {
                    return Err(Failure::new(
                        "duplicate-alias",
                        format!("package `{dir}` declares alias `{alias}` twice (for `{prev}` and `{path}`)\n{ctx}"),
                    ));
                }
            }
        }
        // one alias per referenced package
        let mut by_path: BTreeMap<&String, &String> = BTreeMap::new();
        for (a, p) in &aliases {
            if let Some(prev) = by_path.insert(p, a) {
                return Err(Failure::new("two-aliases-for-one-package", format!("package `{dir}` imports `{p}` under two aliases `{prev}` and `{a}`\n{ctx}")));
            }
        }
        pkgs.insert(dir, aliases);
    }
    let dirs: BTreeSet<&String> = pkgs.keys().collect();
    let mut n_imports = 0;
    for (dir, aliases) in &pkgs {
        for (alias, path) in aliases {
            n_imports += 1;
            if let Some(rest) = path.strip_prefix(&format!("{module_name}/")) {
                if !dirs.contains(&rest.to_string()) {
                    return Err(Failure::new(
                        "dangling-import-path",
                        format!("package `{dir}` imports `{path}` (alias `{alias}`) but no package directory `{rest}` with a moon.pkg.json was generated; generated: {dirs:?}\n{ctx}"),
                    ));
                }
            }
        }
        // every @alias. used in the package's sources is declared
        let qual = regex::Regex::new(r"@([A-Za-z_][A-Za-z0-9_\-]*(?:/[A-Za-z0-9_\-]+)*)\.").unwrap();
        for (n, b) in files.iter().filter(|(n, _)| n.ends_with(".mbt")) {
            let fdir = n.rsplit_once('/').map(|x| x.0).unwrap_or("");
            if fdir != dir {
                continue;
            }
            let src = strip_mbt(&String::from_utf8_lossy(b));
            for m in qual.captures_iter(&src) {
                let used = &m[1];
                if !aliases.contains_key(used) {
                    return Err(Failure::new(
                        "undeclared-qualifier",
                        format!("`{n}` uses `@{used}.` but package `{dir}` declares only aliases {:?}\n{ctx}", aliases.keys().collect::<Vec<_>>()),
                    ));
                }
            }
        }
    }
    // kebab-case WIT names are preserved in package paths
    let w = &resolve.worlds[world];
    let mut kebab_checked = 0;
    for (key, item) in w.imports.iter().chain(w.exports.iter()) {
        if let (wit_parser::WorldKey::Interface(id), wit_parser::WorldItem::Interface { .. }) = (key, item) {
            let iface = &resolve.interfaces[*id];
            let (Some(iname), Some(pid)) = (&iface.name, iface.package) else { continue };
            let pkg = &resolve.packages[pid].name;
            for seg in [&pkg.namespace, &pkg.name, iname] {
                if seg.contains('-') {
                    kebab_checked += 1;
                    if !dirs.iter().any(|d| d.split('/').any(|s| s == seg)) {
                        return Err(Failure::new(
                            "kebab-name-not-preserved",
                            format!("WIT name `{seg}` (of {}:{}/{iname}) does not appear unchanged as a segment of any package path: {dirs:?}\n{ctx}", pkg.namespace, pkg.name),
                        ));
                    }
                }
            }
        }
    }
    obs.evals = 1 + n_imports as u64;
    if n_imports >= 2 || kebab_checked > 0 {
        obs.label(if n_imports >= 2 { "two-or-more-package-imports" } else { "kebab-segment" });
    }
    if pkgs.len() >= 4 && n_imports >= 1 {
        obs.nontrivial = Some(vcommon::hash_of(&ctx));
    }
    Ok(())
}

fn prop(c: &WorldCase, obs: &mut Obs) -> CaseResult {
    let c = WorldCase { tape: c.tape.clone(), backend: mb_index(), variant: c.variant };
    let Some(p) = prepare(&c) else {
        obs.label("discarded-generator-invalid-world");
        return Ok(());
    };
    let files = match backends::generate("moonbit", &p.args, &p.resolve, p.world, None) {
        GenOutcome::Files(f) => f,
        _ => return Ok(()),
    };
    obs.label(p.variant.to_string());
    let ctx = format!("variant {}\nWIT:\n{}", p.variant, p.text);
    let r = check_files(&files, &p.resolve, p.world, &ctx, obs);
    if obs.nontrivial.is_some() && p.text.len() < 600 {
        obs.sample = Some(serde_json::json!({"variant": p.variant, "wit": p.text, "packages": files.keys().filter(|k| k.ends_with("moon.pkg.json")).collect::<Vec<_>>()}));
    }
    r
}

pub fn run(check: &mut Check) {
    check.rule = "generated worlds (1..3 packages in up to 4 namespaces, kebab-case and versioned names, interfaces whose last path segment coincides, `use` chains, resources, async) x {default, --async=all} + the corpus x both variants -> MoonBit generator; every generated moon.pkg.json is parsed: \
        aliases unique within a package, one alias per imported package, every project-internal import path names a generated directory with a moon.pkg.json, every `@alias.` qualifier in that package's .mbt files (strings and comments stripped) is declared, kebab-case WIT namespace/package/interface names appear unchanged as path segments; \
        non-trivial = output with >= 4 packages and >= 1 cross-package import; distinct by (WIT, variant)".into();
    check.assumptions.push("import paths outside the generated module prefix (moonbitlang/core/...) are external and assumed to exist".into());
    if check.is_replay() {
        check.prop("worlds", || (tape_strategy(10), Just(0u8), any::<u8>()).prop_map(|(tape, backend, variant)| WorldCase { tape, backend, variant }), 1, prop);
        return;
    }
    for (name, path, text) in backends::corpus() {
        let Ok((resolve, world)) = backends::resolve_input(&backends::Input::Path(&path), None) else { continue };
        for (variant, args) in backends::variants("moonbit") {
            if backends::corpus_excluded(&name, &text, "moonbit", variant) {
                continue;
            }
            let case = serde_json::json!({"corpus": name, "variant": variant});
            check.case("corpus", &case, |_, obs| {
                let files = match backends::generate("moonbit", &args, &resolve, world, None) {
                    GenOutcome::Files(f) => f,
                    _ => return Ok(()),
                };
                let r = check_files(&files, &resolve, world, &format!("tests/codegen/{name} ({variant})"), obs);
                obs.nontrivial_by(&(&name, variant));
                r
            });
        }
    }
    // constructed family: several packages/versions whose interfaces share their last path
    // segment, all referenced from one consumer (alias allocation under competition)
    let nm = check.tier.pick(600, 6_000);
    check.prop(
        "same-last-segment",
        || (prop::collection::vec(0usize..6, 2..6), 0u8..3, any::<bool>(), 0usize..3),
        nm,
        |(order, world_kind, asyncv, seg), obs| {
            let seg = ["types", "api", "my-iface"][*seg];
            let sources = [
                ("my:dep@0.1.0", format!("my:dep/{seg}@0.1.0")),
                ("my:dep@0.2.0", format!("my:dep/{seg}@0.2.0")),
                ("other:pkg", format!("other:pkg/{seg}")),
                ("third:lib@1.0.0", format!("third:lib/{seg}@1.0.0")),
                ("my:dep@0.3.0-rc.1", format!("my:dep/{seg}@0.3.0-rc.1")),
                ("foo-ns:bar-baz", format!("foo-ns:bar-baz/{seg}")),
            ];
            let mut picked: Vec<usize> = vec![];
            for o in order {
                if !picked.contains(o) {
                    picked.push(*o);
                }
            }
            let mut wit = String::from("package foo:bar;\ninterface consumer {\n");
            for (k, i) in picked.iter().enumerate() {
                wit.push_str(&format!("  use {}.{{t{i} as u{k}}};\n", sources[*i].1));
            }
            let params: Vec<String> = picked.iter().enumerate().map(|(k, _)| format!("p{k}: u{k}")).collect();
            wit.push_str(&format!("  f: func({});\n}}\n", params.join(", ")));
            wit.push_str("world w {\n");
            match world_kind {
                0 => wit.push_str("  import consumer;\n"),
                1 => wit.push_str("  export consumer;\n"),
                _ => {
                    for i in &picked {
                        wit.push_str(&format!("  export {};\n", sources[*i].1));
                    }
                    wit.push_str("  export consumer;\n");
                }
            }
            wit.push_str("}\n");
            for i in &picked {
                wit.push_str(&format!("package {} {{\n  interface {seg} {{ record t{i} {{ a: u32, b: string }} g{i}: func(x: t{i}) -> t{i}; }}\n}}\n", sources[*i].0));
            }
            let (resolve, world) = match backends::resolve_input(&backends::Input::Text(&wit), None) {
                Ok(x) => x,
                Err(e) => vcommon::harness_error(format!("constructed world rejected: {e:#}\n{wit}")),
            };
            let vars = backends::variants("moonbit");
            let (variant, args) = vars[*asyncv as usize % vars.len()].clone();
            let files = match backends::generate("moonbit", &args, &resolve, world, None) {
                GenOutcome::Files(f) => f,
                _ => return Ok(()),
            };
            let r = check_files(&files, &resolve, world, &format!("variant {variant}\nWIT:\n{wit}"), obs);
            if picked.len() >= 3 {
                obs.nontrivial_by(&(&wit, variant));
                obs.sample = Some(serde_json::json!({"wit": wit, "variant": variant}));
            }
            r
        },
    );
    let n = check.tier.pick(6_000, 150_000);
    check.prop("worlds", || (tape_strategy(900), Just(0u8), any::<u8>()).prop_map(|(tape, backend, variant)| WorldCase { tape, backend, variant }), n, prop);
}
