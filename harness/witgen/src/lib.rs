//! WitGen — constructive random WIT generator.
//!
//! A world is decoded from a "tape" of u16 choices (generated and shrunk by
//! proptest): every decision is `tape.pick(n)` with the monotone mapping
//! `x*n >> 16`, so shrinking the tape towards zeros/shorter shrinks the world.
//! Generation is constructive: only text wit-parser accepts is produced (a
//! parse failure is a generator bug and reported as a harness error by users).
//!
//! A `Profile` switches WIT features on and off, which is how per-backend
//! declared exclusions are respected *by construction*.

use std::collections::BTreeSet;
use std::fmt::Write;

pub mod names;

#[derive(Clone, Debug)]
pub struct Profile {
    pub async_: bool,          // async funcs, futures, streams
    pub error_context: bool,
    pub fixed_list: bool,
    pub map: bool,
    pub resources: bool,
    pub fallible_ctor: bool,
    pub async_resource_func: bool,
    /// `async func` in the WIT (futures/streams are governed by `async_`)
    pub async_funcs: bool,
    pub named_iface_import: bool, // `import foo: iface;` (same interface under several names)
    pub case_named_like_variant: bool,
    pub stream_of_used_type_in_world: bool,
    pub adversarial_names: bool,
    pub docs: bool,
    pub multi_package: bool,
    pub versions: bool,
    /// flags with more than 32 members, empty records etc. (parser-valid only)
    pub component_invalid: bool,
    pub max_ifaces: usize,
    pub max_types: usize,
    pub max_funcs: usize,
    pub max_depth: usize,
    /// allow imports and exports of the same interface in one world
    pub import_and_export_same: bool,
    pub world_level_items: bool,
    pub borrows: bool,
    /// borrow handles (directly or through named types) inside fixed-length lists
    pub borrow_in_fixed_list: bool,
    /// `borrow<r>` may occur (at any depth) under `list`, `map` or a fixed-length list
    pub borrow_in_list: bool,
    /// a parameter may be named `<record field name><digits>` or `<temporary stem><digits>` (`ptr0`)
    pub param_like_tmp: bool,
    /// type names / case names (variant, enum, flags) to stay clear of
    pub avoid_type_names: Vec<&'static str>,
    pub avoid_case_names: Vec<&'static str>,
    /// future/stream payloads may mention named types
    pub payload_named_types: bool,
    /// further adversarial names for one backend
    pub extra_names: Vec<&'static str>,
    /// resource function names to stay clear of
    pub avoid_resource_func_names: Vec<&'static str>,
    /// `type x = borrow<r>;`
    pub named_handle_alias: bool,
    /// async functions get at most 4 scalar parameters (no indirect async params)
    pub async_funcs_small_params: bool,
    /// parameter names that must not be generated
    pub avoid_param_names: Vec<&'static str>,
    /// a world item (inline interface, named import, function, type) may be named like the world
    pub item_named_like_world: bool,
    /// a named (inline) world item may be named like a package namespace
    pub item_named_like_namespace: bool,
    /// follow type definitions by structurally equal / near-equal clones
    pub near_equal_types: bool,
}

impl Profile {
    pub fn full() -> Profile {
        Profile {
            async_: true,
            error_context: true,
            fixed_list: true,
            map: true,
            resources: true,
            fallible_ctor: true,
            async_resource_func: true,
            async_funcs: true,
            named_iface_import: true,
            case_named_like_variant: true,
            stream_of_used_type_in_world: true,
            adversarial_names: true,
            docs: true,
            multi_package: true,
            versions: true,
            component_invalid: false,
            max_ifaces: 4,
            max_types: 6,
            max_funcs: 5,
            max_depth: 3,
            import_and_export_same: true,
            world_level_items: true,
            borrows: true,
            borrow_in_fixed_list: true,
            borrow_in_list: true,
            param_like_tmp: true,
            avoid_resource_func_names: vec![],
            extra_names: vec![],
            payload_named_types: true,
            avoid_type_names: vec![],
            avoid_case_names: vec![],
            named_handle_alias: true,
            async_funcs_small_params: false,
            avoid_param_names: vec![],
            item_named_like_world: true,
            item_named_like_namespace: true,
            near_equal_types: false,
        }
    }
    pub fn sync_only(mut self) -> Profile {
        self.async_ = false;
        // error-context belongs to the async proposal (the only corpus file that
        // uses it is marked `async = true`)
        self.error_context = false;
        self.async_resource_func = false;
        self.stream_of_used_type_in_world = false;
        self
    }
}

pub struct Tape<'a> {
    data: &'a [u16],
    pos: usize,
}

impl<'a> Tape<'a> {
    pub fn new(data: &'a [u16]) -> Tape<'a> {
        Tape { data, pos: 0 }
    }
    pub fn raw(&mut self) -> u16 {
        let v = self.data.get(self.pos).copied().unwrap_or(0);
        self.pos += 1;
        v
    }
    /// uniform-ish choice in 0..n, monotone in the tape value
    pub fn pick(&mut self, n: usize) -> usize {
        if n <= 1 {
            // still consume, keeps positions stable under shrinking of alternatives
            self.raw();
            return 0;
        }
        ((self.raw() as usize) * n) >> 16
    }
    pub fn chance(&mut self, num: usize, den: usize) -> bool {
        // true for HIGH tape values so that zeros shrink towards `false`
        self.pick(den) >= den - num
    }
    pub fn exhausted(&self) -> bool {
        self.pos >= self.data.len()
    }
}

#[derive(Clone, Debug, PartialEq, Eq)]
pub enum Prim {
    Bool, U8, S8, U16, S16, U32, S32, U64, S64, F32, F64, Char, String,
}

impl Prim {
    pub fn wit(&self) -> &'static str {
        match self {
            Prim::Bool => "bool", Prim::U8 => "u8", Prim::S8 => "s8", Prim::U16 => "u16", Prim::S16 => "s16",
            Prim::U32 => "u32", Prim::S32 => "s32", Prim::U64 => "u64", Prim::S64 => "s64",
            Prim::F32 => "f32", Prim::F64 => "f64", Prim::Char => "char", Prim::String => "string",
        }
    }
    const ALL: [Prim; 13] = [
        Prim::Bool, Prim::U8, Prim::S8, Prim::U16, Prim::S16, Prim::U32, Prim::S32, Prim::U64, Prim::S64,
        Prim::F32, Prim::F64, Prim::Char, Prim::String,
    ];
}

#[derive(Clone, Debug, PartialEq, Eq)]
pub enum Ty {
    Prim(Prim),
    ErrorContext,
    Named(String),
    Borrow(String),
    List(Box<Ty>),
    FixedList(Box<Ty>, u32),
    Map(Box<Ty>, Box<Ty>),
    Option(Box<Ty>),
    Result(Option<Box<Ty>>, Option<Box<Ty>>),
    Tuple(Vec<Ty>),
    Future(Option<Box<Ty>>),
    Stream(Option<Box<Ty>>),
}

#[derive(Clone, Debug)]
pub enum DefKind {
    Record(Vec<(String, Ty, Option<String>)>),
    Variant(Vec<(String, Option<Ty>, Option<String>)>),
    Enum(Vec<String>),
    Flags(Vec<String>),
    Alias(Ty),
    Resource(Vec<Func>),
}

#[derive(Clone, Debug)]
pub struct TypeDef {
    pub name: String,
    pub docs: Option<String>,
    pub kind: DefKind,
}

#[derive(Clone, Debug, PartialEq, Eq)]
pub enum FuncKind {
    Free,
    Method,
    Static,
    Constructor,
}

#[derive(Clone, Debug)]
pub struct Func {
    pub name: String,
    pub docs: Option<String>,
    pub kind: FuncKind,
    pub is_async: bool,
    pub params: Vec<(String, Ty)>,
    pub result: Option<Ty>,
}

#[derive(Clone, Debug)]
pub enum Item {
    /// use <path>.{a, b as c}
    Use(String, Vec<(String, Option<String>)>),
    Type(TypeDef),
    Func(Func),
}

#[derive(Clone, Debug)]
pub struct Iface {
    pub name: String,
    pub docs: Option<String>,
    pub items: Vec<Item>,
}

#[derive(Clone, Debug)]
pub enum WorldItem {
    Import(String),            // import <iface path>;
    Export(String),            // export <iface path>;
    ImportAs(String, String),  // import name: <iface path>;
    ExportAs(String, String),
    ImportInline(Iface),       // import name: interface { ... }
    ExportInline(Iface),
    ImportFunc(Func),
    ExportFunc(Func),
    Use(String, Vec<(String, Option<String>)>),
    Type(TypeDef),
}

#[derive(Clone, Debug)]
pub struct World {
    pub name: String,
    pub docs: Option<String>,
    pub items: Vec<WorldItem>,
}

#[derive(Clone, Debug)]
pub struct Package {
    pub ns: String,
    pub name: String,
    pub version: Option<String>,
    pub ifaces: Vec<Iface>,
    pub worlds: Vec<World>,
}

#[derive(Clone, Debug)]
pub struct Wit {
    /// packages[0] is the main package (holds the world), others are dependencies
    pub packages: Vec<Package>,
    pub features: BTreeSet<&'static str>,
    pub world: String,
}

// ---------------------------------------------------------------- scope facts

#[derive(Clone, Debug)]
struct Known {
    name: String,
    /// how the name is spelled when referenced from this scope
    has_borrow: bool,
    has_handle: bool,
    is_resource: bool,
    /// a future/stream occurs inside (cannot be nested in some positions)
    has_stream: bool,
    is_heapy: bool,
    /// usable as map key
    key_ok: bool,
}

#[derive(Clone, Copy, PartialEq, Eq, Debug)]
enum Pos {
    Param,
    Result,
    TypeDef,
    /// payload of a future/stream
    StreamPayload,
}

struct Gen<'a, 'b> {
    t: &'b mut Tape<'a>,
    p: &'b Profile,
    names: names::NamePool,
    features: BTreeSet<&'static str>,
    doc_counter: u32,
    /// nesting depth inside fixed-length list elements
    in_fixed: u32,
    /// nesting depth inside list / map / fixed-length list elements
    in_loop: u32,
    /// self-contained type definitions seen so far (near-equal mode)
    pool: Vec<(TypeDef, Known)>,
}

fn ty_is_self_contained(t: &Ty) -> bool {
    match t {
        Ty::Named(_) | Ty::Borrow(_) => false,
        Ty::Prim(_) | Ty::ErrorContext => true,
        Ty::List(t) | Ty::FixedList(t, _) | Ty::Option(t) => ty_is_self_contained(t),
        Ty::Map(k, v) => ty_is_self_contained(k) && ty_is_self_contained(v),
        Ty::Result(a, b) => a.as_deref().map_or(true, ty_is_self_contained) && b.as_deref().map_or(true, ty_is_self_contained),
        Ty::Tuple(ts) => ts.iter().all(ty_is_self_contained),
        Ty::Future(t) | Ty::Stream(t) => t.as_deref().map_or(true, ty_is_self_contained),
    }
}

fn def_is_self_contained(k: &DefKind) -> bool {
    match k {
        DefKind::Record(fs) => fs.iter().all(|f| ty_is_self_contained(&f.1)),
        DefKind::Variant(cs) => cs.iter().all(|c| c.1.as_ref().map_or(true, ty_is_self_contained)),
        DefKind::Enum(_) | DefKind::Flags(_) => true,
        DefKind::Alias(t) => ty_is_self_contained(t),
        DefKind::Resource(_) => false,
    }
}

#[derive(Default, Clone)]
struct TyFacts {
    has_borrow: bool,
    has_handle: bool,
    has_stream: bool,
    heapy: bool,
}

impl<'a, 'b> Gen<'a, 'b> {
    fn docs(&mut self) -> Option<String> {
        if !self.p.docs || !self.t.chance(1, 3) {
            return None;
        }
        self.doc_counter += 1;
        let n = self.doc_counter;
        const FRAGS: &[&str] = &[
            "plain words", "has {{ braces }}", "a // slash pair", "/* block */", "<b>html</b> & stuff", "`code` and [brackets]",
            "ends with {", "} starts with", "# heading", "* star _under_", "tabs\tinside", "trailing space ", "quote \" and '",
            "// whole line comment", "<i>it</i> < > &amp;", "[`r#type`]", "%percent",
        ];
        let lines = 1 + self.t.pick(3);
        let mut s = String::new();
        for l in 0..lines {
            if l > 0 {
                s.push('\n');
                if self.t.chance(1, 6) {
                    s.push('\n'); // blank line inside the doc comment
                }
            }
            let f = FRAGS[self.t.pick(FRAGS.len())];
            // unique token so that occurrences can be located in generated docs
            write!(s, "doc{n}x{l} {f}").unwrap();
        }
        Some(s)
    }

    fn prim(&mut self) -> Prim {
        Prim::ALL[self.t.pick(Prim::ALL.len())].clone()
    }

    fn key_ty(&mut self) -> Ty {
        const KEYS: [Prim; 11] = [Prim::Bool, Prim::U8, Prim::S8, Prim::U16, Prim::S16, Prim::U32, Prim::S32, Prim::U64, Prim::S64, Prim::Char, Prim::String];
        Ty::Prim(KEYS[self.t.pick(KEYS.len())].clone())
    }

    fn ty(&mut self, scope: &[Known], pos: Pos, depth: usize, facts: &mut TyFacts) -> Ty {
        let p = self.p;
        // weights: prim 6, named 4, list 2, option 2, result 2, tuple 2, map 1, fixed 1, future 1, stream 1, ec 1, borrow 1
        let mut choices: Vec<u8> = vec![0, 0, 0, 0, 0, 0];
        let usable: Vec<&Known> = scope
            .iter()
            .filter(|k| match pos {
                Pos::Param | Pos::TypeDef => true,
                Pos::Result | Pos::StreamPayload => !k.has_borrow,
            })
            .filter(|k| !(k.has_borrow && self.in_fixed > 0 && !p.borrow_in_fixed_list))
            .filter(|k| !(k.has_borrow && self.in_loop > 0 && !p.borrow_in_list))
            .filter(|_| p.payload_named_types || !matches!(pos, Pos::StreamPayload))
            .collect();
        if !usable.is_empty() {
            choices.extend([1, 1, 1, 1]);
        }
        if depth < p.max_depth {
            choices.extend([2, 2, 3, 3, 4, 4, 5, 5]);
            if p.map {
                choices.push(6);
            }
            if p.fixed_list {
                choices.push(7);
            }
            if p.async_ {
                choices.extend([8, 9]);
            }
        }
        if p.error_context {
            choices.push(10);
        }
        let resources: Vec<&Known> = scope.iter().filter(|k| k.is_resource).collect();
        if p.borrows && !resources.is_empty() && matches!(pos, Pos::Param | Pos::TypeDef) && (self.in_fixed == 0 || p.borrow_in_fixed_list) && (self.in_loop == 0 || p.borrow_in_list) {
            choices.push(11);
        }
        let c = choices[self.t.pick(choices.len())];
        match c {
            0 => {
                let pr = self.prim();
                if pr == Prim::String {
                    facts.heapy = true;
                }
                Ty::Prim(pr)
            }
            1 => {
                let k = usable[self.t.pick(usable.len())];
                facts.has_borrow |= k.has_borrow;
                facts.has_handle |= k.has_handle;
                facts.has_stream |= k.has_stream;
                facts.heapy |= k.is_heapy;
                Ty::Named(k.name.clone())
            }
            2 => {
                facts.heapy = true;
                self.in_loop += 1;
                let e = self.ty(scope, pos, depth + 1, facts);
                self.in_loop -= 1;
                Ty::List(Box::new(e))
            }
            3 => Ty::Option(Box::new(self.ty(scope, pos, depth + 1, facts))),
            4 => {
                let ok = if self.t.chance(3, 4) { Some(Box::new(self.ty(scope, pos, depth + 1, facts))) } else { None };
                let err = if self.t.chance(3, 4) { Some(Box::new(self.ty(scope, pos, depth + 1, facts))) } else { None };
                Ty::Result(ok, err)
            }
            5 => {
                let n = 1 + self.t.pick(4);
                Ty::Tuple((0..n).map(|_| self.ty(scope, pos, depth + 1, facts)).collect())
            }
            6 => {
                self.features.insert("map");
                facts.heapy = true;
                let k = self.key_ty();
                self.in_loop += 1;
                let v = self.ty(scope, pos, depth + 1, facts);
                self.in_loop -= 1;
                Ty::Map(Box::new(k), Box::new(v))
            }
            7 => {
                self.features.insert("fixed-length-list");
                let n = 1 + self.t.pick(4) as u32;
                self.in_fixed += 1;
                self.in_loop += 1;
                let e = self.ty(scope, pos, depth + 1, facts);
                self.in_loop -= 1;
                self.in_fixed -= 1;
                if facts.has_borrow {
                    self.features.insert("borrow-in-fixed-length-list");
                }
                Ty::FixedList(Box::new(e), n)
            }
            8 | 9 => {
                self.features.insert("async");
                self.features.insert(if c == 8 { "future" } else { "stream" });
                facts.has_handle = true;
                facts.has_stream = true;
                let payload = if self.t.chance(4, 5) {
                    let mut inner = TyFacts::default();
                    let mut t = self.ty(scope, Pos::StreamPayload, depth + 1, &mut inner);
                    let char_alias = matches!(&t, Ty::Named(n) if scope.iter().any(|k| k.name == *n && k.key_ok));
                    if c == 9 && (t == Ty::Prim(Prim::Char) || char_alias) {
                        // `stream<char>` is rejected by the component validator
                        t = Ty::Prim(Prim::U32);
                    }
                    if inner.has_stream {
                        self.features.insert("nested-future-stream");
                    }
                    Some(Box::new(t))
                } else {
                    None
                };
                if c == 8 { Ty::Future(payload) } else { Ty::Stream(payload) }
            }
            10 => {
                self.features.insert("error-context");
                facts.has_handle = true;
                Ty::ErrorContext
            }
            _ => {
                let k = resources[self.t.pick(resources.len())];
                facts.has_borrow = true;
                facts.has_handle = true;
                Ty::Borrow(k.name.clone())
            }
        }
    }

    fn func(&mut self, scope: &[Known], kind: FuncKind, used: &mut BTreeSet<String>, self_res: Option<&str>) -> Func {
        let mut name = if kind == FuncKind::Constructor { String::new() } else { self.names.fresh(self.t, used, self.p.adversarial_names) };
        if self_res.is_some() && self.p.avoid_resource_func_names.iter().any(|a| *a == name) {
            name = format!("{name}-f");
            used.insert(name.clone());
        }
        let docs = self.docs();
        let is_async = self.p.async_
            && self.p.async_funcs
            && kind != FuncKind::Constructor
            && (self_res.is_none() || self.p.async_resource_func)
            && self.t.chance(1, 4);
        if is_async {
            self.features.insert("async");
            self.features.insert("async-func");
            if self_res.is_some() {
                self.features.insert("async-resource-func");
            }
        }
        let nparams = match self.t.pick(10) {
            0..=1 => 0,
            2..=4 => 1,
            5..=6 => 2,
            7 => 3,
            8 => 5,
            _ => 17, // past the 16-flat limit
        };
        let mut pnames = BTreeSet::new();
        if kind == FuncKind::Method {
            pnames.insert("self".to_string());
        }
        let mut params = vec![];
        let small = is_async && self.p.async_funcs_small_params;
        let nparams = if small { nparams.min(4) } else { nparams };
        for _ in 0..nparams {
            let mut n = self.names.fresh(self.t, &mut pnames, self.p.adversarial_names);
            if !self.p.param_like_tmp && n.ends_with(|c: char| c.is_ascii_digit()) {
                const STEMS: &[&str] = &["l", "len", "result", "base", "vec", "ptr", "layout", "v", "t", "map", "idx", "handle", "elem", "bytes", "array", "witimport"];
                let norm = |s: &str| s.replace('-', "").to_ascii_lowercase();
                let stem = norm(n.trim_end_matches(|c: char| c.is_ascii_digit()));
                if self.names.all.contains(&stem) || STEMS.contains(&stem.as_str()) {
                    n = format!("{n}-p");
                    pnames.insert(n.clone());
                }
            }
            if self.p.avoid_param_names.iter().any(|a| *a == n) {
                n = format!("{n}-p");
                pnames.insert(n.clone());
            }
            let mut f = TyFacts::default();
            let t = if small {
                // at most 4 flat core values in total
                let _ = self.t.raw();
                Ty::Prim(Prim::U32)
            } else {
                self.ty(scope, Pos::Param, 0, &mut f)
            };
            params.push((n, t));
        }
        let result = if kind == FuncKind::Constructor {
            let r = self_res.unwrap().to_string();
            if self.p.fallible_ctor && self.t.chance(1, 4) {
                self.features.insert("fallible-constructor");
                let mut f = TyFacts::default();
                let e = self.ty(scope, Pos::Result, 1, &mut f);
                Some(Ty::Result(Some(Box::new(Ty::Named(r))), Some(Box::new(e))))
            } else {
                None
            }
        } else if self.t.chance(2, 3) {
            let mut f = TyFacts::default();
            Some(self.ty(scope, Pos::Result, 0, &mut f))
        } else {
            None
        };
        Func { name, docs, kind, is_async, params, result }
    }

    /// a fresh name that is not in `avoid` (renamed by suffix, so the tape stays aligned)
    fn fresh_avoiding(&mut self, used: &mut BTreeSet<String>, avoid: &[&'static str]) -> String {
        let mut n = self.names.fresh(self.t, used, self.p.adversarial_names);
        if avoid.iter().any(|a| *a == n) {
            n = format!("{n}-n");
            while used.contains(&n) {
                n.push('n');
            }
            used.insert(n.clone());
        }
        n
    }

    fn typedef(&mut self, scope: &mut Vec<Known>, used: &mut BTreeSet<String>) -> TypeDef {
        let avoid_t = self.p.avoid_type_names.clone();
        let avoid_c = self.p.avoid_case_names.clone();
        let name = self.fresh_avoiding(used, &avoid_t);
        let docs = self.docs();
        let mut facts = TyFacts::default();
        let mut is_resource = false;
        let mut key_ok = false;
        let nkinds = if self.p.resources { 6 } else { 5 };
        let kind = match self.t.pick(nkinds) {
            0 => {
                let n = 1 + self.t.pick(5);
                let mut fnames = BTreeSet::new();
                let mut fields = vec![];
                for _ in 0..n {
                    let fname = self.names.fresh(self.t, &mut fnames, self.p.adversarial_names);
                    let t = self.ty(scope, Pos::TypeDef, 0, &mut facts);
                    let d = self.docs();
                    fields.push((fname, t, d));
                }
                DefKind::Record(fields)
            }
            1 => {
                let n = 1 + self.t.pick(5);
                let mut cnames = BTreeSet::new();
                if !self.p.case_named_like_variant {
                    cnames.insert(name.clone());
                }
                let mut cases = vec![];
                for i in 0..n {
                    let cname = if self.p.case_named_like_variant && i == 0 && self.t.chance(1, 8) && !cnames.contains(&name) {
                        self.features.insert("case-named-like-variant");
                        cnames.insert(name.clone());
                        name.clone()
                    } else {
                        self.fresh_avoiding(&mut cnames, &avoid_c)
                    };
                    let t = if self.t.chance(2, 3) { Some(self.ty(scope, Pos::TypeDef, 0, &mut facts)) } else { None };
                    let d = self.docs();
                    cases.push((cname, t, d));
                }
                DefKind::Variant(cases)
            }
            2 => {
                let n = 1 + self.t.pick(6);
                let mut cnames = BTreeSet::new();
                DefKind::Enum((0..n).map(|_| self.fresh_avoiding(&mut cnames, &avoid_c)).collect())
            }
            3 => {
                const SIZES: [usize; 8] = [1, 2, 7, 8, 9, 16, 17, 32];
                let mut n = SIZES[self.t.pick(SIZES.len())];
                if self.p.component_invalid && self.t.chance(1, 4) {
                    n = [33, 40, 64, 65][self.t.pick(4)];
                    self.features.insert("flags-over-32");
                }
                let mut cnames = BTreeSet::new();
                DefKind::Flags((0..n).map(|_| self.fresh_avoiding(&mut cnames, &avoid_c)).collect())
            }
            4 => {
                let mut t = self.ty(scope, Pos::TypeDef, 0, &mut facts);
                if matches!(t, Ty::Borrow(_)) {
                    if self.p.named_handle_alias {
                        self.features.insert("named-handle-alias");
                    } else {
                        // `type x = borrow<r>` excluded: fall back to a list of it
                        t = Ty::List(Box::new(t));
                    }
                }
                // `key_ok` records "is (an alias of) char": stream<char> is not a valid type
                key_ok = matches!(&t, Ty::Prim(Prim::Char)) || matches!(&t, Ty::Named(n) if scope.iter().any(|k| k.name == *n && k.key_ok));
                DefKind::Alias(t)
            }
            _ => {
                self.features.insert("resource");
                is_resource = true;
                facts.has_handle = true;
                // the resource may be referenced by its own functions
                scope.push(Known { name: name.clone(), has_borrow: false, has_handle: true, is_resource: true, has_stream: false, is_heapy: false, key_ok: false });
                let mut fnames = BTreeSet::new();
                // `[method]r.r` clashes with `r` itself in the component encoding
                fnames.insert(name.clone());
                let mut funcs = vec![];
                if self.t.chance(2, 3) {
                    funcs.push(self.func(scope, FuncKind::Constructor, &mut fnames, Some(&name)));
                }
                let n = self.t.pick(4);
                for _ in 0..n {
                    let k = if self.t.chance(1, 3) { FuncKind::Static } else { FuncKind::Method };
                    funcs.push(self.func(scope, k, &mut fnames, Some(&name)));
                }
                scope.pop();
                DefKind::Resource(funcs)
            }
        };
        scope.push(Known {
            name: name.clone(),
            has_borrow: facts.has_borrow,
            has_handle: facts.has_handle,
            is_resource,
            has_stream: facts.has_stream,
            is_heapy: facts.heapy,
            key_ok,
        });
        TypeDef { name, docs, kind }
    }

    fn iface_body(&mut self, iface_scope_prefill: Vec<Known>, uses: Vec<Item>, min_funcs: usize) -> (Vec<Item>, Vec<Known>) {
        let mut scope = iface_scope_prefill;
        let mut used: BTreeSet<String> = scope.iter().map(|k| k.name.clone()).collect();
        let mut items = uses;
        // copies of self-contained types defined in earlier interfaces: structurally equal
        // types whose ids are far apart and whose visiting order depends on the world
        if self.p.near_equal_types && !self.pool.is_empty() {
            let n = self.t.pick(3);
            for _ in 0..n {
                let (td, k) = self.pool[self.t.pick(self.pool.len())].clone();
                if used.iter().any(|u| u.eq_ignore_ascii_case(&td.name)) {
                    continue;
                }
                used.insert(td.name.clone());
                scope.push(k);
                self.features.insert("equal-types-across-interfaces");
                items.push(Item::Type(td));
            }
        }
        let ntypes = self.t.pick(self.p.max_types + 1);
        for _ in 0..ntypes {
            let td = self.typedef(&mut scope, &mut used);
            let orig = td.clone();
            if self.p.near_equal_types && self.pool.len() < 12 && def_is_self_contained(&td.kind) {
                let k = scope.iter().find(|k| k.name == td.name).cloned().unwrap();
                let mut plain = td.clone();
                plain.docs = None;
                self.pool.push((plain, k));
            }
            items.push(Item::Type(td));
            // structurally equal and near-equal clones (for the type-analysis checks)
            if self.p.near_equal_types && !matches!(orig.kind, DefKind::Resource(_)) {
                let n = self.t.pick(3);
                for _ in 0..n {
                    let mut c = orig.clone();
                    c.name = self.names.fresh(self.t, &mut used, false);
                    c.docs = None;
                    let how = self.t.pick(6);
                    let mut renamed = |names: Vec<String>| -> String {
                        let mut s: BTreeSet<String> = names.into_iter().collect();
                        self.names.fresh(self.t, &mut s, false)
                    };
                    match (&mut c.kind, how) {
                        // 0,1: exact structural copy
                        (_, 0 | 1) => {}
                        (DefKind::Record(fs), 2) if !fs.is_empty() => {
                            let nn = renamed(fs.iter().map(|f| f.0.clone()).collect());
                            fs[0].0 = nn;
                        }
                        (DefKind::Record(fs), 3) if fs.len() >= 2 => fs.swap(0, 1),
                        (DefKind::Record(fs), 4) if !fs.is_empty() => {
                            fs[0].1 = if fs[0].1 == Ty::Prim(Prim::U8) { Ty::Prim(Prim::S8) } else { Ty::Prim(Prim::U8) };
                        }
                        (DefKind::Variant(cs), 2) if !cs.is_empty() => {
                            let nn = renamed(cs.iter().map(|f| f.0.clone()).chain([orig.name.clone(), c.name.clone()]).collect());
                            cs[0].0 = nn;
                        }
                        (DefKind::Variant(cs), 3) if cs.len() >= 2 => cs.swap(0, 1),
                        (DefKind::Variant(cs), 4) if !cs.is_empty() => {
                            cs[0].1 = match cs[0].1 {
                                None => Some(Ty::Prim(Prim::U8)),
                                Some(_) => None,
                            };
                        }
                        (DefKind::Enum(cs) | DefKind::Flags(cs), 2 | 4) if !cs.is_empty() => {
                            let nn = renamed(cs.clone());
                            cs[0] = nn;
                        }
                        (DefKind::Enum(cs) | DefKind::Flags(cs), 3) if cs.len() >= 2 => cs.swap(0, 1),
                        (DefKind::Alias(_), 5) => c.kind = DefKind::Alias(Ty::Named(orig.name.clone())),
                        // an alias *of* the original is equal to it as well
                        (_, 5) => c.kind = DefKind::Alias(Ty::Named(orig.name.clone())),
                        _ => {}
                    }
                    self.features.insert("near-equal-types");
                    let mut k = scope.iter().find(|k| k.name == orig.name).cloned().unwrap();
                    k.name = c.name.clone();
                    scope.push(k);
                    items.push(Item::Type(c));
                }
            }
        }
        let nfuncs = min_funcs.max(self.t.pick(self.p.max_funcs + 1));
        for _ in 0..nfuncs {
            let f = self.func(&scope, FuncKind::Free, &mut used, None);
            items.push(Item::Func(f));
        }
        (items, scope)
    }
}

// ---------------------------------------------------------------- top level

pub fn generate(tape: &[u16], profile: &Profile) -> Wit {
    // the world section draws from its own region of the tape so that it does not
    // depend on how much the packages consumed
    let k = (tape.len() / 3).min(120);
    let (world_tape, tape) = tape.split_at(k);
    let mut t_world = Tape::new(world_tape);
    let mut t = Tape::new(tape);
    let mut g = Gen { t: &mut t, p: profile, names: names::NamePool { extra: profile.extra_names.clone(), ..Default::default() }, features: BTreeSet::new(), doc_counter: 0, in_fixed: 0, in_loop: 0, pool: vec![] };
    let npkgs = if profile.multi_package { 1 + g.t.pick(3) } else { 1 };
    let mut packages: Vec<Package> = vec![];
    // exported facts per (pkg index, iface name)
    let mut exported: Vec<(usize, String, Vec<Known>)> = vec![];
    let mut pkg_names = BTreeSet::new();
    let mut use_sources: BTreeSet<(usize, String)> = BTreeSet::new();
    // direct `use` sources of every interface
    let mut deps: std::collections::BTreeMap<(usize, String), Vec<(usize, String)>> = Default::default();
    // dependencies first (indices npkgs-1 .. 1), main package last generated but stored at [0]
    let mut order: Vec<usize> = (1..npkgs).collect();
    order.push(0);
    let mut built: Vec<(usize, Package)> = vec![];
    for &pi in &order {
        let mut ns = ["a", "my", "wasi", "foo-ns"][g.t.pick(if profile.adversarial_names { 4 } else { 1 })].to_string();
        // same package name with different versions is interesting for module naming
        let mut name = g.names.fresh(g.t, &mut BTreeSet::new(), false);
        let mut version = None;
        if profile.versions && g.t.chance(1, 2) {
            const VERS: &[&str] = &["0.1.0", "0.2.0", "1.0.0", "1.2.3-rc.1", "2.0.0-alpha+build.5", "0.2.0-rc-2023-11-10"];
            version = Some(VERS[g.t.pick(VERS.len())].to_string());
        }
        // interface names to take over from the previous package (another version of it)
        let mut inherit_ifaces: Vec<String> = vec![];
        if profile.versions && !built.is_empty() && g.t.chance(1, 3) {
            // reuse the previous package's namespace and name with another version, and
            // its interface names (the `wasi:io@0.2.0` next to `wasi:io@0.2.1` situation)
            let prev = &built[built.len() - 1].1;
            if prev.version.is_some() {
                ns = prev.ns.clone();
                name = prev.name.clone();
                let v = ["3.0.0", "3.1.0", "0.0.1"][g.t.pick(3)].to_string();
                version = Some(v);
                inherit_ifaces = prev.ifaces.iter().map(|i| i.name.clone()).collect();
                g.features.insert("same-package-two-versions");
            }
        }
        let key = format!("{ns}:{name}@{version:?}");
        let key2 = format!("{ns}:{name}");
        if !pkg_names.insert(key) || (version.is_none() && pkg_names.iter().any(|k: &String| k.starts_with(&format!("{key2}@")) && k != &format!("{key2}@None"))) {
            name = format!("{name}-p{pi}");
        }
        pkg_names.insert(format!("{ns}:{name}@{version:?}"));
        let mut pkg = Package { ns, name, version, ifaces: vec![], worlds: vec![] };
        let nif = 1 + g.t.pick(profile.max_ifaces);
        let mut iface_names = BTreeSet::new();
        for k in 0..nif {
            // interface names: inherited from the other version of this package, or one of
            // a few common last segments shared across packages, or a fresh name
            const COMMON: &[&str] = &["types", "api", "handler"];
            let common = COMMON[g.t.pick(COMMON.len())];
            let iname = if k < inherit_ifaces.len() && !iface_names.contains(&inherit_ifaces[k]) {
                iface_names.insert(inherit_ifaces[k].clone());
                inherit_ifaces[k].clone()
            } else if g.t.chance(1, 4) && !iface_names.iter().any(|n| n.eq_ignore_ascii_case(common)) {
                iface_names.insert(common.to_string());
                common.to_string()
            } else {
                g.names.fresh(g.t, &mut iface_names, profile.adversarial_names)
            };
            let docs = g.docs();
            // uses from earlier interfaces (same or other packages)
            let mut prefill = vec![];
            let mut uses = vec![];
            if !exported.is_empty() && g.t.chance(1, 2) {
                let (epi, ename, facts) = exported[g.t.pick(exported.len())].clone();
                if !facts.is_empty() {
                    let path = if epi == pi {
                        wit_name(&ename)
                    } else {
                        let ep = built.iter().find(|(i, _)| *i == epi).map(|(_, p)| p).unwrap();
                        format!("{}:{}/{}{}", ep.ns, ep.name, wit_name(&ename), ep.version.as_ref().map(|v| format!("@{v}")).unwrap_or_default())
                    };
                    let n = 1 + g.t.pick(facts.len().min(3));
                    let mut names = vec![];
                    let mut taken = BTreeSet::new();
                    for _ in 0..n {
                        let k = &facts[g.t.pick(facts.len())];
                        if !taken.insert(k.name.clone()) {
                            continue;
                        }
                        let rename = if g.t.chance(1, 4) { Some(format!("{}-renamed", k.name)) } else { None };
                        let mut k2 = k.clone();
                        k2.name = rename.clone().unwrap_or(k.name.clone());
                        if prefill.iter().any(|p: &Known| p.name.eq_ignore_ascii_case(&k2.name)) {
                            continue;
                        }
                        prefill.push(k2);
                        names.push((k.name.clone(), rename));
                    }
                    if !names.is_empty() {
                        g.features.insert("use");
                        use_sources.insert((epi, ename.clone()));
                        deps.entry((pi, iname.clone())).or_default().push((epi, ename.clone()));
                        uses.push(Item::Use(path, names));
                    }
                }
            }
            let (items, scope) = g.iface_body(prefill, uses, 0);
            // only types *defined* here (not used ones) are re-exported for use by later interfaces
            let defined: Vec<Known> = scope
                .into_iter()
                .filter(|k| items.iter().any(|i| matches!(i, Item::Type(td) if td.name == k.name)))
                .collect();
            exported.push((pi, iname.clone(), defined));
            pkg.ifaces.push(Iface { name: iname, docs, items });
        }
        built.push((pi, pkg));
    }
    // the world lives in the main package
    let mut g = Gen { t: &mut t_world, p: profile, names: g.names, features: g.features, doc_counter: g.doc_counter, in_fixed: 0, in_loop: 0, pool: g.pool };
    let main_idx = built.iter().position(|(i, _)| *i == 0).unwrap();
    // worlds and interfaces of a package share one namespace
    let mut main_names: BTreeSet<String> = built[main_idx].1.ifaces.iter().map(|i| i.name.clone()).collect();
    let wname = g.names.fresh(g.t, &mut main_names, profile.adversarial_names);
    let docs = g.docs();
    let mut items = vec![];
    let mut world_names: BTreeSet<String> = BTreeSet::new();
    if !profile.item_named_like_world {
        world_names.insert(wname.clone());
    }
    if !profile.item_named_like_namespace {
        for (_, p) in &built {
            world_names.insert(p.ns.clone());
        }
    }
    let mut imported: BTreeSet<String> = BTreeSet::new();
    let mut exported_if: BTreeSet<String> = BTreeSet::new();
    let all_ifaces: Vec<(usize, String)> = built.iter().flat_map(|(pi, p)| p.ifaces.iter().map(move |i| (*pi, i.name.clone()))).collect();
    let path_of = |built: &Vec<(usize, Package)>, pi: usize, iname: &str| -> String {
        let p = &built.iter().find(|(i, _)| *i == pi).unwrap().1;
        if pi == 0 {
            wit_name(iname)
        } else {
            format!("{}:{}/{}{}", p.ns, p.name, wit_name(iname), p.version.as_ref().map(|v| format!("@{v}")).unwrap_or_default())
        }
    };
    let mut exported_keys: BTreeSet<(usize, String)> = BTreeSet::new();
    let mut needed_keys: BTreeSet<(usize, String)> = BTreeSet::new();
    let nitems = 1 + g.t.pick(6);
    for _ in 0..nitems {
        let (pi, iname) = all_ifaces[g.t.pick(all_ifaces.len())].clone();
        let path = path_of(&built, pi, &iname);
        let key = (pi, iname.clone());
        // transitive `use` sources of this interface
        let mut srcs: BTreeSet<(usize, String)> = BTreeSet::new();
        let mut todo = vec![key.clone()];
        while let Some(k) = todo.pop() {
            for d in deps.get(&k).into_iter().flatten() {
                if srcs.insert(d.clone()) {
                    todo.push(d.clone());
                }
            }
        }
        // wit-parser rejects worlds in which an interface that is (transitively) a
        // `use` source of another world item is exported ("transitively depends on an
        // interface in incompatible ways"); stay clear of the whole situation:
        //  * an item whose sources include an exported interface is not added,
        //  * an interface that an existing item depends on is not exported.
        let depends_on_exported = srcs.iter().any(|s| exported_keys.contains(s));
        let needed_by_world = needed_keys.contains(&key);
        match g.t.pick(8) {
            0..=2 => {
                let both_ok = profile.import_and_export_same && !use_sources.contains(&key);
                if !depends_on_exported && !imported.contains(&path) && (both_ok || !exported_if.contains(&path)) {
                    imported.insert(path.clone());
                    needed_keys.extend(srcs.iter().cloned());
                    items.push(WorldItem::Import(path));
                }
            }
            3..=5 => {
                let both_ok = profile.import_and_export_same && !use_sources.contains(&key);
                if !depends_on_exported && !needed_by_world && !exported_if.contains(&path) && (both_ok || !imported.contains(&path)) {
                    exported_if.insert(path.clone());
                    exported_keys.insert(key.clone());
                    needed_keys.extend(srcs.iter().cloned());
                    if imported.contains(&path) {
                        g.features.insert("import-and-export-same-interface");
                    }
                    items.push(WorldItem::Export(path));
                }
            }
            6 if profile.named_iface_import && !depends_on_exported => {
                needed_keys.extend(srcs.iter().cloned());
                let n = g.names.fresh(g.t, &mut world_names, profile.adversarial_names);
                g.features.insert("named-interface-import");
                // only named *imports*: a named export of an interface that another
                // export depends on is rejected by wit-parser ("transitively depends
                // on an interface in incompatible ways")
                let _ = g.t.chance(1, 2);
                items.push(WorldItem::ImportAs(n, path));
            }
            _ => {
                // inline interface
                let n = g.names.fresh(g.t, &mut world_names, profile.adversarial_names);
                let d = g.docs();
                let (it, _) = g.iface_body(vec![], vec![], 1);
                let iface = Iface { name: n, docs: d, items: it };
                if g.t.chance(1, 2) {
                    items.push(WorldItem::ImportInline(iface));
                } else {
                    items.push(WorldItem::ExportInline(iface));
                }
            }
        }
    }
    if profile.world_level_items {
        // world-level types, uses and functions
        let mut scope: Vec<Known> = vec![];
        // a world-level `use`d type could end up as a stream/future payload of a world
        // function (the shape of tests/codegen/issue-1433.wit): skip the `use` when the
        // backend declares that shape unsupported
        if g.t.chance(1, 2) && (profile.stream_of_used_type_in_world || !profile.async_) {
            let cands: Vec<&(usize, String, Vec<Known>)> = exported.iter().filter(|(_, _, f)| !f.is_empty()).collect();
            if !cands.is_empty() {
                let (epi, ename, facts) = cands[g.t.pick(cands.len())].clone();
                let path = path_of(&built, epi, &ename);
                let k = facts[g.t.pick(facts.len())].clone();
                let mut srcs: BTreeSet<(usize, String)> = BTreeSet::new();
                srcs.insert((epi, ename.clone()));
                let mut todo = vec![(epi, ename.clone())];
                while let Some(k) = todo.pop() {
                    for d in deps.get(&k).into_iter().flatten() {
                        if srcs.insert(d.clone()) {
                            todo.push(d.clone());
                        }
                    }
                }
                if srcs.iter().any(|s| exported_keys.contains(s) && !imported.contains(&path_of(&built, s.0, &s.1))) {
                    // keep clear of `use` from (a dependency of) an interface that is only exported
                } else if world_names.iter().any(|n| n.eq_ignore_ascii_case(&k.name)) {
                    // kebab names are case-insensitive: `ffi-X` clashes with `ffi-x`
                } else if world_names.insert(k.name.clone()) {
                    items.push(WorldItem::Use(path, vec![(k.name.clone(), None)]));
                    g.features.insert("world-level-use");
                    scope.push(k);
                }
            }
        }
        let nt = g.t.pick(3);
        for _ in 0..nt {
            let td = g.typedef(&mut scope, &mut world_names);
            g.features.insert("world-level-type");
            items.push(WorldItem::Type(td));
        }
        let nf = g.t.pick(4);
        for _ in 0..nf {
            let import = g.t.chance(1, 2);
            let mut f = g.func(&scope, FuncKind::Free, &mut world_names, None);
            // an exported function may share its name with an imported one
            if !import && g.t.chance(1, 5) {
                let cands: Vec<String> = items
                    .iter()
                    .filter_map(|i| match i {
                        WorldItem::ImportFunc(f) => Some(f.name.clone()),
                        _ => None,
                    })
                    .filter(|n| !items.iter().any(|i| matches!(i, WorldItem::ExportFunc(f) if &f.name == n)))
                    .collect();
                if !cands.is_empty() {
                    f.name = cands[g.t.pick(cands.len())].clone();
                    g.features.insert("import-export-same-func-name");
                }
            }
            // exported world-level functions cannot use borrows of imported resources in results: handled by Pos
            if import {
                items.push(WorldItem::ImportFunc(f));
            } else {
                items.push(WorldItem::ExportFunc(f));
            }
        }
    }
    if items.is_empty() {
        let (pi, iname) = all_ifaces[0].clone();
        items.push(WorldItem::Import(path_of(&built, pi, &iname)));
    }
    built[main_idx].1.worlds.push(World { name: wname.clone(), docs, items });
    // main package first
    built.sort_by_key(|(i, _)| *i);
    let features = g.features.clone();
    Wit { packages: built.into_iter().map(|(_, p)| p).collect(), features, world: wname }
}

// ---------------------------------------------------------------- printing

pub fn wit_name(n: &str) -> String {
    if names::is_wit_keyword(n) {
        format!("%{n}")
    } else {
        n.to_string()
    }
}

pub fn print_ty(t: &Ty) -> String {
    match t {
        Ty::Prim(p) => p.wit().to_string(),
        Ty::ErrorContext => "error-context".into(),
        Ty::Named(n) => wit_name(n),
        Ty::Borrow(n) => format!("borrow<{}>", wit_name(n)),
        Ty::List(t) => format!("list<{}>", print_ty(t)),
        Ty::FixedList(t, n) => format!("list<{}, {n}>", print_ty(t)),
        Ty::Map(k, v) => format!("map<{}, {}>", print_ty(k), print_ty(v)),
        Ty::Option(t) => format!("option<{}>", print_ty(t)),
        Ty::Result(a, b) => match (a, b) {
            (None, None) => "result".into(),
            (Some(a), None) => format!("result<{}>", print_ty(a)),
            (None, Some(b)) => format!("result<_, {}>", print_ty(b)),
            (Some(a), Some(b)) => format!("result<{}, {}>", print_ty(a), print_ty(b)),
        },
        Ty::Tuple(ts) => format!("tuple<{}>", ts.iter().map(print_ty).collect::<Vec<_>>().join(", ")),
        Ty::Future(None) => "future".into(),
        Ty::Future(Some(t)) => format!("future<{}>", print_ty(t)),
        Ty::Stream(None) => "stream".into(),
        Ty::Stream(Some(t)) => format!("stream<{}>", print_ty(t)),
    }
}

fn print_docs(out: &mut String, ind: &str, docs: &Option<String>) {
    if let Some(d) = docs {
        for l in d.split('\n') {
            if l.is_empty() {
                writeln!(out, "{ind}///").unwrap();
            } else {
                writeln!(out, "{ind}/// {l}").unwrap();
            }
        }
    }
}

fn print_func(out: &mut String, ind: &str, f: &Func) {
    print_docs(out, ind, &f.docs);
    let params = f.params.iter().map(|(n, t)| format!("{}: {}", wit_name(n), print_ty(t))).collect::<Vec<_>>().join(", ");
    let res = f.result.as_ref().map(|t| format!(" -> {}", print_ty(t))).unwrap_or_default();
    let a = if f.is_async { "async " } else { "" };
    match f.kind {
        FuncKind::Constructor => writeln!(out, "{ind}constructor({params}){res};").unwrap(),
        FuncKind::Static => writeln!(out, "{ind}{}: static {a}func({params}){res};", wit_name(&f.name)).unwrap(),
        _ => writeln!(out, "{ind}{}: {a}func({params}){res};", wit_name(&f.name)).unwrap(),
    }
}

fn print_typedef(out: &mut String, ind: &str, td: &TypeDef) {
    print_docs(out, ind, &td.docs);
    let n = wit_name(&td.name);
    let ind2 = format!("{ind}  ");
    match &td.kind {
        DefKind::Record(fs) => {
            writeln!(out, "{ind}record {n} {{").unwrap();
            for (f, t, d) in fs {
                print_docs(out, &ind2, d);
                writeln!(out, "{ind2}{}: {},", wit_name(f), print_ty(t)).unwrap();
            }
            writeln!(out, "{ind}}}").unwrap();
        }
        DefKind::Variant(cs) => {
            writeln!(out, "{ind}variant {n} {{").unwrap();
            for (c, t, d) in cs {
                print_docs(out, &ind2, d);
                match t {
                    Some(t) => writeln!(out, "{ind2}{}({}),", wit_name(c), print_ty(t)).unwrap(),
                    None => writeln!(out, "{ind2}{},", wit_name(c)).unwrap(),
                }
            }
            writeln!(out, "{ind}}}").unwrap();
        }
        DefKind::Enum(cs) => {
            writeln!(out, "{ind}enum {n} {{ {} }}", cs.iter().map(|c| wit_name(c)).collect::<Vec<_>>().join(", ")).unwrap();
        }
        DefKind::Flags(cs) => {
            writeln!(out, "{ind}flags {n} {{ {} }}", cs.iter().map(|c| wit_name(c)).collect::<Vec<_>>().join(", ")).unwrap();
        }
        DefKind::Alias(t) => writeln!(out, "{ind}type {n} = {};", print_ty(t)).unwrap(),
        DefKind::Resource(fs) => {
            if fs.is_empty() {
                writeln!(out, "{ind}resource {n};").unwrap();
            } else {
                writeln!(out, "{ind}resource {n} {{").unwrap();
                for f in fs {
                    print_func(out, &ind2, f);
                }
                writeln!(out, "{ind}}}").unwrap();
            }
        }
    }
}

fn print_use(out: &mut String, ind: &str, path: &str, names: &[(String, Option<String>)]) {
    let ns = names
        .iter()
        .map(|(n, r)| match r {
            Some(r) => format!("{} as {}", wit_name(n), wit_name(r)),
            None => wit_name(n),
        })
        .collect::<Vec<_>>()
        .join(", ");
    writeln!(out, "{ind}use {path}.{{{ns}}};").unwrap();
}

fn print_iface_items(out: &mut String, ind: &str, items: &[Item]) {
    for it in items {
        match it {
            Item::Use(p, n) => print_use(out, ind, p, n),
            Item::Type(td) => print_typedef(out, ind, td),
            Item::Func(f) => print_func(out, ind, f),
        }
    }
}

fn print_pkg_body(out: &mut String, ind: &str, p: &Package) {
    for i in &p.ifaces {
        print_docs(out, ind, &i.docs);
        writeln!(out, "{ind}interface {} {{", wit_name(&i.name)).unwrap();
        print_iface_items(out, &format!("{ind}  "), &i.items);
        writeln!(out, "{ind}}}").unwrap();
    }
    for w in &p.worlds {
        print_docs(out, ind, &w.docs);
        writeln!(out, "{ind}world {} {{", wit_name(&w.name)).unwrap();
        let ind2 = format!("{ind}  ");
        let ind3 = format!("{ind}    ");
        for it in &w.items {
            match it {
                WorldItem::Import(p) => writeln!(out, "{ind2}import {p};").unwrap(),
                WorldItem::Export(p) => writeln!(out, "{ind2}export {p};").unwrap(),
                WorldItem::ImportAs(n, p) => writeln!(out, "{ind2}import {}: {p};", wit_name(n)).unwrap(),
                WorldItem::ExportAs(n, p) => writeln!(out, "{ind2}export {}: {p};", wit_name(n)).unwrap(),
                WorldItem::ImportInline(i) | WorldItem::ExportInline(i) => {
                    print_docs(out, &ind2, &i.docs);
                    let kw = if matches!(it, WorldItem::ImportInline(_)) { "import" } else { "export" };
                    writeln!(out, "{ind2}{kw} {}: interface {{", wit_name(&i.name)).unwrap();
                    print_iface_items(out, &ind3, &i.items);
                    writeln!(out, "{ind2}}}").unwrap();
                }
                WorldItem::ImportFunc(f) | WorldItem::ExportFunc(f) => {
                    print_docs(out, &ind2, &f.docs);
                    let kw = if matches!(it, WorldItem::ImportFunc(_)) { "import" } else { "export" };
                    let params = f.params.iter().map(|(n, t)| format!("{}: {}", wit_name(n), print_ty(t))).collect::<Vec<_>>().join(", ");
                    let res = f.result.as_ref().map(|t| format!(" -> {}", print_ty(t))).unwrap_or_default();
                    let a = if f.is_async { "async " } else { "" };
                    writeln!(out, "{ind2}{kw} {}: {a}func({params}){res};", wit_name(&f.name)).unwrap();
                }
                WorldItem::Use(p, n) => print_use(out, &ind2, p, n),
                WorldItem::Type(td) => print_typedef(out, &ind2, td),
            }
        }
        writeln!(out, "{ind}}}").unwrap();
    }
}

impl Wit {
    /// All packages in one WIT document: the main package as the file's package,
    /// dependencies as nested `package x:y { .. }` blocks.
    pub fn to_text(&self) -> String {
        let mut out = String::new();
        let main = &self.packages[0];
        writeln!(out, "package {}:{}{};", main.ns, main.name, main.version.as_ref().map(|v| format!("@{v}")).unwrap_or_default()).unwrap();
        print_pkg_body(&mut out, "", main);
        for p in &self.packages[1..] {
            writeln!(out, "package {}:{}{} {{", p.ns, p.name, p.version.as_ref().map(|v| format!("@{v}")).unwrap_or_default()).unwrap();
            print_pkg_body(&mut out, "  ", p);
            writeln!(out, "}}").unwrap();
        }
        out
    }
}
