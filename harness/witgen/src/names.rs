//! Name pools: plain kebab names, keywords of WIT and of every target language,
//! generator temporaries, and near-collisions.
use crate::Tape;
use std::collections::BTreeSet;

const WIT_KEYWORDS: &[&str] = &[
    "use", "type", "func", "u8", "u16", "u32", "u64", "s8", "s16", "s32", "s64", "f32", "f64", "char", "resource", "record",
    "flags", "variant", "enum", "bool", "string", "option", "result", "future", "stream", "list", "own", "borrow", "as",
    "from", "static", "interface", "tuple", "world", "import", "export", "package", "with", "include", "constructor",
    "error-context", "async", "map",
];

pub fn is_wit_keyword(n: &str) -> bool {
    WIT_KEYWORDS.contains(&n)
}

const PLAIN: &[&str] = &[
    "a", "b", "c", "foo", "bar", "baz", "x1", "my-type", "big-res", "thing", "item-list", "get-value", "set-value", "do-it",
    "http-request", "k2", "v", "w", "data", "info", "node", "leaf", "color", "shape", "point-xy", "left-right",
];

/// keywords / reserved or special identifiers in Rust, C, C++, C#, Go, MoonBit, D,
/// plus names the generators use for their own temporaries
pub const ADVERSARIAL: &[&str] = &[
    // WIT keywords (need % escaping)
    "type", "record", "enum", "flags", "variant", "resource", "func", "static", "interface", "world", "import", "export",
    "use", "as", "from", "include", "with", "package", "constructor", "async", "bool", "string", "list", "option", "result",
    "tuple", "future", "stream", "own", "borrow", "char", "u8", "f32", "map",
    // Rust
    "self", "match", "fn", "impl", "loop", "move", "ref", "mod", "crate", "super", "where", "while", "yield", "abstract",
    "final", "override", "virtual", "typeof", "unsized", "try", "dyn", "box", "const", "continue", "break", "else", "if",
    "in", "let", "mut", "pub", "return", "struct", "trait", "true", "false", "unsafe", "extern", "macro", "become", "priv",
    "do", "gen", "vec", "some", "none", "ok", "err", "drop", "clone", "default", "new", "into", "from-str", "to-string",
    // C / C++
    "int", "long", "short", "double", "float", "void", "class", "namespace", "delete", "this", "template", "operator",
    "switch", "case", "register", "auto", "signed", "unsigned", "goto", "sizeof", "volatile", "typedef", "union", "inline",
    "restrict", "errno", "stdin", "main", "null", "nullptr", "and", "or", "not", "xor", "bitand", "compl", "friend",
    "public", "private", "protected", "throw", "catch", "explicit", "export-x", "char8-t", "wchar-t", "requires", "concept",
    // C#
    "object", "base", "params", "event", "lock", "internal", "decimal", "readonly", "sealed", "checked", "unchecked",
    "fixed", "implicit", "is", "out", "sbyte", "byte", "ushort", "uint", "ulong", "stackalloc", "using", "foreach",
    // Go
    "go", "chan", "defer", "range", "select", "var", "fallthrough", "nil", "iota", "len", "cap", "make", "append", "error",
    // MoonBit / D
    "derive", "test", "guard", "raise", "alias", "body", "cast", "debug", "delegate", "function", "invariant", "lazy", "mixin",
    "module", "scope", "synchronized", "unittest", "version", "immutable", "shared", "pragma", "typeid", "assert",
    // generator temporaries and runtime names
    "ptr0", "len0", "result0", "ret", "ptr", "handle", "rep", "val", "value", "arg0", "e", "t", "vec0", "base0", "result",
    "payload", "tag", "discriminant", "bits", "array", "address", "layout", "cleanup-list", "bindgen", "wit-bindgen", "rt",
    "exports", "imports", "guest", "unit", "equal", "hash", "show", "compare", "op-equal", "to-string-x", "ffi",
];

#[derive(Default)]
pub struct NamePool {
    pub(crate) counter: u32,
    /// every name handed out so far, lower-cased and without `-`
    pub all: BTreeSet<String>,
    /// backend-specific adversarial names (empty: the tape is decoded as before)
    pub extra: Vec<&'static str>,
}

impl NamePool {
    /// A kebab-case name not in `used` (compared case-insensitively); inserted into `used`.
    pub fn fresh(&mut self, t: &mut Tape<'_>, used: &mut BTreeSet<String>, adversarial: bool) -> String {
        let base = if adversarial && !self.extra.is_empty() && t.chance(1, 6) {
            self.extra[t.pick(self.extra.len())].to_string()
        } else if adversarial && t.chance(2, 5) {
            let b = ADVERSARIAL[t.pick(ADVERSARIAL.len())];
            // occasionally an upper-case word or a digit suffix variant
            match t.pick(12) {
                11 if !b.contains('-') && !is_wit_keyword(b) => format!("{}-X", b),
                10 if !is_wit_keyword(b) => format!("{b}-{}", ["a", "b1", "x"][t.pick(3)]),
                _ => b.to_string(),
            }
        } else {
            PLAIN[t.pick(PLAIN.len())].to_string()
        };
        let mut name = base.clone();
        let lower = |s: &str| s.to_ascii_lowercase();
        while used.iter().any(|u| lower(u) == lower(&name)) {
            self.counter += 1;
            name = format!("{base}{}", self.counter % 97);
            if used.iter().any(|u| lower(u) == lower(&name)) {
                name = format!("{base}-n{}", self.counter);
            }
        }
        used.insert(name.clone());
        self.all.insert(name.replace('-', "").to_ascii_lowercase());
        name
    }
}
