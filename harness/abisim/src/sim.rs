//! Recording Bindgen + interpreter (scratch prototype, C01 paths only).
use refabi::{Abi, Core, Mem, Ty, Val};
use std::collections::HashMap;
use wit_bindgen_core::abi::{Bindgen, Bitcast, Instruction, WasmType};
use wit_parser::*;

pub fn conv_ty(r: &Resolve, t: &Type) -> Ty {
    match t {
        Type::Bool => Ty::Bool,
        Type::S8 => Ty::S8,
        Type::U8 => Ty::U8,
        Type::S16 => Ty::S16,
        Type::U16 => Ty::U16,
        Type::S32 => Ty::S32,
        Type::U32 => Ty::U32,
        Type::S64 => Ty::S64,
        Type::U64 => Ty::U64,
        Type::F32 => Ty::F32,
        Type::F64 => Ty::F64,
        Type::Char => Ty::Char,
        Type::String => Ty::String,
        Type::ErrorContext => Ty::ErrorContext,
        Type::Id(id) => match &r.types[*id].kind {
            TypeDefKind::Type(t) => conv_ty(r, t),
            TypeDefKind::List(t) => Ty::List(Box::new(conv_ty(r, t))),
            TypeDefKind::FixedLengthList(t, n) => Ty::FixedList(Box::new(conv_ty(r, t)), *n),
            TypeDefKind::Map(k, v) => Ty::Map(Box::new(conv_ty(r, k)), Box::new(conv_ty(r, v))),
            TypeDefKind::Record(rec) => Ty::Record(
                rec.fields
                    .iter()
                    .map(|f| (f.name.clone(), conv_ty(r, &f.ty)))
                    .collect(),
            ),
            TypeDefKind::Tuple(t) => Ty::Tuple(t.types.iter().map(|t| conv_ty(r, t)).collect()),
            TypeDefKind::Variant(v) => Ty::Variant(
                v.cases
                    .iter()
                    .map(|c| (c.name.clone(), c.ty.as_ref().map(|t| conv_ty(r, t))))
                    .collect(),
            ),
            TypeDefKind::Enum(e) => Ty::Enum(e.cases.iter().map(|c| c.name.clone()).collect()),
            TypeDefKind::Option(t) => Ty::Option(Box::new(conv_ty(r, t))),
            TypeDefKind::Result(x) => Ty::Result(
                x.ok.as_ref().map(|t| Box::new(conv_ty(r, t))),
                x.err.as_ref().map(|t| Box::new(conv_ty(r, t))),
            ),
            TypeDefKind::Flags(f) => Ty::Flags(f.flags.iter().map(|f| f.name.clone()).collect()),
            TypeDefKind::Handle(Handle::Own(_)) => Ty::Own,
            TypeDefKind::Handle(Handle::Borrow(_)) => Ty::Borrow,
            TypeDefKind::Future(_) => Ty::Future,
            TypeDefKind::Stream(_) => Ty::Stream,
            k => panic!("conv_ty {k:?}"),
        },
    }
}

#[derive(Clone, Debug)]
pub enum Op {
    GetArg(usize),
    I32Const(i32),
    Bitcasts(Vec<BC>),
    ConstZero(Vec<WasmType>),
    Load(&'static str, u64, u64),
    Store(&'static str, u64, u64),
    Conv(&'static str),
    ListCanonLower(Ty, bool),
    StringLower(bool),
    ListLower(Ty, bool),
    ListCanonLift(Ty),
    StringLift,
    ListLift(Ty),
    MapLower(Ty, Ty, bool),
    MapLift(Ty, Ty),
    FixedLift(u32),
    FixedLower(u32),
    FixedLowerToMem(Ty, u32),
    FixedLiftFromMem(Ty, u32),
    IterElem,
    IterMapKey,
    IterMapValue,
    IterBasePointer,
    RecordLower(usize),
    RecordLift(usize),
    HandleLower,
    HandleLift,
    FlagsLower(usize),
    FlagsLift(usize),
    VariantPayloadName,
    VariantLower(usize, usize),
    VariantLift(usize),
    EnumLower,
    EnumLift,
    OptionLower(usize),
    OptionLift,
    ResultLower(usize),
    ResultLift,
    Malloc(u64, u64, u64, bool),
    Dealloc(u64, u64, u64, bool),
    DeallocString,
    DeallocList(Ty),
    DeallocMap(Ty, Ty),
    DeallocVariant(usize),
    DropHandle,
    Flush(usize),
    Return(usize),
    CallWasm(Vec<WasmType>, Vec<WasmType>),
    CallInterface(usize, bool),
    TaskReturn(Vec<WasmType>),
    Other(String),
}
#[derive(Clone, Debug)]
pub enum BC {
    None,
    F32ToI32,
    F64ToI64,
    I32ToI64,
    F32ToI64,
    I32ToF32,
    I64ToF64,
    I64ToI32,
    I64ToF32,
    P64ToI64,
    I64ToP64,
    P64ToP,
    PToP64,
    I32ToP,
    PToI32,
    PToL,
    LToP,
    I32ToL,
    LToI32,
    I64ToL,
    LToI64,
    Seq(Box<BC>, Box<BC>),
}
pub fn conv_bc(b: &Bitcast) -> BC {
    match b {
        Bitcast::None => BC::None,
        Bitcast::F32ToI32 => BC::F32ToI32,
        Bitcast::F64ToI64 => BC::F64ToI64,
        Bitcast::I32ToI64 => BC::I32ToI64,
        Bitcast::F32ToI64 => BC::F32ToI64,
        Bitcast::I32ToF32 => BC::I32ToF32,
        Bitcast::I64ToF64 => BC::I64ToF64,
        Bitcast::I64ToI32 => BC::I64ToI32,
        Bitcast::I64ToF32 => BC::I64ToF32,
        Bitcast::P64ToI64 => BC::P64ToI64,
        Bitcast::I64ToP64 => BC::I64ToP64,
        Bitcast::P64ToP => BC::P64ToP,
        Bitcast::PToP64 => BC::PToP64,
        Bitcast::I32ToP => BC::I32ToP,
        Bitcast::PToI32 => BC::PToI32,
        Bitcast::PToL => BC::PToL,
        Bitcast::LToP => BC::LToP,
        Bitcast::I32ToL => BC::I32ToL,
        Bitcast::LToI32 => BC::LToI32,
        Bitcast::I64ToL => BC::I64ToL,
        Bitcast::LToI64 => BC::LToI64,
        Bitcast::Sequence(s) => BC::Seq(Box::new(conv_bc(&s[0])), Box::new(conv_bc(&s[1]))),
    }
}
#[derive(Clone, Debug)]
pub struct Inst {
    pub op: Op,
    pub operands: Vec<usize>,
    pub results: Vec<usize>,
    pub blocks: Vec<Block>,
}
#[derive(Clone, Debug, Default)]
pub struct Block {
    pub insts: Vec<Inst>,
    pub results: Vec<usize>,
}

pub struct Rec {
    pub sizes: SizeAlign,
    next: usize,
    cur: Vec<Vec<Inst>>,
    finished: Vec<Block>,
    pub canon: u8,
    pub ret_areas: Vec<(usize, ArchitectureSize, Alignment)>,
}
impl Rec {
    pub fn new(resolve: &Resolve, canon: u8) -> Rec {
        let mut sizes = SizeAlign::default();
        sizes.fill(resolve);
        Rec {
            sizes,
            next: 0,
            cur: vec![vec![]],
            finished: vec![],
            canon,
            ret_areas: vec![],
        }
    }
    pub fn fresh(&mut self) -> usize {
        self.next += 1;
        self.next - 1
    }
    pub fn program(mut self) -> Block {
        assert_eq!(self.cur.len(), 1);
        assert!(self.finished.is_empty(), "unconsumed blocks");
        Block {
            insts: self.cur.pop().unwrap(),
            results: vec![],
        }
    }
}
fn off(a: &ArchitectureSize) -> (u64, u64) {
    (a.bytes as u64, a.pointers as u64)
}
impl Bindgen for Rec {
    type Operand = usize;
    fn emit(
        &mut self,
        r: &Resolve,
        inst: &Instruction<'_>,
        operands: &mut Vec<usize>,
        results: &mut Vec<usize>,
    ) {
        use Instruction as I;
        let ld = |n: &'static str, o: &ArchitectureSize| Op::Load(n, off(o).0, off(o).1);
        let st = |n: &'static str, o: &ArchitectureSize| Op::Store(n, off(o).0, off(o).1);
        let (op, nblocks) = match inst {
            I::GetArg { nth } => (Op::GetArg(*nth), 0),
            I::I32Const { val } => (Op::I32Const(*val), 0),
            I::Bitcasts { casts } => (Op::Bitcasts(casts.iter().map(conv_bc).collect()), 0),
            I::ConstZero { tys } => (Op::ConstZero(tys.to_vec()), 0),
            I::I32Load { offset } => (ld("i32", offset), 0),
            I::I32Load8U { offset } => (ld("i8u", offset), 0),
            I::I32Load8S { offset } => (ld("i8s", offset), 0),
            I::I32Load16U { offset } => (ld("i16u", offset), 0),
            I::I32Load16S { offset } => (ld("i16s", offset), 0),
            I::I64Load { offset } => (ld("i64", offset), 0),
            I::F32Load { offset } => (ld("f32", offset), 0),
            I::F64Load { offset } => (ld("f64", offset), 0),
            I::PointerLoad { offset } => (ld("ptr", offset), 0),
            I::LengthLoad { offset } => (ld("len", offset), 0),
            I::I32Store { offset } => (st("i32", offset), 0),
            I::I32Store8 { offset } => (st("i8", offset), 0),
            I::I32Store16 { offset } => (st("i16", offset), 0),
            I::I64Store { offset } => (st("i64", offset), 0),
            I::F32Store { offset } => (st("f32", offset), 0),
            I::F64Store { offset } => (st("f64", offset), 0),
            I::PointerStore { offset } => (st("ptr", offset), 0),
            I::LengthStore { offset } => (st("len", offset), 0),
            I::I32FromChar => (Op::Conv("I32FromChar"), 0),
            I::I64FromU64 => (Op::Conv("I64FromU64"), 0),
            I::I64FromS64 => (Op::Conv("I64FromS64"), 0),
            I::I32FromU32 => (Op::Conv("I32FromU32"), 0),
            I::I32FromS32 => (Op::Conv("I32FromS32"), 0),
            I::I32FromU16 => (Op::Conv("I32FromU16"), 0),
            I::I32FromS16 => (Op::Conv("I32FromS16"), 0),
            I::I32FromU8 => (Op::Conv("I32FromU8"), 0),
            I::I32FromS8 => (Op::Conv("I32FromS8"), 0),
            I::CoreF32FromF32 => (Op::Conv("CoreF32FromF32"), 0),
            I::CoreF64FromF64 => (Op::Conv("CoreF64FromF64"), 0),
            I::S8FromI32 => (Op::Conv("S8FromI32"), 0),
            I::U8FromI32 => (Op::Conv("U8FromI32"), 0),
            I::S16FromI32 => (Op::Conv("S16FromI32"), 0),
            I::U16FromI32 => (Op::Conv("U16FromI32"), 0),
            I::S32FromI32 => (Op::Conv("S32FromI32"), 0),
            I::U32FromI32 => (Op::Conv("U32FromI32"), 0),
            I::S64FromI64 => (Op::Conv("S64FromI64"), 0),
            I::U64FromI64 => (Op::Conv("U64FromI64"), 0),
            I::CharFromI32 => (Op::Conv("CharFromI32"), 0),
            I::F32FromCoreF32 => (Op::Conv("F32FromCoreF32"), 0),
            I::F64FromCoreF64 => (Op::Conv("F64FromCoreF64"), 0),
            I::BoolFromI32 => (Op::Conv("BoolFromI32"), 0),
            I::I32FromBool => (Op::Conv("I32FromBool"), 0),
            I::ListCanonLower { element, realloc } => (
                Op::ListCanonLower(conv_ty(r, element), realloc.is_some()),
                0,
            ),
            I::StringLower { realloc } => (Op::StringLower(realloc.is_some()), 0),
            I::ListLower { element, realloc } => {
                (Op::ListLower(conv_ty(r, element), realloc.is_some()), 1)
            }
            I::ListCanonLift { element, .. } => (Op::ListCanonLift(conv_ty(r, element)), 0),
            I::StringLift => (Op::StringLift, 0),
            I::ListLift { element, .. } => (Op::ListLift(conv_ty(r, element)), 1),
            I::MapLower {
                key,
                value,
                realloc,
            } => (
                Op::MapLower(conv_ty(r, key), conv_ty(r, value), realloc.is_some()),
                1,
            ),
            I::MapLift { key, value, .. } => (Op::MapLift(conv_ty(r, key), conv_ty(r, value)), 1),
            I::FixedLengthListLift { size, .. } => (Op::FixedLift(*size), 0),
            I::FixedLengthListLower { size, .. } => (Op::FixedLower(*size), 0),
            I::FixedLengthListLowerToMemory { element, size, .. } => {
                (Op::FixedLowerToMem(conv_ty(r, element), *size), 1)
            }
            I::FixedLengthListLiftFromMemory { element, size, .. } => {
                (Op::FixedLiftFromMem(conv_ty(r, element), *size), 1)
            }
            I::IterElem { .. } => (Op::IterElem, 0),
            I::IterMapKey { .. } => (Op::IterMapKey, 0),
            I::IterMapValue { .. } => (Op::IterMapValue, 0),
            I::IterBasePointer => (Op::IterBasePointer, 0),
            I::RecordLower { record, .. } => (Op::RecordLower(record.fields.len()), 0),
            I::RecordLift { record, .. } => (Op::RecordLift(record.fields.len()), 0),
            I::TupleLower { tuple, .. } => (Op::RecordLower(tuple.types.len()), 0),
            I::TupleLift { tuple, .. } => (Op::RecordLift(tuple.types.len()), 0),
            I::HandleLower { .. }
            | I::FutureLower { .. }
            | I::StreamLower { .. }
            | I::ErrorContextLower => (Op::HandleLower, 0),
            I::HandleLift { .. }
            | I::FutureLift { .. }
            | I::StreamLift { .. }
            | I::ErrorContextLift => (Op::HandleLift, 0),
            I::FlagsLower { flags, .. } => (Op::FlagsLower(flags.flags.len()), 0),
            I::FlagsLift { flags, .. } => (Op::FlagsLift(flags.flags.len()), 0),
            I::VariantPayloadName => (Op::VariantPayloadName, 0),
            I::VariantLower {
                variant, results, ..
            } => (
                Op::VariantLower(variant.cases.len(), results.len()),
                variant.cases.len(),
            ),
            I::VariantLift { variant, .. } => {
                (Op::VariantLift(variant.cases.len()), variant.cases.len())
            }
            I::EnumLower { .. } => (Op::EnumLower, 0),
            I::EnumLift { .. } => (Op::EnumLift, 0),
            I::OptionLower { results, .. } => (Op::OptionLower(results.len()), 2),
            I::OptionLift { .. } => (Op::OptionLift, 2),
            I::ResultLower { results, .. } => (Op::ResultLower(results.len()), 2),
            I::ResultLift { .. } => (Op::ResultLift, 2),
            I::Malloc { size, align, .. } => (
                Op::Malloc(
                    off(size).0,
                    off(size).1,
                    match align {
                        Alignment::Bytes(b) => b.get() as u64,
                        _ => 0,
                    },
                    matches!(align, Alignment::Pointer),
                ),
                0,
            ),
            I::GuestDeallocate { size, align } => (
                Op::Dealloc(
                    off(size).0,
                    off(size).1,
                    match align {
                        Alignment::Bytes(b) => b.get() as u64,
                        _ => 0,
                    },
                    matches!(align, Alignment::Pointer),
                ),
                0,
            ),
            I::GuestDeallocateString => (Op::DeallocString, 0),
            I::GuestDeallocateList { element } => (Op::DeallocList(conv_ty(r, element)), 1),
            I::GuestDeallocateMap { key, value } => {
                (Op::DeallocMap(conv_ty(r, key), conv_ty(r, value)), 1)
            }
            I::GuestDeallocateVariant { blocks } => (Op::DeallocVariant(*blocks), *blocks),
            I::DropHandle { .. } => (Op::DropHandle, 0),
            I::Flush { amt } => (Op::Flush(*amt), 0),
            I::Return { amt, .. } => (Op::Return(*amt), 0),
            I::CallWasm { sig, .. } => (Op::CallWasm(sig.params.clone(), sig.results.clone()), 0),
            I::CallInterface { func, .. } => (
                Op::CallInterface(func.params.len(), func.result.is_some()),
                0,
            ),
            I::AsyncTaskReturn { params, .. } => (Op::TaskReturn(params.to_vec()), 0),
            other => (
                Op::Other(format!("{other:?}").chars().take(40).collect()),
                0,
            ),
        };
        let blocks = self.finished.split_off(self.finished.len() - nblocks);
        for _ in 0..inst.results_len() {
            let id = self.fresh();
            results.push(id);
        }
        self.cur.last_mut().unwrap().push(Inst {
            op,
            operands: operands.clone(),
            results: results.clone(),
            blocks,
        });
    }
    fn return_pointer(&mut self, s: ArchitectureSize, a: Alignment) -> usize {
        let id = self.fresh();
        self.ret_areas.push((id, s, a));
        id
    }
    fn push_block(&mut self) {
        self.cur.push(vec![]);
    }
    fn finish_block(&mut self, o: &mut Vec<usize>) {
        let insts = self.cur.pop().unwrap();
        self.finished.push(Block {
            insts,
            results: o.clone(),
        });
    }
    fn sizes(&self) -> &SizeAlign {
        &self.sizes
    }
    fn is_list_canonical(&self, r: &Resolve, t: &Type) -> bool {
        match self.canon {
            0 => false,
            // what the Rust backend does for primitive numbers
            1 => matches!(
                t,
                Type::U8
                    | Type::S8
                    | Type::U16
                    | Type::S16
                    | Type::U32
                    | Type::S32
                    | Type::U64
                    | Type::S64
                    | Type::F32
                    | Type::F64
            ),
            // what the C backend does: every type all of whose bit patterns are valid
            _ => r.all_bits_valid(t),
        }
    }
}

#[derive(Clone, Debug, PartialEq)]
pub enum V {
    I(Val),
    C(Core),
}
pub struct Interp<'a> {
    pub abi: &'a Abi,
    pub mem: &'a mut Mem,
    pub env: HashMap<usize, V>,
    pub args: Vec<V>,
    payload: Vec<Option<Val>>,
    iter: Vec<(Option<Val>, Option<Val>, Option<Val>, u64)>,
    pub freed: Vec<(u64, u64, u64)>,
    pub dropped: Vec<u32>,
    pub on_call_wasm:
        Option<Box<dyn FnMut(&Abi, &mut Mem, &[WasmType], &[Core]) -> Vec<Core> + 'a>>,
    pub on_call_iface: Option<Box<dyn FnMut(&[Val]) -> Option<Val> + 'a>>,
    pub returned: Option<Vec<V>>,
    pub task_returned: Vec<(Vec<WasmType>, Vec<Core>)>,
    pub ncalls: usize,
}
impl<'a> Interp<'a> {
    pub fn new(abi: &'a Abi, mem: &'a mut Mem) -> Self {
        Interp {
            abi,
            mem,
            env: HashMap::new(),
            args: vec![],
            payload: vec![],
            iter: vec![],
            freed: vec![],
            dropped: vec![],
            on_call_wasm: None,
            on_call_iface: None,
            returned: None,
            task_returned: vec![],
            ncalls: 0,
        }
    }
    fn get(&self, id: usize) -> V {
        self.env
            .get(&id)
            .unwrap_or_else(|| panic!("unbound operand {id}"))
            .clone()
    }
    fn core(&self, id: usize) -> Core {
        match self.get(id) {
            V::C(c) => c,
            v => panic!("expected core value, got {v:?}"),
        }
    }
    fn iface(&self, id: usize) -> Val {
        match self.get(id) {
            V::I(v) => v,
            v => panic!("expected interface value, got {v:?}"),
        }
    }
    fn addr(&self, id: usize, o: (u64, u64)) -> u64 {
        match self.core(id) {
            Core::Ptr(p) => p + o.0 + o.1 * self.abi.p,
            c => panic!("address operand is {c:?}"),
        }
    }
    fn ptrbits(&self, x: u64) -> u64 {
        if self.abi.p == 4 {
            x & 0xffff_ffff
        } else {
            x
        }
    }
    pub fn run(&mut self, b: &Block) -> Vec<V> {
        for i in &b.insts {
            self.step(i);
        }
        b.results.iter().map(|r| self.get(*r)).collect()
    }
    pub fn bc(&self, b: &BC, c: Core) -> Core {
        use Core::*;
        match (b, c) {
            (BC::None, c) => c,
            (BC::F32ToI32, F32(x)) => I32(x),
            (BC::F64ToI64, F64(x)) => I64(x),
            (BC::I32ToI64, I32(x)) => I64(x as u64),
            (BC::F32ToI64, F32(x)) => I64(x as u64),
            (BC::I32ToF32, I32(x)) => F32(x),
            (BC::I64ToF64, I64(x)) => F64(x),
            (BC::I64ToI32, I64(x)) => I32(x as u32),
            (BC::I64ToF32, I64(x)) => F32(x as u32),
            (BC::P64ToI64, P64(x)) => I64(x),
            (BC::I64ToP64, I64(x)) => P64(x),
            (BC::P64ToP, P64(x)) => Ptr(self.ptrbits(x)),
            (BC::PToP64, Ptr(x)) => P64(x),
            (BC::I32ToP, I32(x)) => Ptr(x as u64),
            (BC::PToI32, Ptr(x)) => I32(x as u32),
            (BC::PToL, Ptr(x)) => Len(x),
            (BC::LToP, Len(x)) => Ptr(x),
            (BC::I32ToL, I32(x)) => Len(x as u64),
            (BC::LToI32, Len(x)) => I32(x as u32),
            (BC::I64ToL, I64(x)) => Len(self.ptrbits(x)),
            (BC::LToI64, Len(x)) => I64(x),
            (BC::Seq(a, b2), c) => {
                let m = self.bc(a, c);
                self.bc(b2, m)
            }
            (b, c) => panic!("bitcast {b:?} applied to {c:?}"),
        }
    }
    fn variant_parts(v: &Val) -> (usize, Option<Val>) {
        match v {
            Val::Variant(i, p) => (*i, p.as_deref().cloned()),
            Val::Enum(i) => (*i, None),
            Val::Option(o) => (o.is_some() as usize, o.as_deref().cloned()),
            Val::Result(Ok(o)) => (0, o.as_deref().cloned()),
            Val::Result(Err(o)) => (1, o.as_deref().cloned()),
            v => panic!("not a variant {v:?}"),
        }
    }
    fn step(&mut self, i: &Inst) {
        let o = &i.operands;
        let mut out: Vec<V> = vec![];
        match &i.op {
            Op::GetArg(n) => out.push(self.args[*n].clone()),
            Op::I32Const(v) => out.push(V::C(Core::I32(*v as u32))),
            Op::Bitcasts(cs) => {
                for (c, id) in cs.iter().zip(o) {
                    let v = self.core(*id);
                    out.push(V::C(self.bc(c, v)));
                }
            }
            Op::ConstZero(ts) => {
                for t in ts {
                    out.push(V::C(match t {
                        WasmType::I32 => Core::I32(0),
                        WasmType::I64 => Core::I64(0),
                        WasmType::F32 => Core::F32(0),
                        WasmType::F64 => Core::F64(0),
                        WasmType::Pointer => Core::Ptr(0),
                        WasmType::Length => Core::Len(0),
                        WasmType::PointerOrI64 => Core::P64(0),
                    }));
                }
            }
            Op::Load(k, b, p) => {
                let a = self.addr(o[0], (*b, *p));
                let m = &*self.mem;
                let rd = |n: u64| {
                    let mut x = [0u8; 8];
                    x[..n as usize].copy_from_slice(m.r(a, n));
                    u64::from_le_bytes(x)
                };
                out.push(V::C(match *k {
                    "i32" => Core::I32(rd(4) as u32),
                    "i8u" => Core::I32(rd(1) as u32),
                    "i8s" => Core::I32(rd(1) as u8 as i8 as i32 as u32),
                    "i16u" => Core::I32(rd(2) as u32),
                    "i16s" => Core::I32(rd(2) as u16 as i16 as i32 as u32),
                    "i64" => Core::I64(rd(8)),
                    "f32" => Core::F32(rd(4) as u32),
                    "f64" => Core::F64(rd(8)),
                    "ptr" => Core::Ptr(rd(self.abi.p)),
                    "len" => Core::Len(rd(self.abi.p)),
                    _ => unreachable!(),
                }));
            }
            Op::Store(k, b, p) => {
                let a = self.addr(o[1], (*b, *p));
                let c = self.core(o[0]);
                let bits = c.bits().to_le_bytes();
                let n = match (*k, c) {
                    ("i32", Core::I32(_)) => 4,
                    ("i8", Core::I32(_)) => 1,
                    ("i16", Core::I32(_)) => 2,
                    ("i64", Core::I64(_)) => 8,
                    ("f32", Core::F32(_)) => 4,
                    ("f64", Core::F64(_)) => 8,
                    ("ptr", Core::Ptr(_)) => self.abi.p,
                    ("len", Core::Len(_)) => self.abi.p,
                    (k, c) => panic!("store {k} of {c:?}"),
                };
                self.mem.w(a, &bits[..n as usize]);
            }
            Op::Conv(k) => {
                let v = self.get(o[0]);
                out.push(match (*k, v) {
                    ("I32FromChar", V::I(Val::Char(c))) => V::C(Core::I32(c as u32)),
                    ("I64FromU64", V::I(Val::U64(x))) => V::C(Core::I64(x)),
                    ("I64FromS64", V::I(Val::S64(x))) => V::C(Core::I64(x as u64)),
                    ("I32FromU32", V::I(Val::U32(x))) => V::C(Core::I32(x)),
                    ("I32FromS32", V::I(Val::S32(x))) => V::C(Core::I32(x as u32)),
                    ("I32FromU16", V::I(Val::U16(x))) => V::C(Core::I32(x as u32)),
                    ("I32FromS16", V::I(Val::S16(x))) => V::C(Core::I32(x as i32 as u32)),
                    ("I32FromU8", V::I(Val::U8(x))) => V::C(Core::I32(x as u32)),
                    ("I32FromS8", V::I(Val::S8(x))) => V::C(Core::I32(x as i32 as u32)),
                    ("CoreF32FromF32", V::I(Val::F32(x))) => V::C(Core::F32(x)),
                    ("CoreF64FromF64", V::I(Val::F64(x))) => V::C(Core::F64(x)),
                    ("S8FromI32", V::C(Core::I32(x))) => V::I(Val::S8(x as i8)),
                    ("U8FromI32", V::C(Core::I32(x))) => V::I(Val::U8(x as u8)),
                    ("S16FromI32", V::C(Core::I32(x))) => V::I(Val::S16(x as i16)),
                    ("U16FromI32", V::C(Core::I32(x))) => V::I(Val::U16(x as u16)),
                    ("S32FromI32", V::C(Core::I32(x))) => V::I(Val::S32(x as i32)),
                    ("U32FromI32", V::C(Core::I32(x))) => V::I(Val::U32(x)),
                    ("S64FromI64", V::C(Core::I64(x))) => V::I(Val::S64(x as i64)),
                    ("U64FromI64", V::C(Core::I64(x))) => V::I(Val::U64(x)),
                    ("CharFromI32", V::C(Core::I32(x))) => {
                        V::I(Val::Char(char::from_u32(x).expect("invalid char")))
                    }
                    ("F32FromCoreF32", V::C(Core::F32(x))) => V::I(Val::F32(x)),
                    ("F64FromCoreF64", V::C(Core::F64(x))) => V::I(Val::F64(x)),
                    ("BoolFromI32", V::C(Core::I32(x))) => V::I(Val::Bool(x != 0)),
                    ("I32FromBool", V::I(Val::Bool(b))) => V::C(Core::I32(b as u32)),
                    (k, v) => panic!("conv {k} on {v:?}"),
                });
            }
            Op::RecordLower(n) => match self.iface(o[0]) {
                Val::Record(f) | Val::Tuple(f) => {
                    assert_eq!(f.len(), *n);
                    out.extend(f.into_iter().map(V::I));
                }
                v => panic!("{v:?}"),
            },
            Op::RecordLift(_) => out.push(V::I(Val::Record(
                o.iter().map(|x| self.iface(*x)).collect(),
            ))),
            Op::HandleLower => match self.iface(o[0]) {
                Val::Handle(h) => out.push(V::C(Core::I32(h))),
                v => panic!("{v:?}"),
            },
            Op::HandleLift => match self.core(o[0]) {
                Core::I32(h) => out.push(V::I(Val::Handle(h))),
                v => panic!("{v:?}"),
            },
            Op::FlagsLower(n) => match self.iface(o[0]) {
                Val::Flags(bits) => {
                    for c in 0..(*n + 31) / 32 {
                        let mut w = 0u32;
                        for b in 0..32 {
                            if bits.get(c * 32 + b).copied().unwrap_or(false) {
                                w |= 1 << b;
                            }
                        }
                        out.push(V::C(Core::I32(w)));
                    }
                }
                v => panic!("{v:?}"),
            },
            Op::FlagsLift(n) => {
                let mut bits = vec![false; *n];
                for (c, id) in o.iter().enumerate() {
                    let Core::I32(w) = self.core(*id) else {
                        panic!()
                    };
                    for b in 0..32 {
                        if c * 32 + b < *n {
                            bits[c * 32 + b] = w & (1 << b) != 0;
                        }
                    }
                }
                out.push(V::I(Val::Flags(bits)));
            }
            Op::VariantPayloadName => out.push(match self.payload.last().cloned().flatten() {
                Some(v) => V::I(v),
                None => V::I(Val::Bool(false)),
            }),
            Op::VariantLower(_, nres) | Op::OptionLower(nres) | Op::ResultLower(nres) => {
                let (idx, p) = Self::variant_parts(&self.iface(o[0]));
                self.payload.push(p);
                let r = self.run(&i.blocks[idx]);
                self.payload.pop();
                assert_eq!(r.len(), *nres, "block results");
                out.extend(r);
            }
            Op::EnumLower => {
                let (idx, _) = Self::variant_parts(&self.iface(o[0]));
                out.push(V::C(Core::I32(idx as u32)));
            }
            Op::EnumLift => {
                let Core::I32(d) = self.core(o[0]) else {
                    panic!()
                };
                out.push(V::I(Val::Enum(d as usize)));
            }
            Op::VariantLift(n) => {
                let d = self.core(o[0]).bits() as usize;
                assert!(d < *n, "discriminant out of range");
                let r = self.run(&i.blocks[d]);
                out.push(V::I(Val::Variant(
                    d,
                    r.into_iter().next().map(|v| match v {
                        V::I(v) => Box::new(v),
                        v => panic!("{v:?}"),
                    }),
                )));
            }
            Op::OptionLift => {
                let d = self.core(o[0]).bits() as usize;
                let r = self.run(&i.blocks[d]);
                out.push(V::I(Val::Option(r.into_iter().next().map(|v| match v {
                    V::I(v) => Box::new(v),
                    v => panic!("{v:?}"),
                }))));
            }
            Op::ResultLift => {
                let d = self.core(o[0]).bits() as usize;
                let r = self.run(&i.blocks[d]);
                let p = r.into_iter().next().map(|v| match v {
                    V::I(v) => Box::new(v),
                    v => panic!("{v:?}"),
                });
                out.push(V::I(Val::Result(if d == 0 { Ok(p) } else { Err(p) })));
            }
            Op::StringLower(_) => {
                let Val::Str(s) = self.iface(o[0]) else {
                    panic!()
                };
                let p = self.mem.alloc(s.len() as u64, 1);
                self.mem.w(p, s.as_bytes());
                out.push(V::C(Core::Ptr(p)));
                out.push(V::C(Core::Len(s.len() as u64)));
            }
            Op::StringLift => {
                let (Core::Ptr(p), Core::Len(l)) = (self.core(o[0]), self.core(o[1])) else {
                    panic!("StringLift operands")
                };
                out.push(V::I(Val::Str(
                    String::from_utf8(self.mem.r(p, l).to_vec()).expect("utf8"),
                )));
            }
            Op::ListCanonLower(et, _) => {
                let Val::List(l) = self.iface(o[0]) else {
                    panic!()
                };
                let es = self.abi.size(et);
                let p = self.mem.alloc(es * l.len() as u64, self.abi.align(et));
                for (k, x) in l.iter().enumerate() {
                    self.abi.store(self.mem, x, et, p + k as u64 * es);
                }
                out.push(V::C(Core::Ptr(p)));
                out.push(V::C(Core::Len(l.len() as u64)));
            }
            Op::ListCanonLift(et) => {
                let (Core::Ptr(p), Core::Len(l)) = (self.core(o[0]), self.core(o[1])) else {
                    panic!()
                };
                let es = self.abi.size(et);
                out.push(V::I(Val::List(
                    (0..l)
                        .map(|k| refabi::load(self.abi, self.mem, et, p + k * es))
                        .collect(),
                )));
            }
            Op::ListLower(et, _) => {
                let Val::List(l) = self.iface(o[0]) else {
                    panic!()
                };
                let es = self.abi.size(et);
                let p = self.mem.alloc(es * l.len() as u64, self.abi.align(et));
                for (k, x) in l.iter().enumerate() {
                    self.iter
                        .push((Some(x.clone()), None, None, p + k as u64 * es));
                    self.run(&i.blocks[0]);
                    self.iter.pop();
                }
                out.push(V::C(Core::Ptr(p)));
                out.push(V::C(Core::Len(l.len() as u64)));
            }
            Op::ListLift(et) => {
                let (Core::Ptr(p), Core::Len(l)) = (self.core(o[0]), self.core(o[1])) else {
                    panic!()
                };
                let es = self.abi.size(et);
                let mut items = vec![];
                for k in 0..l {
                    self.iter.push((None, None, None, p + k * es));
                    let r = self.run(&i.blocks[0]);
                    self.iter.pop();
                    let V::I(v) = r[0].clone() else { panic!() };
                    items.push(v);
                }
                out.push(V::I(Val::List(items)));
            }
            Op::MapLower(kt, vt, _) => {
                let Val::Map(m) = self.iface(o[0]) else {
                    panic!()
                };
                let et = Ty::Tuple(vec![kt.clone(), vt.clone()]);
                let es = self.abi.size(&et);
                let p = self.mem.alloc(es * m.len() as u64, self.abi.align(&et));
                for (k, (mk, mv)) in m.iter().enumerate() {
                    self.iter
                        .push((None, Some(mk.clone()), Some(mv.clone()), p + k as u64 * es));
                    self.run(&i.blocks[0]);
                    self.iter.pop();
                }
                out.push(V::C(Core::Ptr(p)));
                out.push(V::C(Core::Len(m.len() as u64)));
            }
            Op::MapLift(kt, vt) => {
                let (Core::Ptr(p), Core::Len(l)) = (self.core(o[0]), self.core(o[1])) else {
                    panic!()
                };
                let et = Ty::Tuple(vec![kt.clone(), vt.clone()]);
                let es = self.abi.size(&et);
                let mut items = vec![];
                for k in 0..l {
                    self.iter.push((None, None, None, p + k * es));
                    let r = self.run(&i.blocks[0]);
                    self.iter.pop();
                    let (V::I(a), V::I(b)) = (r[0].clone(), r[1].clone()) else {
                        panic!()
                    };
                    items.push((a, b));
                }
                out.push(V::I(Val::Map(items)));
            }
            Op::FixedLower(n) => {
                let Val::List(l) = self.iface(o[0]) else {
                    panic!()
                };
                assert_eq!(l.len(), *n as usize);
                out.extend(l.into_iter().map(V::I));
            }
            Op::FixedLift(_) => {
                out.push(V::I(Val::List(o.iter().map(|x| self.iface(*x)).collect())))
            }
            Op::FixedLowerToMem(et, n) => {
                let Val::List(l) = self.iface(o[0]) else {
                    panic!()
                };
                assert_eq!(l.len(), *n as usize);
                let base = self.addr(o[1], (0, 0));
                let es = self.abi.size(et);
                for (k, x) in l.iter().enumerate() {
                    self.iter
                        .push((Some(x.clone()), None, None, base + k as u64 * es));
                    self.run(&i.blocks[0]);
                    self.iter.pop();
                }
            }
            Op::FixedLiftFromMem(et, n) => {
                let base = self.addr(o[0], (0, 0));
                let es = self.abi.size(et);
                let mut items = vec![];
                for k in 0..*n as u64 {
                    self.iter.push((None, None, None, base + k * es));
                    let r = self.run(&i.blocks[0]);
                    self.iter.pop();
                    let V::I(v) = r[0].clone() else { panic!() };
                    items.push(v);
                }
                out.push(V::I(Val::List(items)));
            }
            Op::IterElem => out.push(V::I(self.iter.last().unwrap().0.clone().unwrap())),
            Op::IterMapKey => out.push(V::I(self.iter.last().unwrap().1.clone().unwrap())),
            Op::IterMapValue => out.push(V::I(self.iter.last().unwrap().2.clone().unwrap())),
            Op::IterBasePointer => out.push(V::C(Core::Ptr(self.iter.last().unwrap().3))),
            Op::DeallocString => {
                let (Core::Ptr(p), Core::Len(l)) = (self.core(o[0]), self.core(o[1])) else {
                    panic!()
                };
                if l > 0 {
                    self.freed.push((p, l, 1));
                }
            }
            Op::DeallocList(et) => {
                let (Core::Ptr(p), Core::Len(l)) = (self.core(o[0]), self.core(o[1])) else {
                    panic!()
                };
                let es = self.abi.size(et);
                for k in 0..l {
                    self.iter.push((None, None, None, p + k * es));
                    self.run(&i.blocks[0]);
                    self.iter.pop();
                }
                if l * es > 0 {
                    self.freed.push((p, l * es, self.abi.align(et)));
                }
            }
            Op::DeallocMap(kt, vt) => {
                let (Core::Ptr(p), Core::Len(l)) = (self.core(o[0]), self.core(o[1])) else {
                    panic!()
                };
                let et = Ty::Tuple(vec![kt.clone(), vt.clone()]);
                let es = self.abi.size(&et);
                for k in 0..l {
                    self.iter.push((None, None, None, p + k * es));
                    self.run(&i.blocks[0]);
                    self.iter.pop();
                }
                if l * es > 0 {
                    self.freed.push((p, l * es, self.abi.align(&et)));
                }
            }
            Op::DeallocVariant(n) => {
                let d = self.core(o[0]).bits() as usize;
                assert!(d < *n);
                self.run(&i.blocks[d]);
            }
            Op::Dealloc(b, p, a, aptr) => {
                let Core::Ptr(ptr) = self.core(o[0]) else {
                    panic!()
                };
                self.freed
                    .push((ptr, b + p * self.abi.p, if *aptr { self.abi.p } else { *a }));
            }
            Op::DropHandle => match self.iface(o[0]) {
                Val::Handle(h) => self.dropped.push(h),
                v => panic!("{v:?}"),
            },
            Op::Flush(_) => out.extend(o.iter().map(|x| self.get(*x))),
            Op::Return(_) => {
                assert!(self.returned.is_none(), "second Return");
                self.returned = Some(o.iter().map(|x| self.get(*x)).collect());
            }
            Op::CallWasm(ps, rs) => {
                self.ncalls += 1;
                let args: Vec<Core> = o.iter().map(|x| self.core(*x)).collect();
                assert_eq!(args.len(), ps.len());
                for (a, t) in args.iter().zip(ps) {
                    let ok = matches!(
                        (a, t),
                        (Core::I32(_), WasmType::I32)
                            | (Core::I64(_), WasmType::I64)
                            | (Core::F32(_), WasmType::F32)
                            | (Core::F64(_), WasmType::F64)
                            | (Core::Ptr(_), WasmType::Pointer)
                            | (Core::Len(_), WasmType::Length)
                            | (Core::P64(_), WasmType::PointerOrI64)
                    );
                    assert!(ok, "CallWasm arg {a:?} for declared {t:?}");
                }
                let mut f = self.on_call_wasm.take().expect("no wasm callee");
                let res = f(self.abi, self.mem, ps, &args);
                self.on_call_wasm = Some(f);
                assert_eq!(res.len(), rs.len(), "callee result count");
                out.extend(res.into_iter().map(V::C));
            }
            Op::CallInterface(n, has) => {
                self.ncalls += 1;
                assert_eq!(o.len(), *n);
                let args: Vec<Val> = o.iter().map(|x| self.iface(*x)).collect();
                let mut f = self.on_call_iface.take().expect("no iface callee");
                let r = f(&args);
                self.on_call_iface = Some(f);
                assert_eq!(r.is_some(), *has);
                if let Some(v) = r {
                    out.push(V::I(v));
                }
            }
            Op::TaskReturn(decl) => {
                let a: Vec<Core> = o.iter().map(|x| self.core(*x)).collect();
                assert_eq!(a.len(), decl.len(), "task.return operand count vs declared params");
                self.task_returned.push((decl.clone(), a));
            }
            Op::Malloc(b, p, a, aptr) => {
                let size = b + p * self.abi.p;
                let align = if *aptr { self.abi.p } else { *a };
                assert!(align.is_power_of_two(), "Malloc alignment {align}");
                let ptr = self.mem.alloc(size, align);
                out.push(V::C(Core::Ptr(ptr)));
            }
            op => panic!("unimplemented op {op:?}"),
        }
        assert_eq!(out.len(), i.results.len(), "result arity for {:?}", i.op);
        for (id, v) in i.results.iter().zip(out) {
            self.env.insert(*id, v);
        }
    }
}
