mod refabi;
mod sim;
use proptest::prelude::*;
use proptest::test_runner::{Config, RngAlgorithm, RngSeed, TestRng, TestRunner};
use refabi::*;
use sim::*;
use std::panic::{catch_unwind, AssertUnwindSafe};
use wit_bindgen_core::abi;
use wit_parser::*;

pub fn load(abi: &Abi, mem: &Mem, t: &Ty, at: u64) -> Val {
    let rd = |n: u64| {
        let mut x = [0u8; 8];
        x[..n as usize].copy_from_slice(mem.r(at, n));
        u64::from_le_bytes(x)
    };
    match t {
        Ty::Bool => Val::Bool(rd(1) != 0),
        Ty::S8 => Val::S8(rd(1) as i8),
        Ty::U8 => Val::U8(rd(1) as u8),
        Ty::S16 => Val::S16(rd(2) as i16),
        Ty::U16 => Val::U16(rd(2) as u16),
        Ty::S32 => Val::S32(rd(4) as i32),
        Ty::U32 => Val::U32(rd(4) as u32),
        Ty::S64 => Val::S64(rd(8) as i64),
        Ty::U64 => Val::U64(rd(8)),
        Ty::F32 => Val::F32(rd(4) as u32),
        Ty::F64 => Val::F64(rd(8)),
        Ty::Char => Val::Char(char::from_u32(rd(4) as u32).expect("bad char in memory")),
        Ty::Own | Ty::Borrow | Ty::Future | Ty::Stream | Ty::ErrorContext => {
            Val::Handle(rd(4) as u32)
        }
        Ty::String => {
            let p = mem.r_ptr(at, abi.p);
            let l = mem.r_ptr(at + abi.p, abi.p);
            Val::Str(String::from_utf8(mem.r(p, l).to_vec()).expect("utf8 in memory"))
        }
        Ty::List(et) => {
            let p = mem.r_ptr(at, abi.p);
            let l = mem.r_ptr(at + abi.p, abi.p);
            assert!(l == 0 || p % abi.align(et) == 0, "list pointer misaligned");
            let es = abi.size(et);
            Val::List((0..l).map(|k| load(abi, mem, et, p + k * es)).collect())
        }
        Ty::Map(k, v) => {
            let et = Ty::Tuple(vec![(**k).clone(), (**v).clone()]);
            let Val::List(l) = load(abi, mem, &Ty::List(Box::new(et)), at) else {
                unreachable!()
            };
            Val::Map(
                l.into_iter()
                    .map(|e| {
                        let Val::Tuple(mut kv) = e else {
                            unreachable!()
                        };
                        let v = kv.pop().unwrap();
                        (kv.pop().unwrap(), v)
                    })
                    .collect(),
            )
        }
        Ty::FixedList(et, n) => {
            let es = abi.size(et);
            Val::List(
                (0..*n as u64)
                    .map(|k| load(abi, mem, et, at + k * es))
                    .collect(),
            )
        }
        Ty::Record(fs) => Val::Record(
            fs.iter()
                .zip(abi.field_offsets(fs))
                .map(|((_, ft), o)| load(abi, mem, ft, at + o))
                .collect(),
        ),
        Ty::Tuple(ts) => {
            let fs: Vec<(String, Ty)> = ts.iter().map(|t| (String::new(), t.clone())).collect();
            Val::Tuple(
                fs.iter()
                    .zip(abi.field_offsets(&fs))
                    .map(|((_, ft), o)| load(abi, mem, ft, at + o))
                    .collect(),
            )
        }
        Ty::Flags(fs) => {
            let n = abi.size(t);
            let bytes = mem.r(at, n);
            Val::Flags(
                (0..fs.len())
                    .map(|i| bytes[i / 8] & (1 << (i % 8)) != 0)
                    .collect(),
            )
        }
        Ty::Variant(_) | Ty::Enum(_) | Ty::Option(_) | Ty::Result(..) => {
            let Ty::Variant(cs) = abi.despecialize(t) else {
                unreachable!()
            };
            let d = rd(Abi::disc_size(cs.len())) as usize;
            assert!(d < cs.len(), "bad discriminant in memory");
            let p = cs[d]
                .1
                .as_ref()
                .map(|pt| Box::new(load(abi, mem, pt, at + abi.payload_offset(&cs))));
            match t {
                Ty::Variant(_) => Val::Variant(d, p),
                Ty::Enum(_) => Val::Enum(d),
                Ty::Option(_) => Val::Option(p),
                Ty::Result(..) => Val::Result(if d == 0 { Ok(p) } else { Err(p) }),
                _ => unreachable!(),
            }
        }
    }
}
/// records and tuples compare equal when their fields do (interpreter lifts both as Record)
fn norm(v: &Val) -> Val {
    match v {
        Val::Tuple(f) | Val::Record(f) => Val::Record(f.iter().map(norm).collect()),
        Val::List(l) => Val::List(l.iter().map(norm).collect()),
        Val::Map(m) => Val::Map(m.iter().map(|(k, v)| (norm(k), norm(v))).collect()),
        Val::Variant(i, p) => Val::Variant(*i, p.as_ref().map(|p| Box::new(norm(p)))),
        Val::Enum(i) => Val::Variant(*i, None),
        Val::Option(o) => Val::Variant(o.is_some() as usize, o.as_ref().map(|p| Box::new(norm(p)))),
        Val::Result(Ok(o)) => Val::Variant(0, o.as_ref().map(|p| Box::new(norm(p)))),
        Val::Result(Err(o)) => Val::Variant(1, o.as_ref().map(|p| Box::new(norm(p)))),
        v => v.clone(),
    }
}

// ---------- generators
fn leaf() -> impl Strategy<Value = Ty> {
    prop_oneof![
        Just(Ty::Bool),
        Just(Ty::S8),
        Just(Ty::U8),
        Just(Ty::S16),
        Just(Ty::U16),
        Just(Ty::S32),
        Just(Ty::U32),
        Just(Ty::S64),
        Just(Ty::U64),
        Just(Ty::F32),
        Just(Ty::F64),
        Just(Ty::Char),
        Just(Ty::String),
        Just(Ty::Own),
        Just(Ty::Borrow),
        Just(Ty::Future),
        Just(Ty::Stream),
        Just(Ty::ErrorContext),
        (1usize..=40).prop_map(|n| Ty::Flags((0..n).map(|i| format!("fl{i}")).collect())),
        (1usize..5).prop_map(|n| Ty::Enum((0..n).map(|i| format!("en{i}")).collect()))
    ]
}
fn ty() -> impl Strategy<Value = Ty> {
    leaf().prop_recursive(4, 24, 5, |inner| {
        prop_oneof![
            inner.clone().prop_map(|t| Ty::List(Box::new(t))),
            (inner.clone(), 1u32..4).prop_map(|(t, n)| Ty::FixedList(Box::new(t), n)),
            (
                prop_oneof![
                    Just(Ty::U8),
                    Just(Ty::String),
                    Just(Ty::S32),
                    Just(Ty::Char),
                    Just(Ty::Bool),
                    Just(Ty::U64)
                ],
                inner.clone()
            )
                .prop_map(|(k, v)| Ty::Map(Box::new(k), Box::new(v))),
            prop::collection::vec(inner.clone(), 1..5).prop_map(|fs| Ty::Record(
                fs.into_iter()
                    .enumerate()
                    .map(|(i, t)| (format!("f{i}"), t))
                    .collect()
            )),
            prop::collection::vec(inner.clone(), 1..4).prop_map(Ty::Tuple),
            prop::collection::vec(prop::option::of(inner.clone()), 1..5).prop_map(
                |cs| Ty::Variant(
                    cs.into_iter()
                        .enumerate()
                        .map(|(i, t)| (format!("c{i}"), t))
                        .collect()
                )
            ),
            inner.clone().prop_map(|t| Ty::Option(Box::new(t))),
            (prop::option::of(inner.clone()), prop::option::of(inner))
                .prop_map(|(a, b)| Ty::Result(a.map(Box::new), b.map(Box::new)))
        ]
    })
}
fn val(t: &Ty) -> BoxedStrategy<Val> {
    match t {
        Ty::Bool => any::<bool>().prop_map(Val::Bool).boxed(),
        Ty::S8 => any::<i8>().prop_map(Val::S8).boxed(),
        Ty::U8 => any::<u8>().prop_map(Val::U8).boxed(),
        Ty::S16 => any::<i16>().prop_map(Val::S16).boxed(),
        Ty::U16 => any::<u16>().prop_map(Val::U16).boxed(),
        Ty::S32 => any::<i32>().prop_map(Val::S32).boxed(),
        Ty::U32 => any::<u32>().prop_map(Val::U32).boxed(),
        Ty::S64 => any::<i64>().prop_map(Val::S64).boxed(),
        Ty::U64 => any::<u64>().prop_map(Val::U64).boxed(),
        Ty::F32 => any::<u32>().prop_map(Val::F32).boxed(),
        Ty::F64 => any::<u64>().prop_map(Val::F64).boxed(),
        Ty::Char => any::<char>().prop_map(Val::Char).boxed(),
        Ty::String => ".{0,6}".prop_map(Val::Str).boxed(),
        Ty::Own | Ty::Borrow | Ty::Future | Ty::Stream | Ty::ErrorContext => {
            (1u32..1000).prop_map(Val::Handle).boxed()
        }
        Ty::List(t) => prop::collection::vec(val(t), 0..4)
            .prop_map(Val::List)
            .boxed(),
        Ty::FixedList(t, n) => prop::collection::vec(val(t), *n as usize)
            .prop_map(Val::List)
            .boxed(),
        Ty::Map(k, v) => prop::collection::vec((val(k), val(v)), 0..3)
            .prop_map(Val::Map)
            .boxed(),
        Ty::Record(fs) => fs
            .iter()
            .map(|(_, t)| val(t))
            .collect::<Vec<_>>()
            .prop_map(Val::Record)
            .boxed(),
        Ty::Tuple(ts) => ts
            .iter()
            .map(val)
            .collect::<Vec<_>>()
            .prop_map(Val::Tuple)
            .boxed(),
        Ty::Variant(cs) => {
            let cs = cs.clone();
            (0..cs.len())
                .prop_flat_map(move |i| match &cs[i].1 {
                    Some(t) => val(t)
                        .prop_map(move |v| Val::Variant(i, Some(Box::new(v))))
                        .boxed(),
                    None => Just(Val::Variant(i, None)).boxed(),
                })
                .boxed()
        }
        Ty::Enum(cs) => (0..cs.len()).prop_map(Val::Enum).boxed(),
        Ty::Option(t) => prop::option::of(val(t))
            .prop_map(|o| Val::Option(o.map(Box::new)))
            .boxed(),
        Ty::Result(a, b) => {
            let a = a.clone();
            let b = b.clone();
            any::<bool>()
                .prop_flat_map(move |ok| {
                    let side = if ok { a.clone() } else { b.clone() };
                    match side {
                        Some(t) => val(&t)
                            .prop_map(move |v| {
                                let p = Some(Box::new(v));
                                Val::Result(if ok { Ok(p) } else { Err(p) })
                            })
                            .boxed(),
                        None => Just(Val::Result(if ok { Ok(None) } else { Err(None) })).boxed(),
                    }
                })
                .boxed()
        }
        Ty::Flags(fs) => prop::collection::vec(any::<bool>(), fs.len())
            .prop_map(Val::Flags)
            .boxed(),
    }
}

// ---------- WIT printing
fn wit_ty(t: &Ty, decls: &mut Vec<String>) -> String {
    match t {
        Ty::Bool => "bool".into(),
        Ty::S8 => "s8".into(),
        Ty::U8 => "u8".into(),
        Ty::S16 => "s16".into(),
        Ty::U16 => "u16".into(),
        Ty::S32 => "s32".into(),
        Ty::U32 => "u32".into(),
        Ty::S64 => "s64".into(),
        Ty::U64 => "u64".into(),
        Ty::F32 => "f32".into(),
        Ty::F64 => "f64".into(),
        Ty::Char => "char".into(),
        Ty::String => "string".into(),
        Ty::Own => "res".into(),
        Ty::Borrow => "borrow<res>".into(),
        Ty::Future => "future<u8>".into(),
        Ty::Stream => "stream<u8>".into(),
        Ty::ErrorContext => "error-context".into(),
        Ty::List(t) => format!("list<{}>", wit_ty(t, decls)),
        Ty::FixedList(t, n) => format!("list<{}, {n}>", wit_ty(t, decls)),
        Ty::Map(k, v) => format!("map<{}, {}>", wit_ty(k, decls), wit_ty(v, decls)),
        Ty::Tuple(ts) => format!(
            "tuple<{}>",
            ts.iter()
                .map(|t| wit_ty(t, decls))
                .collect::<Vec<_>>()
                .join(", ")
        ),
        Ty::Option(t) => format!("option<{}>", wit_ty(t, decls)),
        Ty::Result(a, b) => match (a, b) {
            (None, None) => "result".into(),
            (Some(a), None) => format!("result<{}>", wit_ty(a, decls)),
            (None, Some(b)) => format!("result<_, {}>", wit_ty(b, decls)),
            (Some(a), Some(b)) => format!("result<{}, {}>", wit_ty(a, decls), wit_ty(b, decls)),
        },
        Ty::Record(fs) => {
            let body = fs
                .iter()
                .map(|(n, t)| format!("{n}: {}", wit_ty(t, decls)))
                .collect::<Vec<_>>()
                .join(", ");
            let name = format!("t{}", decls.len());
            decls.push(format!("record {name} {{ {body} }}"));
            name
        }
        Ty::Variant(cs) => {
            let body = cs
                .iter()
                .map(|(n, t)| match t {
                    Some(t) => format!("{n}({})", wit_ty(t, decls)),
                    None => n.clone(),
                })
                .collect::<Vec<_>>()
                .join(", ");
            let name = format!("t{}", decls.len());
            decls.push(format!("variant {name} {{ {body} }}"));
            name
        }
        Ty::Enum(cs) => {
            let name = format!("t{}", decls.len());
            decls.push(format!("enum {name} {{ {} }}", cs.join(", ")));
            name
        }
        Ty::Flags(fs) => {
            let name = format!("t{}", decls.len());
            decls.push(format!("flags {name} {{ {} }}", fs.join(", ")));
            name
        }
    }
}

fn has_borrow(t: &Ty) -> bool {
    match t {
        Ty::Borrow => true,
        Ty::List(t) | Ty::FixedList(t, _) | Ty::Option(t) => has_borrow(t),
        Ty::Map(k, v) => has_borrow(k) || has_borrow(v),
        Ty::Record(fs) => fs.iter().any(|(_, t)| has_borrow(t)),
        Ty::Tuple(ts) => ts.iter().any(has_borrow),
        Ty::Variant(cs) => cs.iter().any(|(_, t)| t.as_ref().map_or(false, has_borrow)),
        Ty::Result(a, b) => {
            a.as_deref().map_or(false, has_borrow) || b.as_deref().map_or(false, has_borrow)
        }
        _ => false,
    }
}

fn check(t: &Ty, v: &Val, p: u64, canon: bool) -> Result<(), String> {
    let mut decls = vec![];
    let tn = wit_ty(t, &mut decls);
    let res_ty = if has_borrow(t) {
        String::new()
    } else {
        format!(" -> {tn}")
    };
    let src = format!("package a:b;\ninterface i {{ resource res; {} f: func(x: {tn}){res_ty}; }}\nworld w {{ import i; }}", decls.join(" "));
    let mut resolve = Resolve::default();
    resolve.all_features = true;
    resolve
        .push_str("t.wit", &src)
        .map_err(|e| format!("GEN: wit parse failed: {e:#}\n{src}"))?;
    let func = resolve.interfaces.iter().next().unwrap().1.functions["f"].clone();
    let wty = func.params[0].ty;
    let abi = Abi { p };
    // (A) lower_to_memory, then spec-load what was written
    let r = catch_unwind(AssertUnwindSafe(|| -> Result<(), String> {
        let mut rec = Rec::new(&resolve, canon);
        let (addr, value) = (rec.fresh(), rec.fresh());
        abi::lower_to_memory(&resolve, &mut rec, addr, value, &wty);
        let prog = rec.program();
        let mut mem = Mem::new();
        let size = abi.size(t);
        let base = mem.alloc(size + 64, 16) + 24;
        let before = mem.bytes.clone();
        {
            let mut it = Interp::new(&abi, &mut mem);
            it.env.insert(addr, V::C(Core::Ptr(base)));
            it.env.insert(value, V::I(v.clone()));
            it.run(&prog);
        }
        for a in (base - 24)..base {
            if mem.bytes[a as usize] != before[a as usize] {
                return Err(format!(
                    "lower_to_memory wrote before the value at offset -{}",
                    base - a
                ));
            }
        }
        for a in (base + size)..(base + size + 24) {
            if mem.bytes[a as usize] != before[a as usize] {
                return Err(format!(
                    "lower_to_memory wrote past the value (+{} beyond size {size})",
                    a - base - size
                ));
            }
        }
        let got = load(&abi, &mem, t, base);
        if norm(&got) != norm(v) {
            return Err(format!("lower_to_memory: spec load gives {got:?}"));
        }
        Ok(())
    }));
    match r {
        Ok(Ok(())) => {}
        Ok(Err(e)) => return Err(format!("[A] {e}")),
        Err(e) => return Err(format!("[A] panic: {}", pmsg(e))),
    }
    // (B) spec store, then lift_from_memory
    let r = catch_unwind(AssertUnwindSafe(|| -> Result<(), String> {
        let mut rec = Rec::new(&resolve, canon);
        let addr = rec.fresh();
        let out = abi::lift_from_memory(&resolve, &mut rec, addr, &wty);
        let prog = rec.program();
        let mut mem = Mem::new();
        let size = abi.size(t);
        let base = mem.alloc(size + 64, 16) + 8;
        abi.store(&mut mem, v, t, base);
        let mut it = Interp::new(&abi, &mut mem);
        it.env.insert(addr, V::C(Core::Ptr(base)));
        it.run(&prog);
        match it.env.get(&out) {
            Some(V::I(got)) if norm(got) == norm(v) => Ok(()),
            other => Err(format!("lift_from_memory gives {other:?}")),
        }
    }));
    match r {
        Ok(Ok(())) => {}
        Ok(Err(e)) => return Err(format!("[B] {e}")),
        Err(e) => return Err(format!("[B] panic: {}", pmsg(e))),
    }
    // (C) lower_flat when it fits
    let flats = abi.flatten(t);
    if flats.len() <= 16 {
        let r = catch_unwind(AssertUnwindSafe(|| -> Result<(), String> {
            let mut rec = Rec::new(&resolve, canon);
            let value = rec.fresh();
            let outs = abi::lower_flat(&resolve, &mut rec, value, &wty);
            let prog = rec.program();
            let mut mem = Mem::new();
            let mut it = Interp::new(&abi, &mut mem);
            it.env.insert(value, V::I(v.clone()));
            it.run(&prog);
            let got: Vec<Core> = outs
                .iter()
                .map(|o| match it.env[o].clone() {
                    V::C(c) => c,
                    v => panic!("flat result is {v:?}"),
                })
                .collect();
            let mut mem2 = Mem::new();
            let want = abi.lower_flat(&mut mem2, v, t);
            if got.len() != want.len() {
                return Err(format!("flat count {} vs spec {}", got.len(), want.len()));
            }
            for (i, (g, (wf, wbits))) in got.iter().zip(&want).enumerate() {
                let gf = match g {
                    Core::I32(_) => Flat::I32,
                    Core::I64(_) | Core::P64(_) => Flat::I64,
                    Core::F32(_) => Flat::F32,
                    Core::F64(_) => Flat::F64,
                    Core::Ptr(_) | Core::Len(_) => abi.ptr_flat(),
                };
                if gf != *wf {
                    return Err(format!("flat[{i}] type {g:?} vs spec {wf:?}"));
                }
                let is_ptr = matches!(g, Core::Ptr(_)) || (matches!(g, Core::P64(_)));
                if !is_ptr && g.bits() != *wbits {
                    return Err(format!("flat[{i}] = {g:?} vs spec bits {wbits:#x}"));
                }
            }
            Ok(())
        }));
        match r {
            Ok(Ok(())) => {}
            Ok(Err(e)) => return Err(format!("[C] {e}")),
            Err(e) => return Err(format!("[C] panic: {}", pmsg(e))),
        }
    }
    // (D) post_return frees exactly what lowering the result allocated
    if !has_borrow(t) && !fixed_with_heap(t) && !has_ec(t) {
        let needs = abi::guest_export_needs_post_return(&resolve, &func);
        let r = catch_unwind(AssertUnwindSafe(|| -> Result<(), String> {
            let mut rec = Rec::new(&resolve, canon);
            let (addr, value) = (rec.fresh(), rec.fresh());
            abi::lower_to_memory(&resolve, &mut rec, addr, value, &wty);
            let prog = rec.program();
            let mut mem = Mem::new();
            let size = abi.size(t);
            let base = mem.alloc(size + 64, 16);
            let n0 = mem.allocs.len();
            {
                let mut it = Interp::new(&abi, &mut mem);
                it.env.insert(addr, V::C(Core::Ptr(base)));
                it.env.insert(value, V::I(v.clone()));
                it.run(&prog);
            }
            let mut owned: Vec<(u64, u64, u64)> = mem.allocs[n0..].to_vec();
            owned.sort();
            if !needs {
                return if owned.is_empty() {
                    Ok(())
                } else {
                    Err(format!(
                        "needs_post_return=false but lowering allocated {owned:?}"
                    ))
                };
            }
            let mut rec = Rec::new(&resolve, canon);
            abi::post_return(&resolve, &func, &mut rec);
            let prog = rec.program();
            let mut it = Interp::new(&abi, &mut mem);
            it.args = vec![V::C(Core::Ptr(base))];
            it.run(&prog);
            let mut freed = it.freed.clone();
            freed.sort();
            if freed != owned {
                return Err(format!(
                    "post_return freed {freed:?} but lowering allocated {owned:?}"
                ));
            }
            Ok(())
        }));
        match r {
            Ok(Ok(())) => {}
            Ok(Err(e)) => return Err(format!("[D] {e}")),
            Err(e) => return Err(format!("[D] panic: {}", pmsg(e))),
        }
    }
    Ok(())
}
fn has_heap(t: &Ty) -> bool {
    match t {
        Ty::String | Ty::List(_) | Ty::Map(..) => true,
        Ty::FixedList(t, _) | Ty::Option(t) => has_heap(t),
        Ty::Record(fs) => fs.iter().any(|(_, t)| has_heap(t)),
        Ty::Tuple(ts) => ts.iter().any(has_heap),
        Ty::Variant(cs) => cs.iter().any(|(_, t)| t.as_ref().map_or(false, has_heap)),
        Ty::Result(a, b) => {
            a.as_deref().map_or(false, has_heap) || b.as_deref().map_or(false, has_heap)
        }
        _ => false,
    }
}
fn fixed_with_heap(t: &Ty) -> bool {
    match t {
        Ty::FixedList(e, _) => has_heap(e) || fixed_with_heap(e),
        Ty::List(t) | Ty::Option(t) => fixed_with_heap(t),
        Ty::Map(k, v) => fixed_with_heap(k) || fixed_with_heap(v),
        Ty::Record(fs) => fs.iter().any(|(_, t)| fixed_with_heap(t)),
        Ty::Tuple(ts) => ts.iter().any(fixed_with_heap),
        Ty::Variant(cs) => cs
            .iter()
            .any(|(_, t)| t.as_ref().map_or(false, fixed_with_heap)),
        Ty::Result(a, b) => {
            a.as_deref().map_or(false, fixed_with_heap)
                || b.as_deref().map_or(false, fixed_with_heap)
        }
        _ => false,
    }
}
fn has_ec(t: &Ty) -> bool {
    match t {
        Ty::ErrorContext => true,
        Ty::FixedList(t, _) | Ty::Option(t) | Ty::List(t) => has_ec(t),
        Ty::Map(k, v) => has_ec(k) || has_ec(v),
        Ty::Record(fs) => fs.iter().any(|(_, t)| has_ec(t)),
        Ty::Tuple(ts) => ts.iter().any(has_ec),
        Ty::Variant(cs) => cs.iter().any(|(_, t)| t.as_ref().map_or(false, has_ec)),
        Ty::Result(a, b) => {
            a.as_deref().map_or(false, has_ec) || b.as_deref().map_or(false, has_ec)
        }
        _ => false,
    }
}

// ---------- C02: call glue
fn lift_flat(abi: &Abi, mem: &Mem, t: &Ty, it: &mut std::slice::Iter<'_, u64>) -> Val {
    let mut nx = || *it.next().expect("ran out of flat values");
    match t {
        Ty::Bool => Val::Bool(nx() as u32 != 0),
        Ty::S8 => Val::S8(nx() as i8),
        Ty::U8 => Val::U8(nx() as u8),
        Ty::S16 => Val::S16(nx() as i16),
        Ty::U16 => Val::U16(nx() as u16),
        Ty::S32 => Val::S32(nx() as i32),
        Ty::U32 => Val::U32(nx() as u32),
        Ty::S64 => Val::S64(nx() as i64),
        Ty::U64 => Val::U64(nx()),
        Ty::F32 => Val::F32(nx() as u32),
        Ty::F64 => Val::F64(nx()),
        Ty::Char => Val::Char(char::from_u32(nx() as u32).expect("char")),
        Ty::Own | Ty::Borrow | Ty::Future | Ty::Stream | Ty::ErrorContext => {
            Val::Handle(nx() as u32)
        }
        Ty::String | Ty::List(_) | Ty::Map(..) => {
            let p = nx();
            let l = nx();
            let mut tmp = Mem {
                bytes: mem.bytes.clone(),
                top: mem.top,
                allocs: vec![],
            };
            let a = tmp.alloc(2 * abi.p, abi.p);
            abi.store_ptr(&mut tmp, a, p);
            abi.store_ptr(&mut tmp, a + abi.p, l);
            load(abi, &tmp, t, a)
        }
        Ty::FixedList(et, n) => Val::List((0..*n).map(|_| lift_flat(abi, mem, et, it)).collect()),
        Ty::Record(fs) => Val::Record(fs.iter().map(|(_, t)| lift_flat(abi, mem, t, it)).collect()),
        Ty::Tuple(ts) => Val::Tuple(ts.iter().map(|t| lift_flat(abi, mem, t, it)).collect()),
        Ty::Flags(fs) => {
            let mut bits = vec![false; fs.len()];
            for c in 0..(fs.len() + 31) / 32 {
                let w = nx() as u32;
                for b in 0..32 {
                    if c * 32 + b < fs.len() {
                        bits[c * 32 + b] = w & (1 << b) != 0;
                    }
                }
            }
            Val::Flags(bits)
        }
        Ty::Variant(_) | Ty::Enum(_) | Ty::Option(_) | Ty::Result(..) => {
            let Ty::Variant(cs) = abi.despecialize(t) else {
                unreachable!()
            };
            let want = abi.flatten(t);
            let d = nx() as usize;
            assert!(d < cs.len(), "bad flat discriminant");
            let slots: Vec<u64> = (1..want.len()).map(|_| nx()).collect();
            let p = cs[d].1.as_ref().map(|pt| {
                let have = abi.flatten(pt);
                let conv: Vec<u64> = have
                    .iter()
                    .zip(&slots)
                    .map(|(h, b)| match h {
                        Flat::I32 | Flat::F32 => *b & 0xffff_ffff,
                        _ => *b,
                    })
                    .collect();
                Box::new(lift_flat(abi, mem, pt, &mut conv.iter()))
            });
            match t {
                Ty::Variant(_) => Val::Variant(d, p),
                Ty::Enum(_) => Val::Enum(d),
                Ty::Option(_) => Val::Option(p),
                Ty::Result(..) => Val::Result(if d == 0 { Ok(p) } else { Err(p) }),
                _ => unreachable!(),
            }
        }
    }
}
fn tag(w: wit_bindgen_core::abi::WasmType, bits: u64) -> Core {
    use wit_bindgen_core::abi::WasmType as W;
    match w {
        W::I32 => Core::I32(bits as u32),
        W::I64 => Core::I64(bits),
        W::F32 => Core::F32(bits as u32),
        W::F64 => Core::F64(bits),
        W::Pointer => Core::Ptr(bits),
        W::Length => Core::Len(bits),
        W::PointerOrI64 => Core::P64(bits),
    }
}
fn concrete(abi: &Abi, w: wit_bindgen_core::abi::WasmType) -> Flat {
    use wit_bindgen_core::abi::WasmType as W;
    match w {
        W::I32 => Flat::I32,
        W::I64 | W::PointerOrI64 => Flat::I64,
        W::F32 => Flat::F32,
        W::F64 => Flat::F64,
        W::Pointer | W::Length => abi.ptr_flat(),
    }
}

fn check_call(
    params: &[Ty],
    result: &Option<Ty>,
    pvals: &[Val],
    rval: &Option<Val>,
    p: u64,
    canon: bool,
) -> Result<(), String> {
    use std::cell::RefCell;
    use std::rc::Rc;
    use wit_bindgen_core::abi::{AbiVariant, LiftLower};
    let mut decls = vec![];
    let ps: Vec<String> = params
        .iter()
        .enumerate()
        .map(|(i, t)| format!("p{i}: {}", wit_ty(t, &mut decls)))
        .collect();
    let rs = match result {
        Some(t) => format!(" -> {}", wit_ty(t, &mut decls)),
        None => String::new(),
    };
    let src = format!("package a:b;\ninterface i {{ resource res; {} f: func({}){rs}; }}\nworld w {{ import i; }}", decls.join(" "), ps.join(", "));
    let mut resolve = Resolve::default();
    resolve.all_features = true;
    resolve
        .push_str("t.wit", &src)
        .map_err(|e| format!("GEN: {e:#}\n{src}"))?;
    let func = resolve.interfaces.iter().next().unwrap().1.functions["f"].clone();
    let abi = Abi { p };
    let tuple = Ty::Tuple(params.to_vec());
    let flat_params: Vec<Flat> = params.iter().flat_map(|t| abi.flatten(t)).collect();
    let indirect = flat_params.len() > 16;
    let flat_results: Vec<Flat> = result.as_ref().map(|t| abi.flatten(t)).unwrap_or_default();
    let retptr = flat_results.len() > 1;
    let err: Rc<RefCell<Option<String>>> = Rc::new(RefCell::new(None));
    // ---- (1) guest import: lower args, one core call, lift results
    let r = catch_unwind(AssertUnwindSafe(|| -> Result<(), String> {
        let sig = resolve.wasm_signature(AbiVariant::GuestImport, &func);
        let want: Vec<Flat> = if indirect {
            vec![abi.ptr_flat()]
        } else {
            flat_params.clone()
        }
        .into_iter()
        .chain(retptr.then(|| abi.ptr_flat()))
        .collect();
        let got: Vec<Flat> = sig.params.iter().map(|w| concrete(&abi, *w)).collect();
        if got != want {
            return Err(format!("import core params {got:?} vs spec {want:?}"));
        }
        let want_r: Vec<Flat> = if retptr { vec![] } else { flat_results.clone() };
        let got_r: Vec<Flat> = sig.results.iter().map(|w| concrete(&abi, *w)).collect();
        if got_r != want_r {
            return Err(format!("import core results {got_r:?} vs spec {want_r:?}"));
        }
        let mut rec = Rec::new(&resolve, canon);
        abi::call(
            &resolve,
            AbiVariant::GuestImport,
            LiftLower::LowerArgsLiftResults,
            &func,
            &mut rec,
            false,
        );
        let areas = rec.ret_areas.clone();
        let prog = rec.program();
        let mut mem = Mem::new();
        let mut it = Interp::new(&abi, &mut mem);
        for (id, s, _a) in &areas {
            let sz = s.bytes as u64 + s.pointers as u64 * p;
            let a = it.mem.alloc(sz.max(1) + 16, 16);
            it.env.insert(*id, V::C(Core::Ptr(a)));
        }
        it.args = pvals.iter().cloned().map(V::I).collect();
        let (e2, pv, rv, tu, res_t, ps_t) = (
            err.clone(),
            pvals.to_vec(),
            rval.clone(),
            tuple.clone(),
            result.clone(),
            params.to_vec(),
        );
        it.on_call_wasm = Some(Box::new(move |abi, mem, _decl, args| {
            let bits: Vec<u64> = args.iter().map(|c| c.bits()).collect();
            let seen = if indirect {
                load(abi, mem, &tu, bits[0])
            } else {
                let mut i = bits.iter();
                let v = Val::Tuple(
                    ps_t.iter()
                        .map(|t| lift_flat(abi, mem, t, &mut i))
                        .collect(),
                );
                v
            };
            if norm(&seen) != norm(&Val::Tuple(pv.clone())) {
                *e2.borrow_mut() = Some(format!("callee saw {seen:?}"));
            }
            match (&res_t, &rv) {
                (Some(t), Some(v)) => {
                    if retptr {
                        let at = *bits.last().unwrap();
                        abi.store(mem, v, t, at);
                        vec![]
                    } else {
                        let l = abi.lower_flat(mem, v, t);
                        l.into_iter()
                            .map(|(f, b)| match f {
                                Flat::I32 => Core::I32(b as u32),
                                Flat::I64 => Core::I64(b),
                                Flat::F32 => Core::F32(b as u32),
                                Flat::F64 => Core::F64(b),
                            })
                            .collect()
                    }
                }
                _ => vec![],
            }
        }));
        it.run(&prog);
        if let Some(e) = err.borrow_mut().take() {
            return Err(e);
        }
        if it.ncalls != 1 {
            return Err(format!("{} core calls", it.ncalls));
        }
        let ret = it.returned.clone().ok_or("no Return")?;
        match (rval, ret.as_slice()) {
            (None, []) => Ok(()),
            (Some(v), [V::I(g)]) if norm(g) == norm(v) => Ok(()),
            (a, b) => Err(format!("import returned {b:?} expected {a:?}")),
        }
    }));
    match r {
        Ok(Ok(())) => {}
        Ok(Err(e)) => return Err(format!("[import] {e}")),
        Err(e) => return Err(format!("[import] panic: {}", pmsg(e))),
    }
    // ---- (2) guest export: lift core args, one interface call, lower result
    let r = catch_unwind(AssertUnwindSafe(|| -> Result<(), String> {
        let sig = resolve.wasm_signature(AbiVariant::GuestExport, &func);
        let want: Vec<Flat> = if indirect {
            vec![abi.ptr_flat()]
        } else {
            flat_params.clone()
        };
        let got: Vec<Flat> = sig.params.iter().map(|w| concrete(&abi, *w)).collect();
        if got != want {
            return Err(format!("export core params {got:?} vs spec {want:?}"));
        }
        let want_r: Vec<Flat> = if retptr {
            vec![abi.ptr_flat()]
        } else {
            flat_results.clone()
        };
        let got_r: Vec<Flat> = sig.results.iter().map(|w| concrete(&abi, *w)).collect();
        if got_r != want_r {
            return Err(format!("export core results {got_r:?} vs spec {want_r:?}"));
        }
        let mut rec = Rec::new(&resolve, canon);
        abi::call(
            &resolve,
            AbiVariant::GuestExport,
            LiftLower::LiftArgsLowerResults,
            &func,
            &mut rec,
            false,
        );
        let areas = rec.ret_areas.clone();
        let prog = rec.program();
        let mut mem = Mem::new();
        let (args, record): (Vec<Core>, Option<(u64, u64, u64)>) = if indirect {
            let (sz, al) = (abi.size(&tuple), abi.align(&tuple));
            let a = mem.alloc(sz, al);
            abi.store(&mut mem, &Val::Tuple(pvals.to_vec()), &tuple, a);
            (vec![Core::Ptr(a)], Some((a, sz, al)))
        } else {
            let mut bits = vec![];
            for (t, v) in params.iter().zip(pvals) {
                bits.extend(abi.lower_flat(&mut mem, v, t).into_iter().map(|(_, b)| b));
            }
            (
                sig.params
                    .iter()
                    .zip(bits)
                    .map(|(w, b)| tag(*w, b))
                    .collect(),
                None,
            )
        };
        let mut it = Interp::new(&abi, &mut mem);
        for (id, s, _a) in &areas {
            let sz = s.bytes as u64 + s.pointers as u64 * p;
            let a = it.mem.alloc(sz.max(1) + 16, 16);
            it.env.insert(*id, V::C(Core::Ptr(a)));
        }
        it.args = args.into_iter().map(V::C).collect();
        let (e2, pv, rv) = (err.clone(), pvals.to_vec(), rval.clone());
        it.on_call_iface = Some(Box::new(move |a| {
            if norm(&Val::Tuple(a.to_vec())) != norm(&Val::Tuple(pv.clone())) {
                *e2.borrow_mut() = Some(format!("implementation saw {a:?}"));
            }
            rv.clone()
        }));
        it.run(&prog);
        if let Some(e) = err.borrow_mut().take() {
            return Err(e);
        }
        if it.ncalls != 1 {
            return Err(format!("{} interface calls", it.ncalls));
        }
        if let Some(rec) = record {
            let n = it.freed.iter().filter(|f| **f == rec).count();
            if n != 1 {
                return Err(format!(
                    "parameter record {rec:?} freed {n} times; freed={:?}",
                    it.freed
                ));
            }
        }
        let ret = it.returned.clone().ok_or("no Return")?;
        let cores: Vec<Core> = ret
            .iter()
            .map(|v| match v {
                V::C(c) => *c,
                v => panic!("Return of {v:?}"),
            })
            .collect();
        match (result, rval) {
            (None, None) => {
                if cores.is_empty() {
                    Ok(())
                } else {
                    Err(format!("returned {cores:?} for no result"))
                }
            }
            (Some(t), Some(v)) => {
                if retptr {
                    let [Core::Ptr(a)] = cores.as_slice() else {
                        return Err(format!("retptr export returned {cores:?}"));
                    };
                    let g = load(&abi, it.mem, t, *a);
                    if norm(&g) == norm(v) {
                        Ok(())
                    } else {
                        Err(format!("return area holds {g:?}"))
                    }
                } else {
                    let bits: Vec<u64> = cores.iter().map(|c| c.bits()).collect();
                    let g = lift_flat(&abi, it.mem, t, &mut bits.iter());
                    if norm(&g) == norm(v) {
                        Ok(())
                    } else {
                        Err(format!("flat return decodes to {g:?}"))
                    }
                }
            }
            _ => unreachable!(),
        }
    }));
    match r {
        Ok(Ok(())) => {}
        Ok(Err(e)) => return Err(format!("[export] {e}")),
        Err(e) => return Err(format!("[export] panic: {}", pmsg(e))),
    }
    // ---- (3) async export: lift core args, one interface call, exactly one task.return with the canonical flattening
    let r = catch_unwind(AssertUnwindSafe(|| -> Result<(), String> {
        let sig = resolve.wasm_signature(AbiVariant::GuestExportAsync, &func);
        let got: Vec<Flat> = sig.params.iter().map(|w| concrete(&abi, *w)).collect();
        let want: Vec<Flat> = if indirect {
            vec![abi.ptr_flat()]
        } else {
            flat_params.clone()
        };
        if got != want {
            return Err(format!("async export core params {got:?} vs spec {want:?}"));
        }
        if sig.results.len() != 1 {
            return Err(format!("async export core results {:?}", sig.results));
        }
        let mut rec = Rec::new(&resolve, canon);
        abi::call(
            &resolve,
            AbiVariant::GuestExportAsync,
            LiftLower::LiftArgsLowerResults,
            &func,
            &mut rec,
            true,
        );
        let areas = rec.ret_areas.clone();
        let prog = rec.program();
        let mut mem = Mem::new();
        let args: Vec<Core> = if indirect {
            let (sz, al) = (abi.size(&tuple), abi.align(&tuple));
            let a = mem.alloc(sz, al);
            abi.store(&mut mem, &Val::Tuple(pvals.to_vec()), &tuple, a);
            vec![Core::Ptr(a)]
        } else {
            let mut bits = vec![];
            for (t, v) in params.iter().zip(pvals) {
                bits.extend(abi.lower_flat(&mut mem, v, t).into_iter().map(|(_, b)| b));
            }
            sig.params
                .iter()
                .zip(bits)
                .map(|(w, b)| tag(*w, b))
                .collect()
        };
        let mut it = Interp::new(&abi, &mut mem);
        for (id, s, _a) in &areas {
            let sz = s.bytes as u64 + s.pointers as u64 * p;
            let a = it.mem.alloc(sz.max(1) + 16, 16);
            it.env.insert(*id, V::C(Core::Ptr(a)));
        }
        it.args = args.into_iter().map(V::C).collect();
        let (e2, pv, rv) = (err.clone(), pvals.to_vec(), rval.clone());
        it.on_call_iface = Some(Box::new(move |a| {
            if norm(&Val::Tuple(a.to_vec())) != norm(&Val::Tuple(pv.clone())) {
                *e2.borrow_mut() = Some(format!("async implementation saw {a:?}"));
            }
            rv.clone()
        }));
        it.run(&prog);
        if let Some(e) = err.borrow_mut().take() {
            return Err(e);
        }
        if it.task_returned.len() != 1 {
            return Err(format!("{} task.return calls", it.task_returned.len()));
        }
        if it.returned.is_some() {
            return Err("async export also emitted Return".into());
        }
        let tr = &it.task_returned[0];
        let bits: Vec<u64> = tr.iter().map(|c| c.bits()).collect();
        match (result, rval) {
            (None, None) => {
                if tr.is_empty() {
                    Ok(())
                } else {
                    Err(format!("task.return args {tr:?} for no result"))
                }
            }
            (Some(t), Some(v)) => {
                let fl = abi.flatten(t);
                let g = if fl.len() > 16 {
                    if bits.len() != 1 {
                        return Err(format!("task.return expected 1 pointer, got {tr:?}"));
                    }
                    load(&abi, it.mem, t, bits[0])
                } else {
                    if bits.len() != fl.len() {
                        return Err(format!(
                            "task.return arity {} vs spec {}",
                            bits.len(),
                            fl.len()
                        ));
                    }
                    lift_flat(&abi, it.mem, t, &mut bits.iter())
                };
                if norm(&g) == norm(v) {
                    Ok(())
                } else {
                    Err(format!("task.return carried {g:?}"))
                }
            }
            _ => unreachable!(),
        }
    }));
    match r {
        Ok(Ok(())) => {}
        Ok(Err(e)) => return Err(format!("[async export] {e}")),
        Err(e) => return Err(format!("[async export] panic: {}", pmsg(e))),
    }
    Ok(())
}

fn pmsg(e: Box<dyn std::any::Any + Send>) -> String {
    e.downcast_ref::<String>()
        .cloned()
        .or_else(|| e.downcast_ref::<&str>().map(|s| s.to_string()))
        .unwrap_or_default()
}

fn main() {
    std::panic::set_hook(Box::new(|_| {}));
    for n in [15usize, 16, 17] {
        for extra in [0usize, 1] {
            let mut ps = vec![Ty::Tuple(vec![Ty::U32; n])];
            let mut pv = vec![Val::Tuple((0..n).map(|i| Val::U32(i as u32)).collect())];
            for _ in 0..extra {
                ps.push(Ty::U8);
                pv.push(Val::U8(7));
            }
            for p in [4, 8] {
                if let Err(e) = check_call(
                    &ps,
                    &Some(Ty::Tuple(vec![Ty::U32; n])),
                    &pv,
                    &Some(pv[0].clone()),
                    p,
                    true,
                ) {
                    println!(
                        "TARGETED n={n} extra={extra} p={p}: {}",
                        e.chars().take(160).collect::<String>()
                    );
                }
            }
        }
    }
    println!("targeted flat-limit cases done");
    let cases: u32 = std::env::args()
        .nth(1)
        .and_then(|s| s.parse().ok())
        .unwrap_or(2000);
    let mut seed = [0u8; 32];
    seed[0] = 7;
    let mut runner = TestRunner::new_with_rng(
        Config {
            cases,
            failure_persistence: None,
            max_shrink_iters: 4000,
            ..Config::default()
        },
        TestRng::from_seed(RngAlgorithm::ChaCha, &seed),
    );
    let _ = RngSeed::Random;
    let strat = ty().prop_flat_map(|t| {
        let v = val(&t);
        (
            Just(t),
            v,
            prop_oneof![Just(4u64), Just(8u64)],
            any::<bool>(),
        )
    });
    let n = std::cell::Cell::new(0u64);
    let r = runner.run(&strat, |(t, v, p, canon)| {
        n.set(n.get() + 1);
        check(&t, &v, p, canon).map_err(|e| TestCaseError::fail(e))
    });
    println!("cases run: {}", n.get());
    match r {
        Ok(()) => println!("all passed"),
        Err(e) => println!("FAILED: {e}"),
    }
    // C02
    let small = || prop_oneof![4 => leaf(), 1 => ty()];
    let fstrat = (
        prop::collection::vec(small(), 0..20),
        prop::option::of(ty().prop_filter("no borrow in result", |t| !has_borrow(t))),
    )
        .prop_flat_map(|(ps, r)| {
            let pv: Vec<BoxedStrategy<Val>> = ps.iter().map(val).collect();
            let rv = match &r {
                Some(t) => val(t).prop_map(Some).boxed(),
                None => Just(None).boxed(),
            };
            (
                Just(ps),
                Just(r),
                pv,
                rv,
                prop_oneof![Just(4u64), Just(8u64)],
                any::<bool>(),
            )
        });
    let n2 = std::cell::Cell::new(0u64);
    let mut seed2 = [0u8; 32];
    seed2[0] = 9;
    let mut runner = TestRunner::new_with_rng(
        Config {
            cases,
            failure_persistence: None,
            max_shrink_iters: 4000,
            ..Config::default()
        },
        TestRng::from_seed(RngAlgorithm::ChaCha, &seed2),
    );
    let r = runner.run(&fstrat, |(ps, r, pv, rv, p, canon)| {
        n2.set(n2.get() + 1);
        check_call(&ps, &r, &pv, &rv, p, canon).map_err(TestCaseError::fail)
    });
    println!("call cases run: {}", n2.get());
    match r {
        Ok(()) => println!("all call cases passed"),
        Err(e) => println!("CALL FAILED: {e}"),
    }
}
