//! C02 — call glue follows the canonical calling convention.
use crate::sim::*;
use crate::{guarded, make_resolve};
use proptest::prelude::*;
use refabi::*;
use serde::{Deserialize, Serialize};
use std::cell::RefCell;
use std::rc::Rc;
use vcommon::{CaseResult, Check, Failure, Obs};
use wit_bindgen_core::abi::{self, AbiVariant, LiftLower, WasmType};
use wit_parser::*;

#[derive(Clone, Debug, Hash, Serialize, Deserialize)]
pub struct CallCase {
    pub params: Vec<Ty>,
    pub result: Option<Ty>,
    pub pvals: Vec<Val>,
    pub rval: Option<Val>,
    pub p: u8,
    pub canon: u8,
}

pub fn tag(w: WasmType, bits: u64) -> Core {
    use WasmType as W;
    match w {
        W::I32 => Core::I32(bits as u32),
        W::I64 => Core::I64(bits),
        W::F32 => Core::F32(bits as u32),
        W::F64 => Core::F64(bits),
        W::Pointer => Core::Ptr(bits),
        W::Length => Core::Len(bits),
        W::PointerOrI64 => Core::P64(bits),
    }
}

pub fn concrete(abi: &Abi, w: WasmType) -> Flat {
    use WasmType as W;
    match w {
        W::I32 => Flat::I32,
        W::I64 | W::PointerOrI64 => Flat::I64,
        W::F32 => Flat::F32,
        W::F64 => Flat::F64,
        W::Pointer | W::Length => abi.ptr_flat(),
    }
}

fn flat_to_core(f: Flat, b: u64) -> Core {
    match f {
        Flat::I32 => Core::I32(b as u32),
        Flat::I64 => Core::I64(b),
        Flat::F32 => Core::F32(b as u32),
        Flat::F64 => Core::F64(b),
    }
}

struct Cx {
    resolve: Resolve,
    func: Function,
    abi: Abi,
    tuple: Ty,
    flat_params: Vec<Flat>,
    flat_results: Vec<Flat>,
    indirect: bool,
    retptr: bool,
}

fn setup(c: &CallCase) -> Result<Cx, Failure> {
    let mut decls = vec![];
    let ps: Vec<String> = c
        .params
        .iter()
        .enumerate()
        .map(|(i, t)| format!("p{i}: {}", wit_ty(t, &mut decls)))
        .collect();
    let rs = match &c.result {
        Some(t) => format!(" -> {}", wit_ty(t, &mut decls)),
        None => String::new(),
    };
    let resolve = make_resolve(&decls, &format!("f: func({}){rs};", ps.join(", ")))
        .unwrap_or_else(|e| vcommon::harness_error(format!("generated WIT rejected: {e}")));
    let func = resolve.interfaces.iter().next().unwrap().1.functions["f"].clone();
    let abi = Abi { p: c.p as u64 };
    let flat_params: Vec<Flat> = c.params.iter().flat_map(|t| abi.flatten(t)).collect();
    let flat_results: Vec<Flat> = c.result.as_ref().map(|t| abi.flatten(t)).unwrap_or_default();
    Ok(Cx {
        resolve,
        func,
        tuple: Ty::Tuple(c.params.to_vec()),
        indirect: flat_params.len() > 16,
        retptr: flat_results.len() > 1,
        flat_params,
        flat_results,
        abi,
    })
}

fn expect_sig(cx: &Cx, variant: AbiVariant, want_p: Vec<Flat>, want_r: Vec<Flat>) -> Result<(), String> {
    let sig = cx.resolve.wasm_signature(variant, &cx.func);
    let got: Vec<Flat> = sig.params.iter().map(|w| concrete(&cx.abi, *w)).collect();
    if got != want_p {
        return Err(format!("core-signature: {variant:?} core params {got:?} vs canonical {want_p:?}"));
    }
    let got_r: Vec<Flat> = sig.results.iter().map(|w| concrete(&cx.abi, *w)).collect();
    if got_r != want_r {
        return Err(format!("core-signature: {variant:?} core results {got_r:?} vs canonical {want_r:?}"));
    }
    Ok(())
}

fn bind_areas(it: &mut Interp<'_>, areas: &[(usize, ArchitectureSize, Alignment)], p: u64) -> Vec<(u64, u64)> {
    let mut out = vec![];
    for (id, s, _a) in areas {
        let sz = s.bytes as u64 + s.pointers as u64 * p;
        let a = it.mem.alloc(sz.max(1) + 16, 16);
        it.env.insert(*id, V::C(Core::Ptr(a)));
        out.push((a, sz));
    }
    out
}

/// (GuestImport, LowerArgsLiftResults, sync): guest calls an imported core function
fn import_lower(cx: &Cx, c: &CallCase) -> Result<(), String> {
    let abi = &cx.abi;
    let want: Vec<Flat> = if cx.indirect { vec![abi.ptr_flat()] } else { cx.flat_params.clone() }
        .into_iter()
        .chain(cx.retptr.then(|| abi.ptr_flat()))
        .collect();
    let want_r = if cx.retptr { vec![] } else { cx.flat_results.clone() };
    expect_sig(cx, AbiVariant::GuestImport, want, want_r)?;
    let mut rec = Rec::new(&cx.resolve, c.canon);
    abi::call(&cx.resolve, AbiVariant::GuestImport, LiftLower::LowerArgsLiftResults, &cx.func, &mut rec, false);
    let areas = rec.ret_areas.clone();
    let prog = rec.program();
    let mut mem = Mem::new();
    let mut it = Interp::new(abi, &mut mem);
    let bound = bind_areas(&mut it, &areas, abi.p);
    it.args = c.pvals.iter().cloned().map(V::I).collect();
    let err: Rc<RefCell<Option<String>>> = Rc::new(RefCell::new(None));
    let (e2, pv, rv, tu, res_t, ps_t, indirect, retptr) = (
        err.clone(),
        c.pvals.to_vec(),
        c.rval.clone(),
        cx.tuple.clone(),
        c.result.clone(),
        c.params.to_vec(),
        cx.indirect,
        cx.retptr,
    );
    let (psize, rsize) = (abi.size(&cx.tuple), c.result.as_ref().map(|t| abi.size(t)).unwrap_or(0));
    let bound2 = bound.clone();
    it.on_call_wasm = Some(Box::new(move |abi, mem, _decl, args| {
        let bits: Vec<u64> = args.iter().map(|c| c.bits()).collect();
        let seen = if indirect {
            // the parameter record must lie in a caller-provided area large enough
            if !bound2.iter().any(|(a, s)| bits[0] >= *a && bits[0] + psize <= a + s + 16) {
                *e2.borrow_mut() = Some(format!("parameter-record: pointer {} is not inside a return-pointer area of >= {psize} bytes ({bound2:?})", bits[0]));
            }
            if bits[0] % abi.align(&tu) != 0 {
                *e2.borrow_mut() = Some("parameter-record: misaligned".to_string());
            }
            load(abi, mem, &tu, bits[0])
        } else {
            let mut i = bits.iter();
            Val::Tuple(ps_t.iter().map(|t| lift_flat(abi, mem, t, &mut i)).collect())
        };
        if norm(&seen) != norm(&Val::Tuple(pv.clone())) {
            *e2.borrow_mut() = Some(format!("arguments: callee saw {seen:?}"));
        }
        match (&res_t, &rv) {
            (Some(t), Some(v)) => {
                if retptr {
                    let at = *bits.last().unwrap();
                    if !bound2.iter().any(|(a, s)| at >= *a && at + rsize <= a + s + 16) {
                        *e2.borrow_mut() = Some(format!("return-area: pointer {at} not inside a return-pointer area of >= {rsize} bytes"));
                    }
                    abi.store(mem, v, t, at);
                    vec![]
                } else {
                    abi.lower_flat(mem, v, t).into_iter().map(|(f, b)| flat_to_core(f, b)).collect()
                }
            }
            _ => vec![],
        }
    }));
    it.run(&prog);
    if let Some(e) = err.borrow_mut().take() {
        return Err(e);
    }
    if it.ncalls != 1 {
        return Err(format!("call-count: {} core calls", it.ncalls));
    }
    let ret = it.returned.clone().ok_or("no-return: glue emitted no Return")?;
    match (&c.rval, ret.as_slice()) {
        (None, []) => Ok(()),
        (Some(v), [V::I(g)]) if norm(g) == norm(v) => Ok(()),
        (a, b) => Err(format!("result: import glue returned {b:?}, expected {a:?}")),
    }
}

fn lowered_args(cx: &Cx, c: &CallCase, mem: &mut Mem, variant: AbiVariant, limit: usize) -> (Vec<Core>, Option<(u64, u64, u64)>) {
    let abi = &cx.abi;
    let sig = cx.resolve.wasm_signature(variant, &cx.func);
    if cx.flat_params.len() > limit {
        let (sz, al) = (abi.size(&cx.tuple), abi.align(&cx.tuple));
        let a = mem.alloc(sz, al);
        abi.store(mem, &Val::Tuple(c.pvals.to_vec()), &cx.tuple, a);
        (vec![Core::Ptr(a)], Some((a, sz, al)))
    } else {
        let mut bits = vec![];
        for (t, v) in c.params.iter().zip(&c.pvals) {
            bits.extend(abi.lower_flat(mem, v, t).into_iter().map(|(_, b)| b));
        }
        (sig.params.iter().zip(bits).map(|(w, b)| tag(*w, b)).collect(), None)
    }
}

/// (GuestExport, LiftArgsLowerResults, sync): core export entry point
fn export_lift(cx: &Cx, c: &CallCase) -> Result<(), String> {
    let abi = &cx.abi;
    let want = if cx.indirect { vec![abi.ptr_flat()] } else { cx.flat_params.clone() };
    let want_r = if cx.retptr { vec![abi.ptr_flat()] } else { cx.flat_results.clone() };
    expect_sig(cx, AbiVariant::GuestExport, want, want_r)?;
    let mut rec = Rec::new(&cx.resolve, c.canon);
    abi::call(&cx.resolve, AbiVariant::GuestExport, LiftLower::LiftArgsLowerResults, &cx.func, &mut rec, false);
    let areas = rec.ret_areas.clone();
    let prog = rec.program();
    let mut mem = Mem::new();
    let (args, record) = lowered_args(cx, c, &mut mem, AbiVariant::GuestExport, 16);
    let mut it = Interp::new(abi, &mut mem);
    bind_areas(&mut it, &areas, abi.p);
    it.args = args.into_iter().map(V::C).collect();
    let err: Rc<RefCell<Option<String>>> = Rc::new(RefCell::new(None));
    let (e2, pv, rv) = (err.clone(), c.pvals.to_vec(), c.rval.clone());
    it.on_call_iface = Some(Box::new(move |a| {
        if norm(&Val::Tuple(a.to_vec())) != norm(&Val::Tuple(pv.clone())) {
            *e2.borrow_mut() = Some(format!("arguments: implementation saw {a:?}"));
        }
        rv.clone()
    }));
    it.run(&prog);
    if let Some(e) = err.borrow_mut().take() {
        return Err(e);
    }
    if it.ncalls != 1 {
        return Err(format!("call-count: {} interface calls", it.ncalls));
    }
    if let Some(rec) = record {
        let n = it.freed.iter().filter(|f| **f == rec).count();
        if n != 1 {
            return Err(format!(
                "parameter-record: caller-allocated record {rec:?} freed {n} times (freed: {:?})",
                it.freed
            ));
        }
    } else if !it.freed.is_empty() {
        return Err(format!("parameter-record: glue freed {:?} although parameters were flat", it.freed));
    }
    let ret = it.returned.clone().ok_or("no-return: glue emitted no Return")?;
    let cores: Vec<Core> = ret
        .iter()
        .map(|v| match v {
            V::C(c) => *c,
            v => panic!("Return of {v:?}"),
        })
        .collect();
    match (&c.result, &c.rval) {
        (None, None) => {
            if cores.is_empty() {
                Ok(())
            } else {
                Err(format!("result: returned {cores:?} for no result"))
            }
        }
        (Some(t), Some(v)) => {
            if cx.retptr {
                let [Core::Ptr(a)] = cores.as_slice() else {
                    return Err(format!("result: retptr export returned {cores:?}"));
                };
                let g = load(abi, it.mem, t, *a);
                if norm(&g) == norm(v) {
                    Ok(())
                } else {
                    Err(format!("result: return area holds {g:?}"))
                }
            } else {
                for (cr, f) in cores.iter().zip(&cx.flat_results) {
                    if crate::values::core_flat(abi, cr) != *f {
                        return Err(format!("result: core result {cr:?} is not {f:?}"));
                    }
                }
                let bits: Vec<u64> = cores.iter().map(|c| c.bits()).collect();
                if bits.len() != cx.flat_results.len() {
                    return Err(format!("result: {} core results, canonical {}", bits.len(), cx.flat_results.len()));
                }
                let g = lift_flat(abi, it.mem, t, &mut bits.iter());
                if norm(&g) == norm(v) {
                    Ok(())
                } else {
                    Err(format!("result: flat return decodes to {g:?}"))
                }
            }
        }
        _ => unreachable!(),
    }
}

/// (GuestExportAsync | GuestExport, LiftArgsLowerResults, async): async export
fn export_async(cx: &Cx, c: &CallCase, variant: AbiVariant) -> Result<(), String> {
    let abi = &cx.abi;
    let sig = cx.resolve.wasm_signature(AbiVariant::GuestExportAsync, &cx.func);
    let got: Vec<Flat> = sig.params.iter().map(|w| concrete(abi, *w)).collect();
    let want: Vec<Flat> = if cx.indirect { vec![abi.ptr_flat()] } else { cx.flat_params.clone() };
    if got != want {
        return Err(format!("core-signature: async export core params {got:?} vs canonical {want:?}"));
    }
    if sig.results.len() != 1 || concrete(abi, sig.results[0]) != Flat::I32 {
        return Err(format!("core-signature: async export core results {:?}", sig.results));
    }
    let mut rec = Rec::new(&cx.resolve, c.canon);
    abi::call(&cx.resolve, variant, LiftLower::LiftArgsLowerResults, &cx.func, &mut rec, true);
    let areas = rec.ret_areas.clone();
    let prog = rec.program();
    let mut mem = Mem::new();
    let (args, _record) = lowered_args(cx, c, &mut mem, AbiVariant::GuestExportAsync, 16);
    let mut it = Interp::new(abi, &mut mem);
    bind_areas(&mut it, &areas, abi.p);
    it.args = args.into_iter().map(V::C).collect();
    let err: Rc<RefCell<Option<String>>> = Rc::new(RefCell::new(None));
    let (e2, pv, rv) = (err.clone(), c.pvals.to_vec(), c.rval.clone());
    it.on_call_iface = Some(Box::new(move |a| {
        if norm(&Val::Tuple(a.to_vec())) != norm(&Val::Tuple(pv.clone())) {
            *e2.borrow_mut() = Some(format!("arguments: async implementation saw {a:?}"));
        }
        rv.clone()
    }));
    it.run(&prog);
    if let Some(e) = err.borrow_mut().take() {
        return Err(e);
    }
    if it.ncalls != 1 {
        return Err(format!("call-count: {} interface calls", it.ncalls));
    }
    if it.task_returned.len() != 1 {
        return Err(format!("task-return-count: {} task.return calls", it.task_returned.len()));
    }
    if it.returned.is_some() {
        return Err("task-return-count: async export also emitted Return".into());
    }
    let (tr_decl, tr) = &it.task_returned[0];
    let bits: Vec<u64> = tr.iter().map(|c| c.bits()).collect();
    match (&c.result, &c.rval) {
        (None, None) => {
            if tr.is_empty() && tr_decl.is_empty() {
                Ok(())
            } else {
                Err(format!("task-return: args {tr:?} for no result"))
            }
        }
        (Some(t), Some(v)) => {
            let fl = abi.flatten(t);
            let want_decl: Vec<Flat> = if fl.len() > 16 { vec![abi.ptr_flat()] } else { fl.clone() };
            let got_decl: Vec<Flat> = tr_decl.iter().map(|w| concrete(abi, *w)).collect();
            if got_decl != want_decl {
                return Err(format!("task-return: declared core params {got_decl:?} vs canonical {want_decl:?}"));
            }
            let g = if fl.len() > 16 {
                if bits.len() != 1 {
                    return Err(format!("task-return: expected 1 pointer, got {tr:?}"));
                }
                load(abi, it.mem, t, bits[0])
            } else {
                if bits.len() != fl.len() {
                    return Err(format!("task-return: arity {} vs canonical {}", bits.len(), fl.len()));
                }
                lift_flat(abi, it.mem, t, &mut bits.iter())
            };
            if norm(&g) == norm(v) {
                Ok(())
            } else {
                Err(format!("task-return: carried {g:?}"))
            }
        }
        _ => unreachable!(),
    }
}

/// (GuestExport, LowerArgsLiftResults, sync): host-side glue calling a guest export
fn export_lower(cx: &Cx, c: &CallCase) -> Result<(), String> {
    let abi = &cx.abi;
    let mut rec = Rec::new(&cx.resolve, c.canon);
    abi::call(&cx.resolve, AbiVariant::GuestExport, LiftLower::LowerArgsLiftResults, &cx.func, &mut rec, false);
    let areas = rec.ret_areas.clone();
    let prog = rec.program();
    let mut mem = Mem::new();
    let mut it = Interp::new(abi, &mut mem);
    bind_areas(&mut it, &areas, abi.p);
    it.args = c.pvals.iter().cloned().map(V::I).collect();
    let err: Rc<RefCell<Option<String>>> = Rc::new(RefCell::new(None));
    let (e2, pv, rv, tu, res_t, ps_t, indirect, retptr) = (
        err.clone(),
        c.pvals.to_vec(),
        c.rval.clone(),
        cx.tuple.clone(),
        c.result.clone(),
        c.params.to_vec(),
        cx.indirect,
        cx.retptr,
    );
    let want_alloc = (abi.size(&cx.tuple), abi.align(&cx.tuple));
    it.on_call_wasm = Some(Box::new(move |abi, mem, _decl, args| {
        let bits: Vec<u64> = args.iter().map(|c| c.bits()).collect();
        let seen = if indirect {
            // must be a block obtained through Malloc with the record's size and alignment
            if !mem.allocs.iter().any(|(p, s, a)| *p == bits[0] && (*s, *a) == want_alloc) {
                *e2.borrow_mut() = Some(format!("parameter-record: pointer {} is not a cabi_realloc block of size/align {want_alloc:?}", bits[0]));
            }
            load(abi, mem, &tu, bits[0])
        } else {
            let mut i = bits.iter();
            Val::Tuple(ps_t.iter().map(|t| lift_flat(abi, mem, t, &mut i)).collect())
        };
        if norm(&seen) != norm(&Val::Tuple(pv.clone())) {
            *e2.borrow_mut() = Some(format!("arguments: guest export saw {seen:?}"));
        }
        match (&res_t, &rv) {
            (Some(t), Some(v)) => {
                if retptr {
                    let at = mem.alloc(abi.size(t), abi.align(t));
                    abi.store(mem, v, t, at);
                    vec![Core::Ptr(at)]
                } else {
                    abi.lower_flat(mem, v, t).into_iter().map(|(f, b)| flat_to_core(f, b)).collect()
                }
            }
            _ => vec![],
        }
    }));
    it.run(&prog);
    if let Some(e) = err.borrow_mut().take() {
        return Err(e);
    }
    if it.ncalls != 1 {
        return Err(format!("call-count: {} core calls", it.ncalls));
    }
    let ret = it.returned.clone().ok_or("no-return: glue emitted no Return")?;
    match (&c.rval, ret.as_slice()) {
        (None, []) => Ok(()),
        (Some(v), [V::I(g)]) if norm(g) == norm(v) => Ok(()),
        (a, b) => Err(format!("result: host glue returned {b:?}, expected {a:?}")),
    }
}

/// (GuestImport, LiftArgsLowerResults, sync): host-side glue implementing an import
fn import_lift(cx: &Cx, c: &CallCase) -> Result<(), String> {
    let abi = &cx.abi;
    let sig = cx.resolve.wasm_signature(AbiVariant::GuestImport, &cx.func);
    let mut rec = Rec::new(&cx.resolve, c.canon);
    abi::call(&cx.resolve, AbiVariant::GuestImport, LiftLower::LiftArgsLowerResults, &cx.func, &mut rec, false);
    let areas = rec.ret_areas.clone();
    let prog = rec.program();
    let mut mem = Mem::new();
    let (mut args, _rec) = lowered_args(cx, c, &mut mem, AbiVariant::GuestImport, 16);
    let mut ret_at = None;
    if cx.retptr {
        let t = c.result.as_ref().unwrap();
        let at = mem.alloc(abi.size(t), abi.align(t));
        ret_at = Some(at);
        args.push(Core::Ptr(at));
    }
    if args.len() != sig.params.len() {
        return Err(format!("core-signature: import has {} core params, canonical {}", sig.params.len(), args.len()));
    }
    let mut it = Interp::new(abi, &mut mem);
    bind_areas(&mut it, &areas, abi.p);
    it.args = args.into_iter().map(V::C).collect();
    let err: Rc<RefCell<Option<String>>> = Rc::new(RefCell::new(None));
    let (e2, pv, rv) = (err.clone(), c.pvals.to_vec(), c.rval.clone());
    it.on_call_iface = Some(Box::new(move |a| {
        if norm(&Val::Tuple(a.to_vec())) != norm(&Val::Tuple(pv.clone())) {
            *e2.borrow_mut() = Some(format!("arguments: host implementation saw {a:?}"));
        }
        rv.clone()
    }));
    it.run(&prog);
    if let Some(e) = err.borrow_mut().take() {
        return Err(e);
    }
    if it.ncalls != 1 {
        return Err(format!("call-count: {} interface calls", it.ncalls));
    }
    if !it.freed.is_empty() {
        return Err(format!("parameter-record: import-side glue freed {:?}", it.freed));
    }
    let ret = it.returned.clone().ok_or("no-return: glue emitted no Return")?;
    let cores: Vec<Core> = ret
        .iter()
        .map(|v| match v {
            V::C(c) => *c,
            v => panic!("Return of {v:?}"),
        })
        .collect();
    match (&c.result, &c.rval) {
        (None, None) => {
            if cores.is_empty() { Ok(()) } else { Err(format!("result: returned {cores:?} for no result")) }
        }
        (Some(t), Some(v)) => {
            if let Some(at) = ret_at {
                if !cores.is_empty() {
                    return Err(format!("result: retptr import returned {cores:?}"));
                }
                let g = load(abi, it.mem, t, at);
                if norm(&g) == norm(v) { Ok(()) } else { Err(format!("result: return pointer holds {g:?}")) }
            } else {
                let bits: Vec<u64> = cores.iter().map(|c| c.bits()).collect();
                if bits.len() != cx.flat_results.len() {
                    return Err(format!("result: {} core results, canonical {}", bits.len(), cx.flat_results.len()));
                }
                let g = lift_flat(abi, it.mem, t, &mut bits.iter());
                if norm(&g) == norm(v) { Ok(()) } else { Err(format!("result: flat return decodes to {g:?}")) }
            }
        }
        _ => unreachable!(),
    }
}

/// The async-import pieces backends assemble: parameters lowered flat when they fit
/// MAX_FLAT_ASYNC_PARAMS=4 else into a record; result read from the results area.
fn import_async_signature(cx: &Cx) -> Result<(), String> {
    let abi = &cx.abi;
    let sig = cx.resolve.wasm_signature(AbiVariant::GuestImportAsync, &cx.func);
    let mut want: Vec<Flat> = if cx.flat_params.len() > 4 { vec![abi.ptr_flat()] } else { cx.flat_params.clone() };
    if !cx.flat_results.is_empty() {
        want.push(abi.ptr_flat());
    }
    let got: Vec<Flat> = sig.params.iter().map(|w| concrete(abi, *w)).collect();
    if got != want {
        return Err(format!("core-signature: async import core params {got:?} vs canonical {want:?}"));
    }
    let got_r: Vec<Flat> = sig.results.iter().map(|w| concrete(abi, *w)).collect();
    if got_r != vec![Flat::I32] {
        return Err(format!("core-signature: async import core results {got_r:?} vs canonical [I32]"));
    }
    if sig.indirect_params != (cx.flat_params.len() > 4) {
        return Err(format!("core-signature: async import indirect_params={} for {} flat params", sig.indirect_params, cx.flat_params.len()));
    }
    Ok(())
}

fn nontrivial(cx: &Cx) -> Option<String> {
    let np = cx.flat_params.len();
    let nr = cx.flat_results.len();
    let mut tags = vec![];
    if (15..=17).contains(&np) {
        tags.push(format!("params-at-16-limit:{np}"));
    }
    if (3..=5).contains(&np) {
        tags.push(format!("params-at-async-4-limit:{np}"));
    }
    if np > 17 {
        tags.push("indirect-params".into());
    }
    if nr >= 1 && nr <= 2 {
        tags.push(format!("results-at-1-limit:{nr}"));
    }
    if nr > 2 {
        tags.push("retptr".into());
    }
    if (15..=17).contains(&nr) {
        tags.push(format!("task-return-at-16-limit:{nr}"));
    }
    if tags.is_empty() { None } else { Some(tags.join(",")) }
}

pub fn prop(c: &CallCase, obs: &mut Obs) -> CaseResult {
    let cx = setup(c)?;
    guarded("import-lower", || import_lower(&cx, c))?;
    guarded("export-lift", || export_lift(&cx, c))?;
    guarded("export-async", || export_async(&cx, c, AbiVariant::GuestExportAsync))?;
    guarded("export-async-via-GuestExport", || export_async(&cx, c, AbiVariant::GuestExport))?;
    guarded("export-lower-host", || export_lower(&cx, c))?;
    guarded("import-lift-host", || import_lift(&cx, c))?;
    guarded("import-async-signature", || import_async_signature(&cx))?;
    obs.evals = 7;
    if let Some(tags) = nontrivial(&cx) {
        for t in tags.split(',') {
            obs.label(t.split(':').next().unwrap().to_string());
        }
        obs.nontrivial_by(&(format!("{:?}{:?}", c.params, c.result), c.p, c.canon));
        if c.params.len() <= 3 && format!("{:?}", c.params).len() < 200 {
            obs.sample = Some(serde_json::json!({"params": format!("{:?}", c.params), "result": format!("{:?}", c.result), "p": c.p, "flat_params": cx.flat_params.len(), "flat_results": cx.flat_results.len()}));
        }
    }
    Ok(())
}

fn case_strategy() -> impl Strategy<Value = CallCase> {
    let small = || prop_oneof![5 => gen::leaf(), 1 => gen::ty_sized(2, 8, 3)];
    // shapes that land on the limits by construction
    let shaped = || {
        prop_oneof![
            (prop_oneof![Just(3usize), Just(4), Just(5), Just(15), Just(16), Just(17)], gen::scalar()).prop_map(|(n, s)| Ty::Tuple(vec![s; n])),
            (prop_oneof![Just(15u32), Just(16), Just(17)], gen::scalar()).prop_map(|(n, s)| Ty::FixedList(Box::new(s), n)),
            prop_oneof![Just(14usize), Just(15), Just(16)].prop_map(|n| Ty::Variant(vec![("a".into(), Some(Ty::Tuple(vec![Ty::U32; n]))), ("b".into(), Some(Ty::F64))])),
            (prop_oneof![Just(1usize), Just(2), Just(3)], gen::scalar()).prop_map(|(n, s)| Ty::Tuple(vec![s; n])),
        ]
    };
    let params = prop_oneof![
        5 => prop::collection::vec(small(), 0..20),
        2 => (prop::collection::vec(gen::scalar(), 0..3), shaped()).prop_map(|(mut v, s)| { v.push(s); v }),
        1 => prop_oneof![Just(3usize), Just(4), Just(5), Just(15), Just(16), Just(17)].prop_flat_map(|n| prop::collection::vec(gen::scalar(), n)),
    ];
    let result = prop_oneof![
        1 => Just(None),
        3 => gen::ty().prop_map(Some),
        2 => shaped().prop_map(Some),
    ]
    .prop_map(|r: Option<Ty>| r.filter(|t| !has_borrow(t)));
    (params, result).prop_flat_map(|(ps, r)| {
        let pv: Vec<BoxedStrategy<Val>> = ps.iter().map(gen::val).collect();
        let rv = match &r {
            Some(t) => gen::val(t).prop_map(Some).boxed(),
            None => Just(None).boxed(),
        };
        (Just(ps), Just(r), pv, rv, prop_oneof![Just(4u8), Just(8u8)], 0u8..3).prop_map(|(params, result, pvals, rval, p, canon)| CallCase { params, result, pvals, rval, p, canon })
    })
}

pub fn run(check: &mut Check) {
    check.rule = "signatures with 0..=19 parameters (leaf-biased types, plus constructed tuples/fixed lists/variants with exactly 3,4,5,15,16,17 flat values) and optional result (incl. exactly 1,2,15,16,17 flats), values from the boundary-biased generator, P in {4,8}, canon mode 0..2; \
        per signature 7 evaluations: (GuestImport,Lower,sync), (GuestExport,Lift,sync), (GuestExportAsync,Lift,async), (GuestExport,Lift,async), host-side (GuestExport,Lower,sync) and (GuestImport,Lift,sync), and the GuestImportAsync core signature; \
        oracle: canonical core signature from the reference flattening, exactly one core/interface call (and one task.return for async), arguments/results equal to reference lowering (flat, parameter record, return area, task.return flat or pointer), caller-allocated parameter record freed exactly once; \
        non-trivial = flat params within 1 of 16 or of 4, indirect params, results at the 1-flat limit, retptr, or task.return at the 16 limit; distinct by (signature, P, canon). \
        Not in domain: inconsistent (variant, async) pairs that no caller produces and GuestImportAsync/GuestExportAsync with Lower, which hit documented todo!()s".into();
    check.assumptions.push("Resolve::wasm_signature (wit-parser) is compared against the reference flattening, not trusted".into());
    for rf in check.regression_files() {
        if let Ok(c) = serde_json::from_value::<CallCase>(rf.case.clone()) {
            check.case("regression", &c, prop);
        }
    }
    // constructed limit cases
    let mut k = 0;
    for n in [15usize, 16, 17] {
        for extra in [0usize, 1] {
            for p in [4u8, 8] {
                let mut ps = vec![Ty::Tuple(vec![Ty::U32; n])];
                let mut pv = vec![Val::Tuple((0..n).map(|i| Val::U32(i as u32)).collect())];
                for _ in 0..extra {
                    ps.push(Ty::U8);
                    pv.push(Val::U8(7));
                }
                let c = CallCase { params: ps, result: Some(Ty::Tuple(vec![Ty::U32; n])), rval: Some(pv[0].clone()), pvals: pv, p, canon: 1 };
                check.case(&format!("constructed-{k}"), &c, prop);
                k += 1;
            }
        }
    }
    let n = check.tier.pick(30_000, 400_000);
    check.prop("signatures", case_strategy, n, prop);
}
