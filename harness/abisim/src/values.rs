//! C01 (encode/decode per spec) and C03 (cleanup frees exactly what lowering
//! allocated) over generated (type, value, pointer width, canonical-list mode).
use crate::sim::*;
use crate::{guarded, make_resolve, short};
use proptest::prelude::*;
use refabi::*;
use serde::{Deserialize, Serialize};
use vcommon::{CaseResult, Check, Failure, Obs};
use wit_bindgen_core::abi::{self, AbiVariant, LiftLower};
use wit_parser::*;

#[derive(Clone, Debug, Hash, Serialize, Deserialize)]
pub struct ValCase {
    pub ty: Ty,
    pub val: Val,
    /// pointer width: 4 or 8
    pub p: u8,
    /// canonical-list mode: 0 never, 1 numeric primitives, 2 all-bits-valid types
    pub canon: u8,
    /// index into BASES
    pub base: u8,
}

const BASES: &[u64] = &[8, 24, 4096 + 8];

pub fn case_strategy() -> impl Strategy<Value = ValCase> {
    (gen::ty_and_val(), prop_oneof![Just(4u8), Just(8u8)], 0u8..3, 0u8..3).prop_map(
        |((ty, val), p, canon, base)| ValCase {
            ty,
            val,
            p,
            canon,
            base,
        },
    )
}

pub struct Ctx {
    pub resolve: Resolve,
    pub func: Function,
    pub wty: Type,
    pub abi: Abi,
}

pub fn setup(t: &Ty, p: u8, with_result: bool) -> Result<Ctx, Failure> {
    let mut decls = vec![];
    let tn = wit_ty(t, &mut decls);
    let res_ty = if with_result && !has_borrow(t) {
        format!(" -> {tn}")
    } else {
        String::new()
    };
    let resolve = make_resolve(&decls, &format!("f: func(x: {tn}){res_ty};"))
        .unwrap_or_else(|e| vcommon::harness_error(format!("generated WIT rejected: {e}")));
    let func = resolve.interfaces.iter().next().unwrap().1.functions["f"].clone();
    let wty = func.params[0].ty;
    Ok(Ctx {
        resolve,
        func,
        wty,
        abi: Abi { p: p as u64 },
    })
}

fn is_nontrivial(t: &Ty, v: &Val) -> bool {
    // the type contains a constructor whose layout/flattening is not immediate and
    // the value exercises it
    fn walk(t: &Ty, v: &Val) -> bool {
        match (t, v) {
            (Ty::Variant(cs), Val::Variant(i, p)) => {
                let distinct: std::collections::BTreeSet<String> = cs
                    .iter()
                    .filter_map(|(_, t)| t.as_ref())
                    .map(|t| format!("{:?}", Abi { p: 4 }.flatten(t)))
                    .collect();
                (distinct.len() >= 2 && *i > 0)
                    || match (&cs[*i].1, p) {
                        (Some(t), Some(v)) => walk(t, v),
                        _ => false,
                    }
            }
            (Ty::Flags(fs), _) => fs.len() > 32,
            (Ty::List(et), Val::List(l)) => {
                !l.is_empty() && (!matches!(**et, Ty::U8 | Ty::S8 | Ty::U16 | Ty::S16 | Ty::U32 | Ty::S32 | Ty::U64 | Ty::S64 | Ty::F32 | Ty::F64) || l.iter().any(|x| walk(et, x)))
            }
            (Ty::Map(_, _), Val::Map(m)) => !m.is_empty(),
            (Ty::FixedList(..), _) => true,
            (Ty::Record(fs), Val::Record(vs)) => {
                let a = Abi { p: 4 };
                let sum: u64 = fs.iter().map(|(_, t)| a.size(t)).sum();
                sum != a.size(t) || fs.iter().zip(vs).any(|((_, t), v)| walk(t, v))
            }
            (Ty::Tuple(ts), Val::Tuple(vs)) => {
                let a = Abi { p: 4 };
                let sum: u64 = ts.iter().map(|t| a.size(t)).sum();
                sum != a.size(t) || ts.iter().zip(vs).any(|(t, v)| walk(t, v))
            }
            (Ty::Option(t), Val::Option(Some(v))) => walk(t, v),
            (Ty::Result(a, _), Val::Result(Ok(Some(v)))) => a.as_ref().map_or(false, |t| walk(t, v)),
            (Ty::Result(_, b), Val::Result(Err(Some(v)))) => b.as_ref().map_or(false, |t| walk(t, v)),
            _ => false,
        }
    }
    walk(t, v)
}

fn class_of(c: &ValCase) -> (String, String, u8, u8) {
    // distinctness: type shape, value class (variant choices + list lengths), P, canon
    fn vclass(v: &Val, out: &mut String) {
        match v {
            Val::List(l) => {
                out.push_str(&format!("L{}[", l.len().min(5)));
                for x in l.iter().take(2) {
                    vclass(x, out);
                }
                out.push(']');
            }
            Val::Map(m) => out.push_str(&format!("M{}", m.len())),
            Val::Record(f) | Val::Tuple(f) => {
                out.push('(');
                for x in f {
                    vclass(x, out);
                }
                out.push(')');
            }
            Val::Variant(i, p) => {
                out.push_str(&format!("V{i}"));
                if let Some(p) = p {
                    vclass(p, out);
                }
            }
            Val::Enum(i) => out.push_str(&format!("E{i}")),
            Val::Option(o) => {
                out.push_str(if o.is_some() { "S" } else { "N" });
                if let Some(p) = o {
                    vclass(p, out);
                }
            }
            Val::Result(r) => match r {
                Ok(p) => {
                    out.push('O');
                    if let Some(p) = p {
                        vclass(p, out);
                    }
                }
                Err(p) => {
                    out.push('X');
                    if let Some(p) = p {
                        vclass(p, out);
                    }
                }
            },
            Val::Str(s) => out.push_str(&format!("s{}", s.len().min(3))),
            _ => out.push('.'),
        }
    }
    let mut vc = String::new();
    vclass(&c.val, &mut vc);
    (format!("{:?}", c.ty), vc, c.p, c.canon)
}

// ------------------------------------------------------------------ C01

fn check_lower_to_memory(cx: &Ctx, c: &ValCase) -> Result<(), String> {
    let (t, v, abi) = (&c.ty, &c.val, &cx.abi);
    let mut rec = Rec::new(&cx.resolve, c.canon);
    let (addr, value) = (rec.fresh(), rec.fresh());
    abi::lower_to_memory(&cx.resolve, &mut rec, addr, value, &cx.wty);
    let prog = rec.program();
    let mut mem = Mem::new();
    let size = abi.size(t);
    let off = BASES[c.base as usize % BASES.len()];
    let base = mem.alloc(size + off + 64, 16) + off;
    let before = mem.bytes.clone();
    let n0 = mem.allocs.len();
    {
        let mut it = Interp::new(abi, &mut mem);
        it.env.insert(addr, V::C(Core::Ptr(base)));
        it.env.insert(value, V::I(v.clone()));
        it.run(&prog);
    }
    // every changed byte lies in the value's own bytes or in a buffer the lowering allocated
    let allowed: Vec<(u64, u64)> = std::iter::once((base, size))
        .chain(mem.allocs[n0..].iter().map(|(p, s, _)| (*p, *s)))
        .collect();
    for (a, (x, y)) in mem.bytes.iter().zip(before.iter()).enumerate() {
        if x != y && !allowed.iter().any(|(p, s)| (a as u64) >= *p && (a as u64) < p + s) {
            return Err(format!(
                "lower_to_memory wrote outside the value: byte at {a} (value at {base}, size {size})"
            ));
        }
    }
    let got = load(abi, &mem, t, base);
    if norm(&got) != norm(v) {
        return Err(format!("lower_to_memory: spec load of the written bytes gives {got:?}"));
    }
    Ok(())
}

fn check_lift_from_memory(cx: &Ctx, c: &ValCase) -> Result<(), String> {
    let (t, v, abi) = (&c.ty, &c.val, &cx.abi);
    let mut rec = Rec::new(&cx.resolve, c.canon);
    let addr = rec.fresh();
    let out = abi::lift_from_memory(&cx.resolve, &mut rec, addr, &cx.wty);
    let prog = rec.program();
    let mut mem = Mem::new();
    let size = abi.size(t);
    let off = BASES[c.base as usize % BASES.len()];
    let base = mem.alloc(size + off + 64, 16) + off;
    abi.store(&mut mem, v, t, base);
    let mut it = Interp::new(abi, &mut mem);
    it.env.insert(addr, V::C(Core::Ptr(base)));
    it.run(&prog);
    match it.env.get(&out) {
        Some(V::I(got)) if norm(got) == norm(v) => Ok(()),
        other => Err(format!("lift_from_memory of the spec encoding gives {other:?}")),
    }
}

pub fn core_flat(abi: &Abi, g: &Core) -> Flat {
    match g {
        Core::I32(_) => Flat::I32,
        Core::I64(_) | Core::P64(_) => Flat::I64,
        Core::F32(_) => Flat::F32,
        Core::F64(_) => Flat::F64,
        Core::Ptr(_) | Core::Len(_) => abi.ptr_flat(),
    }
}

fn check_lower_flat(cx: &Ctx, c: &ValCase, weakened: &mut u64) -> Result<(), String> {
    let (t, v, abi) = (&c.ty, &c.val, &cx.abi);
    let mut rec = Rec::new(&cx.resolve, c.canon);
    let value = rec.fresh();
    let outs = abi::lower_flat(&cx.resolve, &mut rec, value, &cx.wty);
    let prog = rec.program();
    let mut mem = Mem::new();
    let mut it = Interp::new(abi, &mut mem);
    it.env.insert(value, V::I(v.clone()));
    it.run(&prog);
    let got: Vec<Core> = outs
        .iter()
        .map(|o| match it.env[o].clone() {
            V::C(c) => c,
            v => panic!("flat result is {v:?}"),
        })
        .collect();
    let mut mem2 = Mem::new();
    let want = abi.lower_flat(&mut mem2, v, t);
    if got.len() != want.len() {
        return Err(format!("flat count {} vs spec {}", got.len(), want.len()));
    }
    // pointers differ between the two memories: compare what they point to by lifting
    let bits: Vec<u64> = got.iter().map(|c| c.bits()).collect();
    for (i, (g, (wf, wbits))) in got.iter().zip(&want).enumerate() {
        let gf = core_flat(abi, g);
        if gf != *wf {
            return Err(format!("flat[{i}] type {g:?} vs spec {wf:?}"));
        }
        let is_ptr = matches!(g, Core::Ptr(_) | Core::P64(_));
        if is_ptr {
            continue;
        }
        if matches!(g, Core::Len(_)) && abi.p == 8 {
            // joined slots holding a 32-bit payload in a 64-bit pointer-sized slot: the spec
            // text is silent on the upper bits for P=8; compare the low 32 bits only if the
            // full comparison fails
            if g.bits() != *wbits {
                if g.bits() & 0xffff_ffff == *wbits & 0xffff_ffff {
                    *weakened += 1;
                    continue;
                }
                return Err(format!("flat[{i}] = {g:?} vs spec bits {wbits:#x}"));
            }
            continue;
        }
        if g.bits() != *wbits {
            return Err(format!("flat[{i}] = {g:?} vs spec bits {wbits:#x}"));
        }
    }
    // and the flat values decode (spec lift) to the value, pointers included
    let back = lift_flat(abi, it.mem, t, &mut bits.iter());
    if norm(&back) != norm(v) {
        return Err(format!("spec lift of the flat values gives {back:?}"));
    }
    Ok(())
}

/// flat lift, reached through call(GuestExport, LiftArgsLowerResults) with one parameter
fn check_lift_flat(cx: &Ctx, c: &ValCase) -> Result<(), String> {
    let (t, v, abi) = (&c.ty, &c.val, &cx.abi);
    let sig = cx.resolve.wasm_signature(AbiVariant::GuestExport, &cx.func);
    let mut rec = Rec::new(&cx.resolve, c.canon);
    abi::call(
        &cx.resolve,
        AbiVariant::GuestExport,
        LiftLower::LiftArgsLowerResults,
        &cx.func,
        &mut rec,
        false,
    );
    let areas = rec.ret_areas.clone();
    let prog = rec.program();
    let mut mem = Mem::new();
    let mut bits = vec![];
    bits.extend(abi.lower_flat(&mut mem, v, t).into_iter().map(|(_, b)| b));
    if bits.len() != sig.params.len() {
        return Err(format!(
            "core signature has {} params, spec flattening {}",
            sig.params.len(),
            bits.len()
        ));
    }
    let args: Vec<Core> = sig
        .params
        .iter()
        .zip(bits)
        .map(|(w, b)| crate::calls::tag(*w, b))
        .collect();
    let mut it = Interp::new(abi, &mut mem);
    for (id, s, _a) in &areas {
        let sz = s.bytes as u64 + s.pointers as u64 * abi.p;
        let a = it.mem.alloc(sz.max(1) + 16, 16);
        it.env.insert(*id, V::C(Core::Ptr(a)));
    }
    it.args = args.into_iter().map(V::C).collect();
    let seen = std::rc::Rc::new(std::cell::RefCell::new(None));
    let s2 = seen.clone();
    let rv = if cx.func.result.is_some() { Some(v.clone()) } else { None };
    it.on_call_iface = Some(Box::new(move |a| {
        *s2.borrow_mut() = Some(a.to_vec());
        rv.clone()
    }));
    it.run(&prog);
    let seen = seen.borrow().clone();
    match seen.as_deref() {
        Some([g]) if norm(g) == norm(v) => Ok(()),
        other => Err(format!("flat lift delivered {other:?} to the implementation")),
    }
}

pub fn c01_prop(c: &ValCase, obs: &mut Obs) -> CaseResult {
    let cx = setup(&c.ty, c.p, false)?;
    let mut weakened = 0;
    guarded("lower_to_memory", || check_lower_to_memory(&cx, c))?;
    guarded("lift_from_memory", || check_lift_from_memory(&cx, c))?;
    let nflat = cx.abi.flatten(&c.ty).len();
    let mut evals = 2;
    if nflat <= 16 {
        guarded("lower_flat", || check_lower_flat(&cx, c, &mut weakened))?;
        guarded("lift_flat", || check_lift_flat(&cx, c))?;
        evals += 2;
        obs.label("flat-paths");
    } else {
        obs.label("more-than-16-flat:memory-paths-only");
    }
    obs.evals = evals;
    if weakened > 0 {
        obs.label("compared_modulo_upper_bits");
    }
    obs.label(format!("p{}", c.p));
    obs.label(format!("canon{}", c.canon));
    if is_nontrivial(&c.ty, &c.val) {
        obs.nontrivial_by(&class_of(c));
        if format!("{:?}", c.ty).len() < 160 {
            obs.sample = Some(short(&c.ty, &c.val));
        }
    }
    Ok(())
}

pub fn run_c01(check: &mut Check) {
    check.rule = "types from the grammar (depth<=4, width<=5: all scalars, string, list, fixed list, map, record, tuple, variant, enum incl. 257 cases, option, result, flags with 1..=65 members, own/borrow/future/stream/error-context handles) with boundary-biased values (NaN payloads, surrogate edges, multi-byte strings, empty/long lists) x P in {4,8} x canonical-list mode {never, numeric, all-bits-valid} x base offset {8,24,4104}; \
        paths: lower_to_memory -> spec load (+ no write outside the value or its buffers), spec store -> lift_from_memory, lower_flat vs spec lower_flat (exact bits) when <=16 flats, flat lift through call(GuestExport, LiftArgsLowerResults); \
        non-trivial = value exercises a variant with differently-flattened cases (non-first case), flags>32, non-primitive or nested list, non-empty map, fixed list, or a record/tuple with padding; distinct by (type shape, value class, P, canon)".into();
    check.assumptions.push("instruction semantics are those documented on abi::Instruction; the reference ABI is written from the spec digest in DESIGN.md Appendix D".into());
    check.assumptions.push("zero-member flags are checked for no-panic only (spec and wit-parser disagree on their alignment)".into());
    for rf in check.regression_files() {
        if let Ok(c) = serde_json::from_value::<ValCase>(rf.case.clone()) {
            check.case("regression", &c, c01_prop);
        }
    }
    // constructed boundary cases: flags at word boundaries, 15/16/17 flats, big discriminants
    for (i, c) in constructed_cases().into_iter().enumerate() {
        check.case(&format!("constructed-{i}"), &c, c01_prop);
    }
    // zero-member flags: no panic
    for p in [4u8, 8] {
        let c = ValCase { ty: Ty::Flags(vec![]), val: Val::Flags(vec![]), p, canon: 1, base: 0 };
        check.case("zero-flags-no-panic", &c, |c, _| {
            let cx = setup(&c.ty, c.p, false)?;
            guarded("zero-flags", || {
                let mut rec = Rec::new(&cx.resolve, 1);
                let (addr, value) = (rec.fresh(), rec.fresh());
                abi::lower_to_memory(&cx.resolve, &mut rec, addr, value, &cx.wty);
                let mut rec = Rec::new(&cx.resolve, 1);
                let addr = rec.fresh();
                abi::lift_from_memory(&cx.resolve, &mut rec, addr, &cx.wty);
                let mut rec = Rec::new(&cx.resolve, 1);
                let value = rec.fresh();
                abi::lower_flat(&cx.resolve, &mut rec, value, &cx.wty);
                Ok(())
            })
        });
    }
    let n = check.tier.pick(20_000, 400_000);
    check.prop("values", case_strategy, n, c01_prop);
}

fn constructed_cases() -> Vec<ValCase> {
    let mut out = vec![];
    for n in [8usize, 9, 16, 17, 32, 33, 64, 65] {
        let ty = Ty::Flags((0..n).map(|i| format!("fl{i}")).collect());
        for pat in 0..3 {
            let val = Val::Flags((0..n).map(|i| match pat { 0 => i + 1 == n, 1 => i % 2 == 0, _ => true }).collect());
            for p in [4u8, 8] {
                out.push(ValCase { ty: ty.clone(), val: val.clone(), p, canon: 1, base: 1 });
            }
        }
    }
    for n in [15usize, 16, 17] {
        let ty = Ty::Tuple(vec![Ty::U32; n]);
        let val = Val::Tuple((0..n).map(|i| Val::U32(i as u32 * 0x1010101)).collect());
        for p in [4u8, 8] {
            out.push(ValCase { ty: ty.clone(), val: val.clone(), p, canon: 2, base: 2 });
        }
        let ty = Ty::FixedList(Box::new(Ty::U16), n as u32);
        let val = Val::List((0..n).map(|i| Val::U16(i as u16 * 257)).collect());
        for p in [4u8, 8] {
            out.push(ValCase { ty: ty.clone(), val: val.clone(), p, canon: 0, base: 0 });
        }
    }
    // variant joining every pair of core types
    let payloads = [Ty::U32, Ty::F32, Ty::U64, Ty::F64, Ty::String, Ty::Char, Ty::S8];
    for a in &payloads {
        for b in &payloads {
            let ty = Ty::Variant(vec![("a".into(), Some(a.clone())), ("b".into(), Some(b.clone())), ("n".into(), None)]);
            for (i, pt) in [(0usize, a), (1usize, b)] {
                let pv = match pt {
                    Ty::U32 => Val::U32(0xdead_beef),
                    Ty::F32 => Val::F32(0xffc0_0001),
                    Ty::U64 => Val::U64(0xfedc_ba98_7654_3210),
                    Ty::F64 => Val::F64(0xfff8_0000_0000_0001),
                    Ty::String => Val::Str("héllo".into()),
                    Ty::Char => Val::Char('\u{10ffff}'),
                    _ => Val::S8(-128),
                };
                for p in [4u8, 8] {
                    out.push(ValCase { ty: ty.clone(), val: Val::Variant(i, Some(Box::new(pv.clone()))), p, canon: 1, base: 0 });
                }
            }
        }
    }
    out
}

// ------------------------------------------------------------------ C03

/// own/future/stream handles in a value, and borrow handles
fn handles(t: &Ty, v: &Val, own: &mut Vec<u32>, borrow: &mut Vec<u32>) {
    match (t, v) {
        (Ty::Own | Ty::Future | Ty::Stream, Val::Handle(h)) => own.push(*h),
        (Ty::Borrow, Val::Handle(h)) => borrow.push(*h),
        (Ty::List(t) | Ty::FixedList(t, _), Val::List(l)) => l.iter().for_each(|x| handles(t, x, own, borrow)),
        (Ty::Map(k, vt), Val::Map(m)) => m.iter().for_each(|(a, b)| {
            handles(k, a, own, borrow);
            handles(vt, b, own, borrow)
        }),
        (Ty::Record(fs), Val::Record(vs)) => fs.iter().zip(vs).for_each(|((_, t), v)| handles(t, v, own, borrow)),
        (Ty::Tuple(ts), Val::Tuple(vs)) => ts.iter().zip(vs).for_each(|(t, v)| handles(t, v, own, borrow)),
        (Ty::Variant(cs), Val::Variant(i, Some(p))) => {
            if let Some(t) = &cs[*i].1 {
                handles(t, p, own, borrow)
            }
        }
        (Ty::Option(t), Val::Option(Some(p))) => handles(t, p, own, borrow),
        (Ty::Result(a, _), Val::Result(Ok(Some(p)))) => {
            if let Some(t) = a {
                handles(t, p, own, borrow)
            }
        }
        (Ty::Result(_, b), Val::Result(Err(Some(p)))) => {
            if let Some(t) = b {
                handles(t, p, own, borrow)
            }
        }
        _ => {}
    }
}

/// depth at which heap blocks occur (for the non-trivial rule)
fn heap_depth(t: &Ty, v: &Val, depth: u32, in_nonfirst_case: bool, best: &mut (u32, bool)) {
    match (t, v) {
        (Ty::String, Val::Str(s)) => {
            if !s.is_empty() {
                best.0 = best.0.max(depth + 1);
                best.1 |= in_nonfirst_case;
            }
        }
        (Ty::List(et), Val::List(l)) => {
            if !l.is_empty() {
                best.0 = best.0.max(depth + 1);
                best.1 |= in_nonfirst_case;
            }
            l.iter().for_each(|x| heap_depth(et, x, depth + 1, in_nonfirst_case, best))
        }
        (Ty::Map(k, vt), Val::Map(m)) => {
            if !m.is_empty() {
                best.0 = best.0.max(depth + 1);
            }
            m.iter().for_each(|(a, b)| {
                heap_depth(k, a, depth + 1, in_nonfirst_case, best);
                heap_depth(vt, b, depth + 1, in_nonfirst_case, best)
            })
        }
        (Ty::FixedList(et, _), Val::List(l)) => l.iter().for_each(|x| heap_depth(et, x, depth, in_nonfirst_case, best)),
        (Ty::Record(fs), Val::Record(vs)) => fs.iter().zip(vs).for_each(|((_, t), v)| heap_depth(t, v, depth, in_nonfirst_case, best)),
        (Ty::Tuple(ts), Val::Tuple(vs)) => ts.iter().zip(vs).for_each(|(t, v)| heap_depth(t, v, depth, in_nonfirst_case, best)),
        (Ty::Variant(cs), Val::Variant(i, Some(p))) => {
            if let Some(t) = &cs[*i].1 {
                heap_depth(t, p, depth, in_nonfirst_case || *i > 0, best)
            }
        }
        (Ty::Option(t), Val::Option(Some(p))) => heap_depth(t, p, depth, true, best),
        (Ty::Result(a, _), Val::Result(Ok(Some(p)))) => {
            if let Some(t) = a {
                heap_depth(t, p, depth, in_nonfirst_case, best)
            }
        }
        (Ty::Result(_, b), Val::Result(Err(Some(p)))) => {
            if let Some(t) = b {
                heap_depth(t, p, depth, true, best)
            }
        }
        _ => {}
    }
}

#[derive(Clone, Copy, Debug, PartialEq)]
enum Mode {
    PostReturn,
    ListsIndirect,
    ListsAndOwnIndirect,
    ListsDirect,
    ListsAndOwnDirect,
}

fn check_cleanup(cx: &Ctx, c: &ValCase, mode: Mode) -> Result<(), String> {
    let (t, v, abi) = (&c.ty, &c.val, &cx.abi);
    let mut mem = Mem::new();
    let size = abi.size(t);
    let base = mem.alloc(size + 64, 16);
    let n0 = mem.allocs.len();
    // lower the value (memory form for the indirect modes, flat form for the direct ones)
    let direct = matches!(mode, Mode::ListsDirect | Mode::ListsAndOwnDirect);
    let mut flat_operands: Vec<Core> = vec![];
    if direct {
        let mut rec = Rec::new(&cx.resolve, c.canon);
        let value = rec.fresh();
        let outs = abi::lower_flat(&cx.resolve, &mut rec, value, &cx.wty);
        let prog = rec.program();
        let mut it = Interp::new(abi, &mut mem);
        it.env.insert(value, V::I(v.clone()));
        it.run(&prog);
        flat_operands = outs
            .iter()
            .map(|o| match it.env[o].clone() {
                V::C(c) => c,
                v => panic!("flat result is {v:?}"),
            })
            .collect();
    } else {
        let mut rec = Rec::new(&cx.resolve, c.canon);
        let (addr, value) = (rec.fresh(), rec.fresh());
        abi::lower_to_memory(&cx.resolve, &mut rec, addr, value, &cx.wty);
        let prog = rec.program();
        let mut it = Interp::new(abi, &mut mem);
        it.env.insert(addr, V::C(Core::Ptr(base)));
        it.env.insert(value, V::I(v.clone()));
        it.run(&prog);
    }
    let mut owned: Vec<(u64, u64, u64)> = mem.allocs[n0..].to_vec();
    owned.sort();
    let (mut own_h, mut borrow_h) = (vec![], vec![]);
    handles(t, v, &mut own_h, &mut borrow_h);
    own_h.sort();

    let mut rec = Rec::new(&cx.resolve, c.canon);
    let mut it_args = vec![];
    let mut pre_env: Vec<(usize, V)> = vec![];
    match mode {
        Mode::PostReturn => {
            let needs = abi::guest_export_needs_post_return(&cx.resolve, &cx.func);
            let spec_needs = has_heap(t);
            if needs != spec_needs {
                return Err(format!(
                    "needs-post-return: guest_export_needs_post_return = {needs} but the result type {} a string/list/map",
                    if spec_needs { "contains" } else { "does not contain" }
                ));
            }
            if !needs {
                return if owned.is_empty() {
                    Ok(())
                } else {
                    Err(format!("needs_post_return=false but lowering allocated {owned:?}"))
                };
            }
            abi::post_return(&cx.resolve, &cx.func, &mut rec);
            it_args.push(V::C(Core::Ptr(base)));
        }
        Mode::ListsIndirect | Mode::ListsAndOwnIndirect => {
            let a = rec.fresh();
            pre_env.push((a, V::C(Core::Ptr(base))));
            if mode == Mode::ListsIndirect {
                abi::deallocate_lists_in_types(&cx.resolve, &[cx.wty], &[a], true, &mut rec);
            } else {
                abi::deallocate_lists_and_own_in_types(&cx.resolve, &[cx.wty], &[a], true, &mut rec);
            }
        }
        Mode::ListsDirect | Mode::ListsAndOwnDirect => {
            let ids: Vec<usize> = flat_operands
                .iter()
                .map(|c| {
                    let id = rec.fresh();
                    pre_env.push((id, V::C(*c)));
                    id
                })
                .collect();
            if mode == Mode::ListsDirect {
                abi::deallocate_lists_in_types(&cx.resolve, &[cx.wty], &ids, false, &mut rec);
            } else {
                abi::deallocate_lists_and_own_in_types(&cx.resolve, &[cx.wty], &ids, false, &mut rec);
            }
        }
    }
    let prog = rec.program();
    let mut it = Interp::new(abi, &mut mem);
    it.args = it_args;
    for (id, v) in pre_env {
        it.env.insert(id, v);
    }
    it.run(&prog);
    let mut freed = it.freed.clone();
    freed.sort();
    if freed != owned {
        let missing: Vec<_> = owned.iter().filter(|b| !freed.contains(b)).collect();
        let extra: Vec<_> = freed.iter().filter(|b| !owned.contains(b)).collect();
        return Err(format!(
            "freed-set: cleanup freed {} block(s), lowering allocated {}; not freed (ptr,size,align): {missing:?}; freed but never allocated / wrong size or alignment / double: {extra:?}",
            freed.len(),
            owned.len()
        ));
    }
    let mut dropped = it.dropped.clone();
    dropped.sort();
    let expect_dropped = if matches!(mode, Mode::ListsAndOwnIndirect | Mode::ListsAndOwnDirect) {
        own_h.clone()
    } else {
        vec![]
    };
    if dropped != expect_dropped {
        return Err(format!(
            "dropped-handles: cleanup dropped handles {dropped:?}, expected exactly the owned ones {expect_dropped:?} (borrows in the value: {borrow_h:?})"
        ));
    }
    Ok(())
}

fn classify_c03(t: &Ty, f: Failure) -> Failure {
    // shapes that are listed known findings get their own signature
    if fixed_with_heap(t) && (f.sig.contains("freed-set") || f.sig.contains("not yet implemented")) {
        return Failure::new("fixed-length-list-with-heap-elements not deallocated", f.msg);
    }
    if has_ec(t) && (f.sig.contains("needs-post-return") || f.sig.contains("sig.retptr")) {
        return Failure::new("error-context counted as needing deallocation", f.msg);
    }
    f
}

pub fn c03_prop(c: &ValCase, obs: &mut Obs) -> CaseResult {
    let cx = setup(&c.ty, c.p, true)?;
    let nflat = cx.abi.flatten(&c.ty).len();
    let mut modes = vec![Mode::ListsIndirect, Mode::ListsAndOwnIndirect];
    if cx.func.result.is_some() {
        modes.push(Mode::PostReturn);
    }
    if nflat <= 16 {
        modes.push(Mode::ListsDirect);
        modes.push(Mode::ListsAndOwnDirect);
    }
    obs.evals = modes.len() as u64;
    for m in modes {
        guarded(&format!("{m:?}"), || check_cleanup(&cx, c, m)).map_err(|f| classify_c03(&c.ty, f))?;
    }
    let mut best = (0, false);
    heap_depth(&c.ty, &c.val, 0, false, &mut best);
    let (mut o, mut b) = (vec![], vec![]);
    handles(&c.ty, &c.val, &mut o, &mut b);
    if !o.is_empty() {
        obs.label("has-owned-handles");
    }
    if !b.is_empty() {
        obs.label("has-borrow-handles");
    }
    if best.0 >= 1 {
        obs.label("has-heap");
    }
    if best.0 >= 2 || best.1 {
        obs.label("heap-nested-or-in-nonfirst-case");
        obs.nontrivial_by(&class_of(c));
        if format!("{:?}", c.ty).len() < 160 {
            obs.sample = Some(short(&c.ty, &c.val));
        }
    }
    Ok(())
}

/// exclusion by construction for listed findings
fn strip_known(t: &Ty, no_fixed_heap: bool, no_ec: bool) -> Ty {
    let r = |t: &Ty| strip_known(t, no_fixed_heap, no_ec);
    match t {
        Ty::ErrorContext if no_ec => Ty::U32,
        Ty::FixedList(e, n) => {
            let e2 = r(e);
            if no_fixed_heap && has_heap(&e2) {
                // keep the shape but make the element heap-free
                Ty::FixedList(Box::new(Ty::U16), *n)
            } else {
                Ty::FixedList(Box::new(e2), *n)
            }
        }
        Ty::List(e) => Ty::List(Box::new(r(e))),
        Ty::Option(e) => Ty::Option(Box::new(r(e))),
        Ty::Map(k, v) => Ty::Map(k.clone(), Box::new(r(v))),
        Ty::Record(fs) => Ty::Record(fs.iter().map(|(n, t)| (n.clone(), r(t))).collect()),
        Ty::Tuple(ts) => Ty::Tuple(ts.iter().map(r).collect()),
        Ty::Variant(cs) => Ty::Variant(cs.iter().map(|(n, t)| (n.clone(), t.as_ref().map(r))).collect()),
        Ty::Result(a, b) => Ty::Result(a.as_ref().map(|t| Box::new(r(t))), b.as_ref().map(|t| Box::new(r(t)))),
        t => t.clone(),
    }
}

pub fn run_c03(check: &mut Check) {
    check.rule = "same (type, value, P, canon) domain as C01; for each: lower the value with the recorded lowering (ledger of every buffer allocated: ptr,size,align; zero-size excluded), then run post_return / deallocate_lists_in_types / deallocate_lists_and_own_in_types in indirect form, and in direct (flat-operand) form when <=16 flats; \
        oracle: freed multiset == allocated multiset (ptr,size,align), dropped handles == own/future/stream handles of the value in the lists-and-own modes and none otherwise, guest_export_needs_post_return <=> type contains string/list/map; \
        non-trivial = a non-empty heap block at nesting depth >= 2 or inside a non-first variant case; distinct by (type shape, value class, P, canon)".into();
    check.assumptions.push("instruction semantics as documented on abi::Instruction (GuestDeallocate* free the given block; DropHandle drops one handle)".into());
    let no_fixed = check.known.has("fixed-length-list-with-heap-elements not deallocated");
    let no_ec = check.known.has("error-context counted as needing deallocation");
    check.extra.insert("excluded_by_construction".into(), serde_json::json!({"fixed-list-with-heap-elements": no_fixed, "error-context": no_ec}));
    for rf in check.regression_files() {
        if let Ok(c) = serde_json::from_value::<ValCase>(rf.case.clone()) {
            check.case("regression", &c, c03_prop);
        }
    }
    // witnesses for the listed findings
    let w1 = ValCase { ty: Ty::FixedList(Box::new(Ty::List(Box::new(Ty::Bool))), 1), val: Val::List(vec![Val::List(vec![Val::Bool(true)])]), p: 4, canon: 1, base: 0 };
    check.case("witness-fixed-list-heap", &w1, c03_prop);
    let w2 = ValCase { ty: Ty::ErrorContext, val: Val::Handle(3), p: 4, canon: 1, base: 0 };
    check.case("witness-error-context", &w2, c03_prop);
    if check.is_replay() {
        check.prop("values", case_strategy, 1, c03_prop);
        return;
    }
    let n = check.tier.pick(20_000, 300_000);
    check.prop(
        "heap-rich",
        move || {
            gen::ty_with_leaf(gen::heap_leaf().boxed(), 3, 16, 4)
                .prop_map(move |t| strip_known(&t, no_fixed, no_ec))
                .prop_flat_map(|t| {
                    let v = gen::val(&t);
                    (Just(t), v)
                })
                .prop_flat_map(|(ty, val)| {
                    (Just(ty), Just(val), prop_oneof![Just(4u8), Just(8u8)], 0u8..3).prop_map(|(ty, val, p, canon)| ValCase { ty, val, p, canon, base: 0 })
                })
        },
        n,
        c03_prop,
    );
    check.prop(
        "values",
        move || {
            gen::ty()
                .prop_map(move |t| strip_known(&t, no_fixed, no_ec))
                .prop_flat_map(|t| {
                    let v = gen::val(&t);
                    (Just(t), v)
                })
                .prop_flat_map(|(ty, val)| {
                    (Just(ty), Just(val), prop_oneof![Just(4u8), Just(8u8)], 0u8..3).prop_map(|(ty, val, p, canon)| ValCase { ty, val, p, canon, base: 0 })
                })
        },
        n,
        c03_prop,
    );
}
