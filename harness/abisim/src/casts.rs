//! C04 — variant payload slot joining is lossless and matches the spec.
use crate::sim::*;
use crate::values::{c01_prop, ValCase};
use crate::{guarded, make_resolve};
use proptest::prelude::*;
use refabi::*;
use serde::{Deserialize, Serialize};
use std::collections::BTreeSet;
use vcommon::{CaseResult, Check, Failure, Obs};
use wit_bindgen_core::abi::{self, WasmType};
use wit_parser::*;

/// payload shapes whose flat slot #1 (slot #0 for `String1`) has each core type
#[derive(Clone, Copy, Debug, Hash, PartialEq, Eq, PartialOrd, Ord, Serialize, Deserialize)]
pub enum Shape {
    I32,
    I64,
    F32,
    F64,
    Pointer,
    Length,
    PointerOrI64,
    // single-slot payloads (slot 0)
    S0I32,
    S0I64,
    S0F32,
    S0F64,
    S0Pointer,
}

const SHAPES: &[Shape] = &[
    Shape::I32, Shape::I64, Shape::F32, Shape::F64, Shape::Pointer, Shape::Length, Shape::PointerOrI64,
    Shape::S0I32, Shape::S0I64, Shape::S0F32, Shape::S0F64, Shape::S0Pointer,
];

fn shape_ty(s: Shape) -> Ty {
    let t2 = |t: Ty| Ty::Tuple(vec![Ty::U8, t]);
    match s {
        Shape::I32 => t2(Ty::U32),
        Shape::I64 => t2(Ty::U64),
        Shape::F32 => t2(Ty::F32),
        Shape::F64 => t2(Ty::F64),
        Shape::Pointer => t2(Ty::String),
        Shape::Length => Ty::String,
        Shape::PointerOrI64 => Ty::Variant(vec![("x".into(), Some(Ty::U64)), ("y".into(), Some(Ty::String))]),
        Shape::S0I32 => Ty::U32,
        Shape::S0I64 => Ty::S64,
        Shape::S0F32 => Ty::F32,
        Shape::S0F64 => Ty::F64,
        Shape::S0Pointer => Ty::List(Box::new(Ty::U8)),
    }
}

#[derive(Clone, Debug, Hash, Serialize, Deserialize)]
pub struct PairCase {
    pub shapes: Vec<Shape>,
    pub bits: Vec<u64>,
}

fn width(w: WasmType, p: u64) -> u32 {
    match w {
        WasmType::I32 | WasmType::F32 => 32,
        WasmType::I64 | WasmType::F64 | WasmType::PointerOrI64 => 64,
        WasmType::Pointer | WasmType::Length => (p * 8) as u32,
    }
}

fn has_tag(c: &Core, w: WasmType) -> bool {
    matches!(
        (c, w),
        (Core::I32(_), WasmType::I32)
            | (Core::I64(_), WasmType::I64)
            | (Core::F32(_), WasmType::F32)
            | (Core::F64(_), WasmType::F64)
            | (Core::Ptr(_), WasmType::Pointer)
            | (Core::Len(_), WasmType::Length)
            | (Core::P64(_), WasmType::PointerOrI64)
    )
}

fn mask(bits: u32) -> u64 {
    if bits >= 64 { u64::MAX } else { (1u64 << bits) - 1 }
}

/// collect the (case slot type, joined slot type) pairs of the variant made of `shapes`
fn pairs_of(shapes: &[Shape]) -> Result<Vec<(WasmType, WasmType)>, String> {
    let ty = Ty::Variant(shapes.iter().enumerate().map(|(i, s)| (format!("c{i}"), Some(shape_ty(*s)))).collect());
    let mut decls = vec![];
    let tn = wit_ty(&ty, &mut decls);
    let resolve = make_resolve(&decls, &format!("f: func(x: {tn});"))?;
    let func = resolve.interfaces.iter().next().unwrap().1.functions["f"].clone();
    let wty = func.params[0].ty;
    let Type::Id(id) = wty else { return Err("not an id".into()) };
    let TypeDefKind::Variant(v) = &resolve.types[id].kind else { return Err("not a variant".into()) };
    let joined = abi::flat_types(&resolve, &wty, Some(64)).ok_or("variant does not flatten")?;
    let mut out = vec![];
    for c in &v.cases {
        let ct = c.ty.as_ref().unwrap();
        let cf = abi::flat_types(&resolve, ct, Some(64)).ok_or("case does not flatten")?;
        for (i, f) in cf.iter().enumerate() {
            out.push((*f, joined[1 + i]));
        }
    }
    Ok(out)
}

fn pair_prop(c: &PairCase, obs: &mut Obs) -> CaseResult {
    let pairs = guarded("pairs", || {
        pairs_of(&c.shapes).map(|_| ())
    })
    .and_then(|_| pairs_of(&c.shapes).map_err(|e| Failure::new("GEN", e)))?;
    let mut evals = 0u64;
    let mut nontrivial_pairs = BTreeSet::new();
    for (from, to) in pairs {
        // (1) the generator can convert the pair, both ways
        let (fwd, back) = {
            let mut fwd = None;
            let mut back = None;
            guarded("cast-table", || {
                fwd = Some(conv_bc(&abi::cast(from, to)));
                back = Some(conv_bc(&abi::cast(to, from)));
                Ok(())
            })
            .map_err(|f| Failure::new(format!("cast-table cannot convert {from:?}<->{to:?}"), f.msg))?;
            (fwd.unwrap(), back.unwrap())
        };
        if from != to {
            nontrivial_pairs.insert(format!("{from:?}->{to:?}"));
        }
        for p in [4u64, 8] {
            let a = Abi { p };
            let mut mem = Mem::new();
            let it = Interp::new(&a, &mut mem);
            let (wf, wt) = (width(from, p), width(to, p));
            for raw in &c.bits {
                let x = raw & mask(wf);
                let src = crate::calls::tag(from, x);
                let mut mid = None;
                let mut fin = None;
                guarded("cast-semantics", || {
                    let m = it.bc(&fwd, src);
                    mid = Some(m);
                    fin = Some(it.bc(&back, m));
                    Ok(())
                })
                .map_err(|f| Failure::new(format!("cast-semantics ill-typed {from:?}<->{to:?}"), f.msg))?;
                let (mid, fin) = (mid.unwrap(), fin.unwrap());
                evals += 1;
                if !has_tag(&mid, to) {
                    return Err(Failure::new(
                        format!("cast-result-type {from:?}->{to:?}"),
                        format!("cast({from:?},{to:?}) = {fwd:?} produces {mid:?}, not a {to:?}"),
                    ));
                }
                if !has_tag(&fin, from) {
                    return Err(Failure::new(
                        format!("cast-result-type {to:?}->{from:?}"),
                        format!("cast({to:?},{from:?}) = {back:?} produces {fin:?}, not a {from:?}"),
                    ));
                }
                // spec: lowering reinterprets / zero-extends
                let expect_mid = x; // zero-extension of the source bits
                let cmp_mask = if wt > wf && matches!(to, WasmType::Pointer | WasmType::Length) && p == 8 {
                    mask(wf) // upper bits unspecified by the spec text for 64-bit pointers
                } else {
                    mask(wt)
                };
                if mid.bits() & cmp_mask != expect_mid & cmp_mask {
                    return Err(Failure::new(
                        format!("cast-lower-value {from:?}->{to:?}"),
                        format!("P={p}: {from:?} bits {x:#x} became {mid:?} in the joined {to:?} slot; spec: reinterpret/zero-extend = {expect_mid:#x}"),
                    ));
                }
                // spec: lifting wraps / reinterprets, and the round trip is the identity
                if fin.bits() != x {
                    return Err(Failure::new(
                        format!("cast-roundtrip {from:?}<->{to:?}"),
                        format!("P={p}: {from:?} bits {x:#x} -> {mid:?} -> {fin:?}: not recovered bit-for-bit"),
                    ));
                }
                // lifting any joined value wraps to the low bits
                let y = raw & mask(wt);
                let mut lifted = None;
                guarded("cast-semantics", || {
                    lifted = Some(it.bc(&back, crate::calls::tag(to, y)));
                    Ok(())
                })
                .map_err(|f| Failure::new(format!("cast-semantics ill-typed {to:?}->{from:?}"), f.msg))?;
                let lifted = lifted.unwrap();
                evals += 1;
                if lifted.bits() != y & mask(wf) {
                    return Err(Failure::new(
                        format!("cast-lift-value {to:?}->{from:?}"),
                        format!("P={p}: joined {to:?} bits {y:#x} lifted to {lifted:?}; spec: wrap/reinterpret = {:#x}", y & mask(wf)),
                    ));
                }
            }
        }
    }
    obs.evals = evals.max(1);
    if !nontrivial_pairs.is_empty() {
        obs.nontrivial_by(&(&nontrivial_pairs, c.bits.len()));
        for p in &nontrivial_pairs {
            obs.label(p.clone());
        }
        if c.shapes.len() == 2 {
            obs.sample = Some(serde_json::json!({"shapes": format!("{:?}", c.shapes), "pairs": nontrivial_pairs, "patterns": c.bits.len()}));
        }
    }
    Ok(())
}

fn patterns() -> impl Strategy<Value = Vec<u64>> {
    let edge = prop_oneof![
        Just(0u64), Just(1), Just(0x7f), Just(0x80), Just(0xff), Just(0x7fff), Just(0x8000), Just(0xffff),
        Just(0x7fff_ffff), Just(0x8000_0000), Just(0xffff_ffff), Just(0x1_0000_0000), Just(0x7fc0_0000), Just(0xffc0_0001),
        Just(0x7ff8_0000_0000_0000), Just(0xfff0_0000_0000_0001), Just(0x8000_0000_0000_0000), Just(u64::MAX),
        Just(0xffff_ffff_0000_0000), Just(0xdead_beef_cafe_f00d),
    ];
    prop::collection::vec(prop_oneof![1 => edge, 2 => any::<u64>()], 8..40)
}

pub fn run(check: &mut Check) {
    check.rule = "variants built from 2..=4 payload shapes whose flat slots carry each core type {i32,i64,f32,f64,pointer,length,pointer-or-i64} (so that every ordered pair the join can relate is produced by a real WIT type parsed by wit-parser) x 8..40 bit patterns (edges + random, masked to the source width) x P in {4,8}; \
        oracle: cast(from,joined) and cast(joined,from) exist (no panic), the result carries the destination core type, lowering = reinterpret/zero-extend, lifting = wrap/reinterpret, round trip is the identity; the same variants are also pushed through the full lower_flat/lift pipeline against the reference ABI; \
        non-trivial = at least one slot pair with from != joined; distinct by (pair set, pattern count)".into();
    check.assumptions.push("Bitcast names carry the meaning documented on abi::Bitcast (implemented in abisim/src/sim.rs::bc)".into());
    check.assumptions.push("for P=8 the upper 32 bits of a 32-bit payload widened into a 64-bit pointer/length slot are not compared (spec text is silent)".into());
    check.assumptions.push("bit-vector reasoning over all 2^32/2^64 inputs is replaced by edge+random sampling (technique family: PBT)".into());
    // exhaustive over all ordered pairs / triples of shapes with a fixed edge pattern set
    let fixed: Vec<u64> = vec![0, 1, 0x7f, 0x80, 0xffff, 0x7fff_ffff, 0x8000_0000, 0xffff_ffff, 0x1_0000_0000, 0x7fc0_0001, 0xffc0_0000, 0x7ff8_0000_0000_0001, u64::MAX, 0x8000_0000_0000_0000, 0xffff_ffff_0000_0000, 0x0123_4567_89ab_cdef];
    let mut k = 0;
    for a in SHAPES {
        for b in SHAPES {
            let c = PairCase { shapes: vec![*a, *b], bits: fixed.clone() };
            check.case("all-shape-pairs", &c, pair_prop);
            k += 1;
        }
    }
    check.set_sub_info("all-shape-pairs", serde_json::json!({"pairs_enumerated": k, "exhaustive_over_shape_pairs": true}));
    // the same variants through the whole pipeline with concrete values
    for a in SHAPES {
        for b in SHAPES {
            let ty = Ty::Variant(vec![("a".into(), Some(shape_ty(*a))), ("b".into(), Some(shape_ty(*b)))]);
            for (i, s) in [(0usize, a), (1usize, b)] {
                for v in check.draw(&format!("pv-{a:?}-{b:?}-{i}"), &gen::val(&shape_ty(*s)), 3) {
                    for p in [4u8, 8] {
                        let c = ValCase { ty: ty.clone(), val: Val::Variant(i, Some(Box::new(v.clone()))), p, canon: 1, base: 0 };
                        check.case("pipeline", &c, c01_prop);
                    }
                }
            }
        }
    }
    if check.is_replay() {
        check.prop("random", || (prop::collection::vec((0..SHAPES.len()).prop_map(|i| SHAPES[i]), 2..5), patterns()).prop_map(|(shapes, bits)| PairCase { shapes, bits }), 1, pair_prop);
        check.prop("pipeline", crate::values::case_strategy, 1, c01_prop);
        return;
    }
    let n = check.tier.pick(2_000, 60_000);
    check.prop(
        "random",
        || (prop::collection::vec((0..SHAPES.len()).prop_map(|i| SHAPES[i]), 2..5), patterns()).prop_map(|(shapes, bits)| PairCase { shapes, bits }),
        n,
        pair_prop,
    );
}
