//! Engine A: wit_bindgen_core::abi is driven with a recording `Bindgen`; the
//! recorded instruction stream is interpreted over concrete values and compared
//! with the independent reference ABI (`refabi`).
mod calls;
mod casts;
mod sim;
mod values;

use refabi::{Ty, Val};
use vcommon::{panics, Failure};
use wit_parser::Resolve;

/// Run a piece of check code; classify panics:
///  * raised inside /repo code => the generator panicked (a property violation);
///  * raised by the interpreter or the reference (`abisim/src/sim.rs`, `refabi/..`)
///    => the emitted instruction stream is ill-typed or reads/writes out of bounds,
///    also a violation (the interpreter asserts the documented operand types);
pub fn guarded(stage: &str, f: impl FnOnce() -> Result<(), String>) -> Result<(), Failure> {
    match panics::catch(std::panic::AssertUnwindSafe(f)) {
        Ok(Ok(())) => Ok(()),
        Ok(Err(e)) => {
            let head: String = e.split(':').next().unwrap_or("").chars().take(60).collect();
            Err(Failure::new(format!("{stage} {head}"), format!("[{stage}] {e}")))
        }
        Err(p) => {
            let file = panics::file_of(&p.location).to_string();
            let head: String = p.message.chars().take(70).collect();
            let head = head.split(|c: char| c.is_ascii_digit()).next().unwrap_or("").trim().to_string();
            if file.starts_with("crates/") {
                Err(Failure::new(
                    format!("{stage} generator-panic {file}: {head}"),
                    format!("[{stage}] wit-bindgen-core panicked: {}", p.render()),
                ))
            } else {
                Err(Failure::new(
                    format!("{stage} ill-formed-stream: {head}"),
                    format!("[{stage}] interpreting the emitted instructions failed: {}", p.render()),
                ))
            }
        }
    }
}

pub fn make_resolve(decls: &[String], func: &str) -> Result<Resolve, String> {
    let src = format!(
        "package a:b;\ninterface i {{ resource res; {} {func} }}\nworld w {{ import i; }}",
        decls.join(" ")
    );
    let mut resolve = Resolve::default();
    resolve.all_features = true;
    resolve
        .push_str("t.wit", &src)
        .map_err(|e| format!("wit parse failed: {e:#}\n{src}"))?;
    Ok(resolve)
}

pub fn short(t: &Ty, v: &Val) -> serde_json::Value {
    let mut d = vec![];
    let tn = refabi::wit_ty(t, &mut d);
    serde_json::json!({"type": format!("{} {tn}", d.join(" ")), "value": format!("{v:?}").chars().take(200).collect::<String>()})
}

fn main() {
    let args = vcommon::parse_args();
    let mut check = vcommon::Check::new(&args);
    match args.id.as_str() {
        "C01" => values::run_c01(&mut check),
        "C03" => values::run_c03(&mut check),
        "C02" => calls::run(&mut check),
        "C04" => casts::run(&mut check),
        other => vcommon::harness_error(format!("abisim does not serve {other}")),
    }
    check.finish()
}
