//! C24 — guest allocation entry points honour size, alignment and contents.
//!
//! `wit_bindgen::rt::cabi_realloc` (compiled natively through the verif cfg)
//! and `rt::Cleanup` are driven with generated request histories; a tracking
//! global allocator checks every layout handed to the Rust allocator.
use proptest::prelude::*;
use serde::{Deserialize, Serialize};
use std::alloc::{GlobalAlloc, Layout, System};
use std::cell::{Cell, RefCell};
use std::collections::BTreeMap;
use vcommon::{ensure, CaseResult, Check, Failure, Obs};
use wit_bindgen::rt::{cabi_realloc, Cleanup};

struct Tracking;

thread_local! {
    static RECORD: Cell<bool> = const { Cell::new(false) };
    static BUSY: Cell<bool> = const { Cell::new(false) };
    static LIVE: RefCell<BTreeMap<usize, (usize, usize)>> = const { RefCell::new(BTreeMap::new()) };
    static ERRORS: RefCell<Vec<String>> = const { RefCell::new(Vec::new()) };
    static CALLS: Cell<(u32, u32, u32)> = const { Cell::new((0, 0, 0)) };
}

fn tracked<R>(f: impl FnOnce() -> R) -> Option<R> {
    // only when recording and not re-entered from the bookkeeping itself
    let on = RECORD.try_with(|r| r.get()).unwrap_or(false) && !BUSY.try_with(|b| b.get()).unwrap_or(true);
    if !on {
        return None;
    }
    BUSY.with(|b| b.set(true));
    let r = f();
    BUSY.with(|b| b.set(false));
    Some(r)
}

unsafe impl GlobalAlloc for Tracking {
    unsafe fn alloc(&self, layout: Layout) -> *mut u8 {
        let p = System.alloc(layout);
        tracked(|| {
            CALLS.with(|c| { let (a, r, d) = c.get(); c.set((a + 1, r, d)); });
            LIVE.with(|l| l.borrow_mut().insert(p as usize, (layout.size(), layout.align())));
        });
        p
    }
    unsafe fn dealloc(&self, ptr: *mut u8, layout: Layout) {
        tracked(|| {
            CALLS.with(|c| { let (a, r, d) = c.get(); c.set((a, r, d + 1)); });
            let rec = LIVE.with(|l| l.borrow_mut().remove(&(ptr as usize)));
            match rec {
                None => ERRORS.with(|e| e.borrow_mut().push(format!("dealloc of unknown or already freed pointer {ptr:?} (layout {layout:?})"))),
                Some((s, a)) if (s, a) != (layout.size(), layout.align()) => ERRORS.with(|e| e.borrow_mut().push(format!("dealloc with layout size={} align={} but block was allocated with size={s} align={a}", layout.size(), layout.align()))),
                _ => {}
            }
        });
        System.dealloc(ptr, layout)
    }
    unsafe fn realloc(&self, ptr: *mut u8, layout: Layout, new_size: usize) -> *mut u8 {
        let ok = tracked(|| {
            CALLS.with(|c| { let (a, r, d) = c.get(); c.set((a, r + 1, d)); });
            let rec = LIVE.with(|l| l.borrow_mut().remove(&(ptr as usize)));
            match rec {
                None => { ERRORS.with(|e| e.borrow_mut().push(format!("realloc of unknown pointer {ptr:?}"))); false }
                Some((s, a)) if (s, a) != (layout.size(), layout.align()) => {
                    ERRORS.with(|e| e.borrow_mut().push(format!("realloc called with layout size={} align={} but block was allocated with size={s} align={a}", layout.size(), layout.align())));
                    // keep the process alive: do the realloc with the true layout
                    LIVE.with(|l| l.borrow_mut().insert(ptr as usize, (s, a)));
                    false
                }
                _ => true,
            }
        });
        match ok {
            Some(false) => {
                // wrong layout: emulate with the recorded one to avoid UB in System
                let (s, a) = LIVE.with(|l| l.borrow_mut().remove(&(ptr as usize))).unwrap_or((layout.size(), layout.align()));
                BUSY.with(|b| b.set(true));
                let true_layout = Layout::from_size_align(s, a).unwrap();
                let np = System.alloc(Layout::from_size_align(new_size.max(1), a).unwrap());
                std::ptr::copy_nonoverlapping(ptr, np, s.min(new_size));
                System.dealloc(ptr, true_layout);
                LIVE.with(|l| l.borrow_mut().insert(np as usize, (new_size, a)));
                BUSY.with(|b| b.set(false));
                np
            }
            Some(true) => {
                let np = System.realloc(ptr, layout, new_size);
                BUSY.with(|b| b.set(true));
                LIVE.with(|l| l.borrow_mut().insert(np as usize, (new_size, layout.align())));
                BUSY.with(|b| b.set(false));
                np
            }
            None => System.realloc(ptr, layout, new_size),
        }
    }
}

#[global_allocator]
static A: Tracking = Tracking;

#[derive(Clone, Debug, Hash, Serialize, Deserialize)]
pub enum Op {
    Alloc { align_pow: u8, size: u32 },
    Realloc { idx: u16, size: u32 },
    Free { idx: u16 },
    Cleanup { align_pow: u8, size: u32, forget: bool },
}

fn size() -> impl Strategy<Value = u32> {
    prop_oneof![
        3 => Just(0u32),
        10 => 1u32..64,
        6 => 64u32..4096,
        2 => 4096u32..(1 << 16),
        1 => (1u32 << 16)..=(1 << 20),
        2 => (0u32..=20).prop_map(|p| 1 << p),
    ]
}

fn op() -> impl Strategy<Value = Op> {
    prop_oneof![
        4 => (0u8..=16, size()).prop_map(|(align_pow, size)| Op::Alloc { align_pow, size }),
        4 => (any::<u16>(), size()).prop_map(|(idx, size)| Op::Realloc { idx, size: size.max(1) }),
        2 => any::<u16>().prop_map(|idx| Op::Free { idx }),
        2 => (0u8..=16, size(), any::<bool>()).prop_map(|(align_pow, size, forget)| Op::Cleanup { align_pow, size, forget }),
    ]
}

struct Block {
    ptr: *mut u8,
    size: usize,
    align: usize,
    seed: u8,
}

fn fill(b: &Block) {
    for i in 0..b.size {
        unsafe { *b.ptr.add(i) = pat(b.seed, i) };
    }
}
fn pat(seed: u8, i: usize) -> u8 {
    (i as u8).wrapping_mul(31).wrapping_add(seed) ^ ((i >> 8) as u8)
}

fn drain_errors() -> Option<String> {
    let v = ERRORS.with(|e| std::mem::take(&mut *e.borrow_mut()));
    if v.is_empty() { None } else { Some(v.join("; ")) }
}

fn prop(ops: &Vec<Op>, obs: &mut Obs) -> CaseResult {
    // a memory error inside the code under test kills the process: the crash guard then
    // reports this history
    vcommon::abort::set_current_tl(&serde_json::to_string(ops).unwrap_or_default());
    let r = prop_inner(ops, obs);
    vcommon::abort::clear_tl();
    r
}

fn prop_inner(ops: &Vec<Op>, obs: &mut Obs) -> CaseResult {
    LIVE.with(|l| l.borrow_mut().clear());
    ERRORS.with(|e| e.borrow_mut().clear());
    let mut blocks: Vec<Block> = Vec::with_capacity(64);
    let mut seed = 1u8;
    let mut interesting = false;
    let mut zero = false;
    let res = (|| -> CaseResult {
        for (step, op) in ops.iter().enumerate() {
            seed = seed.wrapping_add(17);
            match *op {
                Op::Alloc { align_pow, size } => {
                    let align = 1usize << align_pow;
                    RECORD.with(|r| r.set(true));
                    let p = unsafe { cabi_realloc(std::ptr::null_mut(), 0, align, size as usize) };
                    RECORD.with(|r| r.set(false));
                    ensure!(!p.is_null(), "alloc-null", "step {step}: alloc(align {align}, size {size}) returned null");
                    ensure!(p as usize % align == 0, "alloc-misaligned", "step {step}: alloc(align {align}, size {size}) returned {p:?}, not aligned");
                    if size == 0 {
                        zero = true;
                        ensure!(p as usize == align, "zero-size-not-align", "step {step}: zero-sized allocation with align {align} returned {p:?}, expected the alignment value itself");
                    }
                    let b = Block { ptr: p, size: size as usize, align, seed };
                    fill(&b);
                    blocks.push(b);
                }
                Op::Realloc { idx, size } => {
                    if blocks.is_empty() { continue; }
                    let i = vcommon::pick_idx(idx, blocks.len());
                    let b = &mut blocks[i];
                    let new = size as usize;
                    RECORD.with(|r| r.set(true));
                    let p = unsafe { cabi_realloc(b.ptr, b.size, b.align, new) };
                    RECORD.with(|r| r.set(false));
                    ensure!(!p.is_null(), "realloc-null", "step {step}: realloc returned null");
                    ensure!(p as usize % b.align == 0, "realloc-misaligned", "step {step}: realloc(old {}, align {}, new {new}) returned {p:?}, not aligned", b.size, b.align);
                    let keep = b.size.min(new);
                    for k in 0..keep {
                        let got = unsafe { *p.add(k) };
                        ensure!(got == pat(b.seed, k), "realloc-contents", "step {step}: realloc(old {}, align {}, new {new}) lost byte {k}", b.size, b.align);
                    }
                    if b.align > 16 || b.size == 0 { interesting = true; }
                    b.ptr = p;
                    b.size = new;
                    b.seed = seed;
                    fill(b);
                }
                Op::Free { idx } => {
                    if blocks.is_empty() { continue; }
                    let i = vcommon::pick_idx(idx, blocks.len());
                    let b = blocks.swap_remove(i);
                    if b.size > 0 {
                        RECORD.with(|r| r.set(true));
                        unsafe { std::alloc::dealloc(b.ptr, Layout::from_size_align(b.size, b.align).unwrap()) };
                        RECORD.with(|r| r.set(false));
                    }
                }
                Op::Cleanup { align_pow, size, forget } => {
                    let layout = Layout::from_size_align(size as usize, 1usize << align_pow).unwrap();
                    let before = CALLS.with(|c| c.get());
                    RECORD.with(|r| r.set(true));
                    let (p, c) = Cleanup::new(layout);
                    RECORD.with(|r| r.set(false));
                    ensure!(p.is_null() == (size == 0), "cleanup-null-iff-zero", "step {step}: Cleanup::new({layout:?}) pointer {p:?}");
                    ensure!(c.is_some() == (size != 0), "cleanup-some-iff-nonzero", "step {step}: Cleanup::new({layout:?}) cleanup present = {}", c.is_some());
                    if size == 0 { zero = true; continue; }
                    ensure!(p as usize % layout.align() == 0, "cleanup-misaligned", "step {step}: Cleanup::new({layout:?}) returned {p:?}");
                    let was_live = LIVE.with(|l| l.borrow().get(&(p as usize)).copied());
                    ensure!(was_live == Some((layout.size(), layout.align())), "cleanup-alloc-layout", "step {step}: Cleanup::new({layout:?}) allocated {was_live:?}");
                    unsafe { std::ptr::write_bytes(p, 0xab, layout.size()) };
                    RECORD.with(|r| r.set(true));
                    if forget { c.unwrap().forget() } else { drop(c) }
                    RECORD.with(|r| r.set(false));
                    let after = CALLS.with(|c| c.get());
                    let live = LIVE.with(|l| l.borrow().contains_key(&(p as usize)));
                    if forget {
                        ensure!(live, "cleanup-forget-freed", "step {step}: forgotten Cleanup was freed");
                        RECORD.with(|r| r.set(true));
                        unsafe { std::alloc::dealloc(p, layout) };
                        RECORD.with(|r| r.set(false));
                    } else {
                        ensure!(!live, "cleanup-not-freed", "step {step}: dropped Cleanup did not free its block");
                        ensure!(after.2 == before.2 + 1, "cleanup-free-count", "step {step}: dropping Cleanup performed {} deallocations", after.2 - before.2);
                    }
                }
            }
            if let Some(e) = drain_errors() {
                return Err(Failure::new("allocator-contract", format!("step {step} ({op:?}): {e}")));
            }
        }
        Ok(())
    })();
    // release everything
    RECORD.with(|r| r.set(true));
    for b in blocks.drain(..) {
        if b.size > 0 {
            unsafe { std::alloc::dealloc(b.ptr, Layout::from_size_align(b.size, b.align).unwrap()) };
        }
    }
    RECORD.with(|r| r.set(false));
    res?;
    if let Some(e) = drain_errors() {
        return Err(Failure::new("allocator-contract", format!("at final release: {e}")));
    }
    let leaked = LIVE.with(|l| l.borrow().len());
    ensure!(leaked == 0, "leak", "{leaked} tracked block(s) still live after the history");
    obs.evals = ops.len() as u64;
    if interesting || zero {
        obs.nontrivial_by(ops);
    }
    if interesting { obs.label("realloc-of-overaligned-or-zero-block"); }
    if zero { obs.label("zero-size-request"); }
    if interesting && ops.len() <= 4 {
        obs.sample = Some(serde_json::to_value(ops).unwrap());
    }
    Ok(())
}

fn main() {
    let args = vcommon::parse_args();
    let mut check = Check::new(&args);
    if args.id != "C24" {
        vcommon::harness_error("rtpbt serves C24");
    }
    check.rule = "histories vec(op, 0..40): alloc(align 2^0..2^16, size 0..2^20 biased small and to powers of two), realloc of a live block (new size >= 1, the function's stated precondition; zero-size blocks grow through the alloc path), free through the Rust allocator with the block's layout, Cleanup::new(layout) then drop or forget+manual free; \
        model = ptr -> (size, align, byte pattern); tracking #[global_allocator] checks every layout passed to realloc/dealloc against the allocation's; \
        non-trivial = history reallocs a block with align > 16 or of size 0, or makes a zero-size request; distinct by hash of the history".into();
    check.assumptions.push("cabi_realloc is compiled natively through --cfg bytecodealliance_wit_bindgen_verif (pointer width 8); the system allocator stands in for the wasm allocator".into());
    let n = check.tier.pick(20_000, 1_000_000);
    vcommon::abort::install(&check.id, "history", check.sub_seed("history", 0));
    check.prop("history", || proptest::collection::vec(op(), 0..40), n, prop);
    check.finish()
}
