/* bump allocator: enough for "does it link and componentize" (C12) */
#include <stddef.h>
extern unsigned char __heap_base;
static size_t top = 0;
void *malloc(size_t n) {
  if (top == 0) top = (size_t)&__heap_base;
  top = (top + 15) & ~(size_t)15;
  size_t need = top + n;
  size_t pages = __builtin_wasm_memory_size(0);
  if (need > pages * 65536) {
    size_t grow = (need - pages * 65536 + 65535) / 65536;
    if (__builtin_wasm_memory_grow(0, grow) == (size_t)-1) __builtin_trap();
  }
  void *p = (void *)top;
  top = need;
  return p;
}
void free(void *p) { (void)p; }
void *calloc(size_t a, size_t b) { unsigned char *p = malloc(a * b); for (size_t i = 0; i < a * b; i++) p[i] = 0; return p; }
void *realloc(void *p, size_t n) { unsigned char *q = malloc(n); if (p) { unsigned char *s = p; for (size_t i = 0; i < n; i++) q[i] = s[i]; } return q; }
