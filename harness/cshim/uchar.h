#ifndef VERIF_UCHAR_H
#define VERIF_UCHAR_H
#include <stdint.h>
typedef uint16_t char16_t;
typedef uint32_t char32_t;
#endif
