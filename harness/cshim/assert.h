#ifndef VERIF_ASSERT_H
#define VERIF_ASSERT_H
_Noreturn void abort(void);
#define assert(x) ((x) ? (void)0 : abort())
#endif
