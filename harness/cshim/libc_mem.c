/* memory/string routines shared by both libc flavours */
#include <stddef.h>
void *memcpy(void *d, const void *s, size_t n) { unsigned char *a = d; const unsigned char *b = s; while (n--) *a++ = *b++; return d; }
void *memmove(void *d, const void *s, size_t n) { unsigned char *a = d; const unsigned char *b = s; if (a < b) { while (n--) *a++ = *b++; } else { a += n; b += n; while (n--) *--a = *--b; } return d; }
void *memset(void *d, int c, size_t n) { unsigned char *a = d; while (n--) *a++ = (unsigned char)c; return d; }
int memcmp(const void *x, const void *y, size_t n) { const unsigned char *a = x, *b = y; while (n--) { if (*a != *b) return *a - *b; a++; b++; } return 0; }
size_t strlen(const char *s) { size_t n = 0; while (s[n]) n++; return n; }
_Noreturn void abort(void) { __builtin_trap(); }
