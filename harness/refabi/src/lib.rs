//! Independent reference implementation of the Component Model canonical ABI
//! (layout, store/load, flattening, flat lowering/lifting), written from the
//! specification digest in DESIGN.md Appendix D — not from wit-parser's SizeAlign
//! or wit-bindgen. Parameterised by pointer width P in {4, 8}.
pub mod abi;
pub mod gen;

pub use abi::*;

pub fn load(abi: &Abi, mem: &Mem, t: &Ty, at: u64) -> Val {
    let rd = |n: u64| {
        let mut x = [0u8; 8];
        x[..n as usize].copy_from_slice(mem.r(at, n));
        u64::from_le_bytes(x)
    };
    match t {
        Ty::Bool => Val::Bool(rd(1) != 0),
        Ty::S8 => Val::S8(rd(1) as i8),
        Ty::U8 => Val::U8(rd(1) as u8),
        Ty::S16 => Val::S16(rd(2) as i16),
        Ty::U16 => Val::U16(rd(2) as u16),
        Ty::S32 => Val::S32(rd(4) as i32),
        Ty::U32 => Val::U32(rd(4) as u32),
        Ty::S64 => Val::S64(rd(8) as i64),
        Ty::U64 => Val::U64(rd(8)),
        Ty::F32 => Val::F32(rd(4) as u32),
        Ty::F64 => Val::F64(rd(8)),
        Ty::Char => Val::Char(char::from_u32(rd(4) as u32).expect("bad char in memory")),
        Ty::Own | Ty::Borrow | Ty::Future | Ty::Stream | Ty::ErrorContext => {
            Val::Handle(rd(4) as u32)
        }
        Ty::String => {
            let p = mem.r_ptr(at, abi.p);
            let l = mem.r_ptr(at + abi.p, abi.p);
            Val::Str(String::from_utf8(mem.r(p, l).to_vec()).expect("utf8 in memory"))
        }
        Ty::List(et) => {
            let p = mem.r_ptr(at, abi.p);
            let l = mem.r_ptr(at + abi.p, abi.p);
            assert!(l == 0 || p % abi.align(et) == 0, "list pointer misaligned");
            let es = abi.size(et);
            // touch the whole element area first: a wild (pointer, length) pair is rejected by
            // the memory's validity check before anything is iterated
            let _ = mem.r(p, l.checked_mul(es).expect("list byte length overflows"));
            Val::List((0..l).map(|k| load(abi, mem, et, p + k * es)).collect())
        }
        Ty::Map(k, v) => {
            let et = Ty::Tuple(vec![(**k).clone(), (**v).clone()]);
            let Val::List(l) = load(abi, mem, &Ty::List(Box::new(et)), at) else {
                unreachable!()
            };
            Val::Map(
                l.into_iter()
                    .map(|e| {
                        let Val::Tuple(mut kv) = e else {
                            unreachable!()
                        };
                        let v = kv.pop().unwrap();
                        (kv.pop().unwrap(), v)
                    })
                    .collect(),
            )
        }
        Ty::FixedList(et, n) => {
            let es = abi.size(et);
            Val::List(
                (0..*n as u64)
                    .map(|k| load(abi, mem, et, at + k * es))
                    .collect(),
            )
        }
        Ty::Record(fs) => Val::Record(
            fs.iter()
                .zip(abi.field_offsets(fs))
                .map(|((_, ft), o)| load(abi, mem, ft, at + o))
                .collect(),
        ),
        Ty::Tuple(ts) => {
            let fs: Vec<(String, Ty)> = ts.iter().map(|t| (String::new(), t.clone())).collect();
            Val::Tuple(
                fs.iter()
                    .zip(abi.field_offsets(&fs))
                    .map(|((_, ft), o)| load(abi, mem, ft, at + o))
                    .collect(),
            )
        }
        Ty::Flags(fs) => {
            let n = abi.size(t);
            let bytes = mem.r(at, n);
            Val::Flags(
                (0..fs.len())
                    .map(|i| bytes[i / 8] & (1 << (i % 8)) != 0)
                    .collect(),
            )
        }
        Ty::Variant(_) | Ty::Enum(_) | Ty::Option(_) | Ty::Result(..) => {
            let Ty::Variant(cs) = abi.despecialize(t) else {
                unreachable!()
            };
            let d = rd(Abi::disc_size(cs.len())) as usize;
            assert!(d < cs.len(), "bad discriminant in memory");
            let p = cs[d]
                .1
                .as_ref()
                .map(|pt| Box::new(load(abi, mem, pt, at + abi.payload_offset(&cs))));
            match t {
                Ty::Variant(_) => Val::Variant(d, p),
                Ty::Enum(_) => Val::Enum(d),
                Ty::Option(_) => Val::Option(p),
                Ty::Result(..) => Val::Result(if d == 0 { Ok(p) } else { Err(p) }),
                _ => unreachable!(),
            }
        }
    }
}
/// records and tuples compare equal when their fields do (interpreter lifts both as Record)
pub fn norm(v: &Val) -> Val {
    match v {
        Val::Tuple(f) | Val::Record(f) => Val::Record(f.iter().map(norm).collect()),
        Val::List(l) => Val::List(l.iter().map(norm).collect()),
        Val::Map(m) => Val::Map(m.iter().map(|(k, v)| (norm(k), norm(v))).collect()),
        Val::Variant(i, p) => Val::Variant(*i, p.as_ref().map(|p| Box::new(norm(p)))),
        Val::Enum(i) => Val::Variant(*i, None),
        Val::Option(o) => Val::Variant(o.is_some() as usize, o.as_ref().map(|p| Box::new(norm(p)))),
        Val::Result(Ok(o)) => Val::Variant(0, o.as_ref().map(|p| Box::new(norm(p)))),
        Val::Result(Err(o)) => Val::Variant(1, o.as_ref().map(|p| Box::new(norm(p)))),
        v => v.clone(),
    }
}

// ---------- WIT printing
pub fn wit_ty(t: &Ty, decls: &mut Vec<String>) -> String {
    match t {
        Ty::Bool => "bool".into(),
        Ty::S8 => "s8".into(),
        Ty::U8 => "u8".into(),
        Ty::S16 => "s16".into(),
        Ty::U16 => "u16".into(),
        Ty::S32 => "s32".into(),
        Ty::U32 => "u32".into(),
        Ty::S64 => "s64".into(),
        Ty::U64 => "u64".into(),
        Ty::F32 => "f32".into(),
        Ty::F64 => "f64".into(),
        Ty::Char => "char".into(),
        Ty::String => "string".into(),
        Ty::Own => "res".into(),
        Ty::Borrow => "borrow<res>".into(),
        Ty::Future => "future<u8>".into(),
        Ty::Stream => "stream<u8>".into(),
        Ty::ErrorContext => "error-context".into(),
        Ty::List(t) => format!("list<{}>", wit_ty(t, decls)),
        Ty::FixedList(t, n) => format!("list<{}, {n}>", wit_ty(t, decls)),
        Ty::Map(k, v) => format!("map<{}, {}>", wit_ty(k, decls), wit_ty(v, decls)),
        Ty::Tuple(ts) => format!(
            "tuple<{}>",
            ts.iter()
                .map(|t| wit_ty(t, decls))
                .collect::<Vec<_>>()
                .join(", ")
        ),
        Ty::Option(t) => format!("option<{}>", wit_ty(t, decls)),
        Ty::Result(a, b) => match (a, b) {
            (None, None) => "result".into(),
            (Some(a), None) => format!("result<{}>", wit_ty(a, decls)),
            (None, Some(b)) => format!("result<_, {}>", wit_ty(b, decls)),
            (Some(a), Some(b)) => format!("result<{}, {}>", wit_ty(a, decls), wit_ty(b, decls)),
        },
        Ty::Record(fs) => {
            let body = fs
                .iter()
                .map(|(n, t)| format!("{n}: {}", wit_ty(t, decls)))
                .collect::<Vec<_>>()
                .join(", ");
            let name = format!("t{}", decls.len());
            decls.push(format!("record {name} {{ {body} }}"));
            name
        }
        Ty::Variant(cs) => {
            let body = cs
                .iter()
                .map(|(n, t)| match t {
                    Some(t) => format!("{n}({})", wit_ty(t, decls)),
                    None => n.clone(),
                })
                .collect::<Vec<_>>()
                .join(", ");
            let name = format!("t{}", decls.len());
            decls.push(format!("variant {name} {{ {body} }}"));
            name
        }
        Ty::Enum(cs) => {
            let name = format!("t{}", decls.len());
            decls.push(format!("enum {name} {{ {} }}", cs.join(", ")));
            name
        }
        Ty::Flags(fs) => {
            let name = format!("t{}", decls.len());
            decls.push(format!("flags {name} {{ {} }}", fs.join(", ")));
            name
        }
    }
}

pub fn has_borrow(t: &Ty) -> bool {
    match t {
        Ty::Borrow => true,
        Ty::List(t) | Ty::FixedList(t, _) | Ty::Option(t) => has_borrow(t),
        Ty::Map(k, v) => has_borrow(k) || has_borrow(v),
        Ty::Record(fs) => fs.iter().any(|(_, t)| has_borrow(t)),
        Ty::Tuple(ts) => ts.iter().any(has_borrow),
        Ty::Variant(cs) => cs.iter().any(|(_, t)| t.as_ref().map_or(false, has_borrow)),
        Ty::Result(a, b) => {
            a.as_deref().map_or(false, has_borrow) || b.as_deref().map_or(false, has_borrow)
        }
        _ => false,
    }
}

pub fn has_heap(t: &Ty) -> bool {
    match t {
        Ty::String | Ty::List(_) | Ty::Map(..) => true,
        Ty::FixedList(t, _) | Ty::Option(t) => has_heap(t),
        Ty::Record(fs) => fs.iter().any(|(_, t)| has_heap(t)),
        Ty::Tuple(ts) => ts.iter().any(has_heap),
        Ty::Variant(cs) => cs.iter().any(|(_, t)| t.as_ref().map_or(false, has_heap)),
        Ty::Result(a, b) => {
            a.as_deref().map_or(false, has_heap) || b.as_deref().map_or(false, has_heap)
        }
        _ => false,
    }
}
pub fn fixed_with_heap(t: &Ty) -> bool {
    match t {
        Ty::FixedList(e, _) => has_heap(e) || fixed_with_heap(e),
        Ty::List(t) | Ty::Option(t) => fixed_with_heap(t),
        Ty::Map(k, v) => fixed_with_heap(k) || fixed_with_heap(v),
        Ty::Record(fs) => fs.iter().any(|(_, t)| fixed_with_heap(t)),
        Ty::Tuple(ts) => ts.iter().any(fixed_with_heap),
        Ty::Variant(cs) => cs
            .iter()
            .any(|(_, t)| t.as_ref().map_or(false, fixed_with_heap)),
        Ty::Result(a, b) => {
            a.as_deref().map_or(false, fixed_with_heap)
                || b.as_deref().map_or(false, fixed_with_heap)
        }
        _ => false,
    }
}
pub fn has_ec(t: &Ty) -> bool {
    match t {
        Ty::ErrorContext => true,
        Ty::FixedList(t, _) | Ty::Option(t) | Ty::List(t) => has_ec(t),
        Ty::Map(k, v) => has_ec(k) || has_ec(v),
        Ty::Record(fs) => fs.iter().any(|(_, t)| has_ec(t)),
        Ty::Tuple(ts) => ts.iter().any(has_ec),
        Ty::Variant(cs) => cs.iter().any(|(_, t)| t.as_ref().map_or(false, has_ec)),
        Ty::Result(a, b) => {
            a.as_deref().map_or(false, has_ec) || b.as_deref().map_or(false, has_ec)
        }
        _ => false,
    }
}

// ---------- C02: call glue
pub fn lift_flat(abi: &Abi, mem: &Mem, t: &Ty, it: &mut std::slice::Iter<'_, u64>) -> Val {
    let mut nx = || *it.next().expect("ran out of flat values");
    match t {
        Ty::Bool => Val::Bool(nx() as u32 != 0),
        Ty::S8 => Val::S8(nx() as i8),
        Ty::U8 => Val::U8(nx() as u8),
        Ty::S16 => Val::S16(nx() as i16),
        Ty::U16 => Val::U16(nx() as u16),
        Ty::S32 => Val::S32(nx() as i32),
        Ty::U32 => Val::U32(nx() as u32),
        Ty::S64 => Val::S64(nx() as i64),
        Ty::U64 => Val::U64(nx()),
        Ty::F32 => Val::F32(nx() as u32),
        Ty::F64 => Val::F64(nx()),
        Ty::Char => Val::Char(char::from_u32(nx() as u32).expect("char")),
        Ty::Own | Ty::Borrow | Ty::Future | Ty::Stream | Ty::ErrorContext => {
            Val::Handle(nx() as u32)
        }
        Ty::String | Ty::List(_) | Ty::Map(..) => {
            let p = nx();
            let l = nx();
            if mem.real {
                // (pointer, length) pair laid out in a local buffer
                let buf: [u64; 2] = [p, l];
                assert_eq!(abi.p, 8, "real memory is 64-bit");
                let before = mem.trusted.replace((buf.as_ptr() as u64, 16));
                let v = load(abi, mem, t, buf.as_ptr() as u64);
                mem.trusted.set(before);
                return v;
            }
            let mut tmp = Mem {
                bytes: mem.bytes.clone(),
                top: mem.top,
                allocs: vec![],
                real: false,
                alloc_fn: None,
                valid_fn: None,
                trusted: std::cell::Cell::new((0, 0)),
            };
            let a = tmp.alloc(2 * abi.p, abi.p);
            abi.store_ptr(&mut tmp, a, p);
            abi.store_ptr(&mut tmp, a + abi.p, l);
            load(abi, &tmp, t, a)
        }
        Ty::FixedList(et, n) => Val::List((0..*n).map(|_| lift_flat(abi, mem, et, it)).collect()),
        Ty::Record(fs) => Val::Record(fs.iter().map(|(_, t)| lift_flat(abi, mem, t, it)).collect()),
        Ty::Tuple(ts) => Val::Tuple(ts.iter().map(|t| lift_flat(abi, mem, t, it)).collect()),
        Ty::Flags(fs) => {
            let mut bits = vec![false; fs.len()];
            for c in 0..(fs.len() + 31) / 32 {
                let w = nx() as u32;
                for b in 0..32 {
                    if c * 32 + b < fs.len() {
                        bits[c * 32 + b] = w & (1 << b) != 0;
                    }
                }
            }
            Val::Flags(bits)
        }
        Ty::Variant(_) | Ty::Enum(_) | Ty::Option(_) | Ty::Result(..) => {
            let Ty::Variant(cs) = abi.despecialize(t) else {
                unreachable!()
            };
            let want = abi.flatten(t);
            let d = nx() as usize;
            assert!(d < cs.len(), "bad flat discriminant");
            let slots: Vec<u64> = (1..want.len()).map(|_| nx()).collect();
            let p = cs[d].1.as_ref().map(|pt| {
                let have = abi.flatten(pt);
                let conv: Vec<u64> = have
                    .iter()
                    .zip(&slots)
                    .map(|(h, b)| match h {
                        Flat::I32 | Flat::F32 => *b & 0xffff_ffff,
                        _ => *b,
                    })
                    .collect();
                Box::new(lift_flat(abi, mem, pt, &mut conv.iter()))
            });
            match t {
                Ty::Variant(_) => Val::Variant(d, p),
                Ty::Enum(_) => Val::Enum(d),
                Ty::Option(_) => Val::Option(p),
                Ty::Result(..) => Val::Result(if d == 0 { Ok(p) } else { Err(p) }),
                _ => unreachable!(),
            }
        }
    }
}
