
#[derive(Clone, Debug, PartialEq, Eq, Hash, serde::Serialize, serde::Deserialize)]
pub enum Ty {
    Bool,
    S8,
    U8,
    S16,
    U16,
    S32,
    U32,
    S64,
    U64,
    F32,
    F64,
    Char,
    String,
    List(Box<Ty>),
    FixedList(Box<Ty>, u32),
    Map(Box<Ty>, Box<Ty>),
    Record(Vec<(String, Ty)>),
    Tuple(Vec<Ty>),
    Variant(Vec<(String, Option<Ty>)>),
    Enum(Vec<String>),
    Option(Box<Ty>),
    Result(Option<Box<Ty>>, Option<Box<Ty>>),
    Flags(Vec<String>),
    Own,
    Borrow,
    Future,
    Stream,
    ErrorContext,
}
#[derive(Clone, Debug, PartialEq, Eq, Hash, serde::Serialize, serde::Deserialize)]
pub enum Val {
    Bool(bool),
    S8(i8),
    U8(u8),
    S16(i16),
    U16(u16),
    S32(i32),
    U32(u32),
    S64(i64),
    U64(u64),
    F32(u32),
    F64(u64),
    Char(char),
    Str(String),
    List(Vec<Val>),
    Map(Vec<(Val, Val)>),
    Record(Vec<Val>),
    Tuple(Vec<Val>),
    Variant(usize, Option<Box<Val>>),
    Enum(usize),
    Option(Option<Box<Val>>),
    Result(Result<Option<Box<Val>>, Option<Box<Val>>>),
    Flags(Vec<bool>),
    Handle(u32),
}
#[derive(Clone, Copy, Debug, PartialEq, Eq)]
pub enum Flat {
    I32,
    I64,
    F32,
    F64,
}
#[derive(Clone, Copy, Debug, PartialEq)]
pub enum Core {
    I32(u32),
    I64(u64),
    F32(u32),
    F64(u64),
    Ptr(u64),
    Len(u64),
    P64(u64),
}
impl Core {
    pub fn bits(&self) -> u64 {
        match *self {
            Core::I32(x) | Core::F32(x) => x as u64,
            Core::I64(x) | Core::F64(x) | Core::Ptr(x) | Core::Len(x) | Core::P64(x) => x,
        }
    }
}

pub struct Abi {
    pub p: u64,
}
fn align_to(x: u64, a: u64) -> u64 {
    (x + a - 1) / a * a
}
impl Abi {
    pub fn despecialize(&self, t: &Ty) -> Ty {
        match t {
            Ty::Tuple(ts) => Ty::Record(
                ts.iter()
                    .enumerate()
                    .map(|(i, t)| (i.to_string(), t.clone()))
                    .collect(),
            ),
            Ty::Enum(cs) => Ty::Variant(cs.iter().map(|c| (c.clone(), None)).collect()),
            Ty::Option(t) => Ty::Variant(vec![
                ("none".into(), None),
                ("some".into(), Some((**t).clone())),
            ]),
            Ty::Result(o, e) => Ty::Variant(vec![
                ("ok".into(), o.as_deref().cloned()),
                ("error".into(), e.as_deref().cloned()),
            ]),
            Ty::Map(k, v) => Ty::List(Box::new(Ty::Tuple(vec![(**k).clone(), (**v).clone()]))),
            t => t.clone(),
        }
    }
    pub fn disc_size(n: usize) -> u64 {
        if n <= 256 {
            1
        } else if n <= 65536 {
            2
        } else {
            4
        }
    }
    pub fn align(&self, t: &Ty) -> u64 {
        match self.despecialize(t) {
            Ty::Bool | Ty::S8 | Ty::U8 => 1,
            Ty::S16 | Ty::U16 => 2,
            Ty::S32 | Ty::U32 | Ty::F32 | Ty::Char => 4,
            Ty::S64 | Ty::U64 | Ty::F64 => 8,
            Ty::String | Ty::List(_) => self.p,
            Ty::FixedList(t, _) => self.align(&t),
            Ty::Record(fs) => fs.iter().map(|(_, t)| self.align(t)).max().unwrap_or(1),
            Ty::Variant(cs) => Self::disc_size(cs.len()).max(
                cs.iter()
                    .filter_map(|(_, t)| t.as_ref())
                    .map(|t| self.align(t))
                    .max()
                    .unwrap_or(1),
            ),
            Ty::Flags(fs) => {
                let n = fs.len();
                if n <= 8 {
                    1
                } else if n <= 16 {
                    2
                } else {
                    4
                }
            }
            Ty::Own | Ty::Borrow | Ty::Future | Ty::Stream | Ty::ErrorContext => 4,
            _ => unreachable!(),
        }
    }
    pub fn size(&self, t: &Ty) -> u64 {
        match self.despecialize(t) {
            Ty::Bool | Ty::S8 | Ty::U8 => 1,
            Ty::S16 | Ty::U16 => 2,
            Ty::S32 | Ty::U32 | Ty::F32 | Ty::Char => 4,
            Ty::S64 | Ty::U64 | Ty::F64 => 8,
            Ty::String | Ty::List(_) => 2 * self.p,
            Ty::FixedList(t, n) => self.size(&t) * n as u64,
            Ty::Record(fs) => {
                let mut s = 0;
                for (_, t) in &fs {
                    s = align_to(s, self.align(t));
                    s += self.size(t);
                }
                align_to(s, self.align(&Ty::Record(fs.clone())))
            }
            Ty::Variant(cs) => {
                let v = Ty::Variant(cs.clone());
                let s = self.payload_offset(&cs)
                    + cs.iter()
                        .filter_map(|(_, t)| t.as_ref())
                        .map(|t| self.size(t))
                        .max()
                        .unwrap_or(0);
                align_to(s, self.align(&v))
            }
            Ty::Flags(fs) => {
                let n = fs.len() as u64;
                if n == 0 {
                    0
                } else if n <= 8 {
                    1
                } else if n <= 16 {
                    2
                } else {
                    4 * ((n + 31) / 32)
                }
            }
            Ty::Own | Ty::Borrow | Ty::Future | Ty::Stream | Ty::ErrorContext => 4,
            _ => unreachable!(),
        }
    }
    pub fn payload_offset(&self, cs: &[(String, Option<Ty>)]) -> u64 {
        let ma = cs
            .iter()
            .filter_map(|(_, t)| t.as_ref())
            .map(|t| self.align(t))
            .max()
            .unwrap_or(1);
        align_to(Self::disc_size(cs.len()), ma)
    }
    pub fn field_offsets(&self, fs: &[(String, Ty)]) -> Vec<u64> {
        let mut s = 0;
        fs.iter()
            .map(|(_, t)| {
                s = align_to(s, self.align(t));
                let o = s;
                s += self.size(t);
                o
            })
            .collect()
    }

    // ---- flattening (concrete core types; pointers/lengths are i32 for P=4 and i64 for P=8)
    pub fn ptr_flat(&self) -> Flat {
        if self.p == 4 {
            Flat::I32
        } else {
            Flat::I64
        }
    }
    pub fn join(&self, a: Flat, b: Flat) -> Flat {
        use Flat::*;
        if a == b {
            a
        } else if matches!((a, b), (I32, F32) | (F32, I32)) {
            I32
        } else {
            I64
        }
    }
    pub fn flatten(&self, t: &Ty) -> Vec<Flat> {
        match self.despecialize(t) {
            Ty::Bool
            | Ty::S8
            | Ty::U8
            | Ty::S16
            | Ty::U16
            | Ty::S32
            | Ty::U32
            | Ty::Char
            | Ty::Own
            | Ty::Borrow
            | Ty::Future
            | Ty::Stream
            | Ty::ErrorContext => vec![Flat::I32],
            Ty::S64 | Ty::U64 => vec![Flat::I64],
            Ty::F32 => vec![Flat::F32],
            Ty::F64 => vec![Flat::F64],
            Ty::String | Ty::List(_) => vec![self.ptr_flat(), self.ptr_flat()],
            Ty::FixedList(t, n) => (0..n).flat_map(|_| self.flatten(&t)).collect(),
            Ty::Record(fs) => fs.iter().flat_map(|(_, t)| self.flatten(t)).collect(),
            Ty::Flags(fs) => vec![Flat::I32; (fs.len() + 31) / 32],
            Ty::Variant(cs) => {
                let mut out: Vec<Flat> = vec![];
                for (_, t) in &cs {
                    if let Some(t) = t {
                        for (i, f) in self.flatten(t).into_iter().enumerate() {
                            if i < out.len() {
                                out[i] = self.join(out[i], f);
                            } else {
                                out.push(f);
                            }
                        }
                    }
                }
                let mut r = vec![Flat::I32];
                r.extend(out);
                r
            }
            _ => unreachable!(),
        }
    }

    // ---- memory (spec store); `alloc` hands out buffers for lists/strings
    pub fn store(&self, mem: &mut Mem, v: &Val, t: &Ty, at: u64) {
        match (self.despecialize(t), v) {
            (Ty::Bool, Val::Bool(b)) => mem.w(at, &[*b as u8]),
            (Ty::S8, Val::S8(x)) => mem.w(at, &x.to_le_bytes()),
            (Ty::U8, Val::U8(x)) => mem.w(at, &x.to_le_bytes()),
            (Ty::S16, Val::S16(x)) => mem.w(at, &x.to_le_bytes()),
            (Ty::U16, Val::U16(x)) => mem.w(at, &x.to_le_bytes()),
            (Ty::S32, Val::S32(x)) => mem.w(at, &x.to_le_bytes()),
            (Ty::U32, Val::U32(x)) => mem.w(at, &x.to_le_bytes()),
            (Ty::S64, Val::S64(x)) => mem.w(at, &x.to_le_bytes()),
            (Ty::U64, Val::U64(x)) => mem.w(at, &x.to_le_bytes()),
            (Ty::F32, Val::F32(x)) => mem.w(at, &x.to_le_bytes()),
            (Ty::F64, Val::F64(x)) => mem.w(at, &x.to_le_bytes()),
            (Ty::Char, Val::Char(c)) => mem.w(at, &(*c as u32).to_le_bytes()),
            (Ty::Own | Ty::Borrow | Ty::Future | Ty::Stream | Ty::ErrorContext, Val::Handle(h)) => {
                mem.w(at, &h.to_le_bytes())
            }
            (Ty::String, Val::Str(s)) => {
                let p = mem.alloc(s.len() as u64, 1);
                mem.w(p, s.as_bytes());
                self.store_ptr(mem, at, p);
                self.store_ptr(mem, at + self.p, s.len() as u64);
            }
            (Ty::List(et), v) => {
                let items: Vec<Val> = match v {
                    Val::List(l) => l.clone(),
                    Val::Map(m) => m
                        .iter()
                        .map(|(k, x)| Val::Tuple(vec![k.clone(), x.clone()]))
                        .collect(),
                    _ => panic!(),
                };
                let es = self.size(&et);
                let p = mem.alloc(es * items.len() as u64, self.align(&et));
                for (i, x) in items.iter().enumerate() {
                    self.store(mem, x, &et, p + i as u64 * es);
                }
                self.store_ptr(mem, at, p);
                self.store_ptr(mem, at + self.p, items.len() as u64);
            }
            (Ty::FixedList(et, _), Val::List(l)) => {
                let es = self.size(&et);
                for (i, x) in l.iter().enumerate() {
                    self.store(mem, x, &et, at + i as u64 * es);
                }
            }
            (Ty::Record(fs), v) => {
                let items = match v {
                    Val::Record(l) | Val::Tuple(l) => l,
                    _ => panic!("{v:?}"),
                };
                for (((_, ft), o), x) in fs.iter().zip(self.field_offsets(&fs)).zip(items) {
                    self.store(mem, x, ft, at + o);
                }
            }
            (Ty::Variant(cs), v) => {
                let (idx, payload): (usize, Option<Val>) = match v {
                    Val::Variant(i, p) => (*i, p.as_deref().cloned()),
                    Val::Enum(i) => (*i, None),
                    Val::Option(o) => (o.is_some() as usize, o.as_deref().cloned()),
                    Val::Result(Ok(o)) => (0, o.as_deref().cloned()),
                    Val::Result(Err(o)) => (1, o.as_deref().cloned()),
                    _ => panic!(),
                };
                let ds = Self::disc_size(cs.len());
                mem.w(at, &(idx as u32).to_le_bytes()[..ds as usize]);
                if let (Some(pt), Some(pv)) = (&cs[idx].1, payload) {
                    self.store(mem, &pv, pt, at + self.payload_offset(&cs));
                }
            }
            (Ty::Flags(fs), Val::Flags(bits)) => {
                let n = self.size(&Ty::Flags(fs.clone()));
                let mut bytes = vec![0u8; n as usize];
                for (i, b) in bits.iter().enumerate() {
                    if *b {
                        bytes[i / 8] |= 1 << (i % 8);
                    }
                }
                mem.w(at, &bytes);
            }
            (t, v) => panic!("store mismatch {t:?} {v:?}"),
        }
    }
    pub fn store_ptr(&self, mem: &mut Mem, at: u64, v: u64) {
        if self.p == 4 {
            mem.w(at, &(v as u32).to_le_bytes())
        } else {
            mem.w(at, &v.to_le_bytes())
        }
    }

    // ---- flat lowering (spec lower_flat), allocating list storage in `mem`
    pub fn lower_flat(&self, mem: &mut Mem, v: &Val, t: &Ty) -> Vec<(Flat, u64)> {
        match (self.despecialize(t), v) {
            (Ty::Bool, Val::Bool(b)) => vec![(Flat::I32, *b as u64)],
            (Ty::S8, Val::S8(x)) => vec![(Flat::I32, *x as i32 as u32 as u64)],
            (Ty::U8, Val::U8(x)) => vec![(Flat::I32, *x as u64)],
            (Ty::S16, Val::S16(x)) => vec![(Flat::I32, *x as i32 as u32 as u64)],
            (Ty::U16, Val::U16(x)) => vec![(Flat::I32, *x as u64)],
            (Ty::S32, Val::S32(x)) => vec![(Flat::I32, *x as u32 as u64)],
            (Ty::U32, Val::U32(x)) => vec![(Flat::I32, *x as u64)],
            (Ty::S64, Val::S64(x)) => vec![(Flat::I64, *x as u64)],
            (Ty::U64, Val::U64(x)) => vec![(Flat::I64, *x)],
            (Ty::F32, Val::F32(x)) => vec![(Flat::F32, *x as u64)],
            (Ty::F64, Val::F64(x)) => vec![(Flat::F64, *x)],
            (Ty::Char, Val::Char(c)) => vec![(Flat::I32, *c as u64)],
            (Ty::Own | Ty::Borrow | Ty::Future | Ty::Stream | Ty::ErrorContext, Val::Handle(h)) => {
                vec![(Flat::I32, *h as u64)]
            }
            (Ty::String, _) | (Ty::List(_), _) if mem.real => {
                // the (pointer, length) pair goes through a scratch buffer of the harness, not
                // through guest memory
                let mut buf = [0u64; 2];
                let tmp = buf.as_mut_ptr() as u64;
                let before = mem.trusted.replace((tmp, 16));
                self.store(mem, v, t, tmp);
                let p = mem.r_ptr(tmp, self.p);
                let l = mem.r_ptr(tmp + self.p, self.p);
                mem.trusted.set(before);
                vec![(self.ptr_flat(), p), (self.ptr_flat(), l)]
            }
            (Ty::String, _) | (Ty::List(_), _) => {
                let tmp = mem.alloc(2 * self.p, self.p);
                self.store(mem, v, t, tmp);
                let p = mem.r_ptr(tmp, self.p);
                let l = mem.r_ptr(tmp + self.p, self.p);
                vec![(self.ptr_flat(), p), (self.ptr_flat(), l)]
            }
            (Ty::FixedList(et, _), Val::List(l)) => l
                .iter()
                .flat_map(|x| self.lower_flat(mem, x, &et))
                .collect(),
            (Ty::Record(fs), v) => {
                let items = match v {
                    Val::Record(l) | Val::Tuple(l) => l,
                    _ => panic!(),
                };
                fs.iter()
                    .zip(items)
                    .flat_map(|((_, ft), x)| self.lower_flat(mem, x, ft))
                    .collect()
            }
            (Ty::Flags(fs), Val::Flags(bits)) => (0..(fs.len() + 31) / 32)
                .map(|c| {
                    let mut w = 0u32;
                    for i in 0..32 {
                        if bits.get(c * 32 + i).copied().unwrap_or(false) {
                            w |= 1 << i;
                        }
                    }
                    (Flat::I32, w as u64)
                })
                .collect(),
            (Ty::Variant(cs), v) => {
                let (idx, payload): (usize, Option<Val>) = match v {
                    Val::Variant(i, p) => (*i, p.as_deref().cloned()),
                    Val::Enum(i) => (*i, None),
                    Val::Option(o) => (o.is_some() as usize, o.as_deref().cloned()),
                    Val::Result(Ok(o)) => (0, o.as_deref().cloned()),
                    Val::Result(Err(o)) => (1, o.as_deref().cloned()),
                    _ => panic!(),
                };
                let want = self.flatten(&Ty::Variant(cs.clone()));
                let mut out = vec![(Flat::I32, idx as u64)];
                let have = match (&cs[idx].1, payload) {
                    (Some(pt), Some(pv)) => self.lower_flat(mem, &pv, pt),
                    _ => vec![],
                };
                for (i, w) in want[1..].iter().enumerate() {
                    out.push(match have.get(i) {
                        Some((h, bits)) => (
                            *w,
                            match (h, w) {
                                (Flat::F32, Flat::I32)
                                | (Flat::I32, Flat::I64)
                                | (Flat::F32, Flat::I64)
                                | (Flat::F64, Flat::I64) => *bits,
                                (a, b) if a == b => *bits,
                                (a, b) => panic!("bad join {a:?}->{b:?}"),
                            },
                        ),
                        None => (*w, 0),
                    });
                }
                out
            }
            (t, v) => panic!("lower mismatch {t:?} {v:?}"),
        }
    }
}

/// Flat byte memory with a bump allocator and an allocation ledger.
pub struct Mem {
    pub bytes: Vec<u8>,
    pub top: u64,
    pub allocs: Vec<(u64, u64, u64)>,
    /// real mode: addresses are machine addresses of the running process (native execution of
    /// generated bindings); `alloc_fn(size, align)` provides buffers (the guest's cabi_realloc)
    pub real: bool,
    pub alloc_fn: Option<fn(u64, u64) -> u64>,
    /// real mode: is [ptr, ptr+len) readable guest memory? (None: not checked)
    pub valid_fn: Option<fn(u64, u64) -> bool>,
    /// real mode: a range of the harness's own memory that reads may touch (scratch buffers)
    pub trusted: std::cell::Cell<(u64, u64)>,
}
impl Mem {
    pub fn new() -> Mem {
        Mem {
            bytes: vec![0xAA; 1 << 20],
            top: 64,
            allocs: vec![],
            real: false,
            alloc_fn: None,
            valid_fn: None,
            trusted: std::cell::Cell::new((0, 0)),
        }
    }
    pub fn real(alloc_fn: fn(u64, u64) -> u64) -> Mem {
        Mem { bytes: vec![], top: 0, allocs: vec![], real: true, alloc_fn: Some(alloc_fn), valid_fn: None, trusted: std::cell::Cell::new((0, 0)) }
    }
    pub fn alloc(&mut self, size: u64, align: u64) -> u64 {
        if size == 0 {
            return align;
        }
        if self.real {
            let p = (self.alloc_fn.expect("real memory needs an allocator"))(size, align.max(1));
            self.allocs.push((p, size, align));
            return p;
        }
        self.top = align_to(self.top + 16, align.max(1));
        let p = self.top;
        self.top += size;
        assert!((self.top as usize) < self.bytes.len(), "mem exhausted");
        self.allocs.push((p, size, align));
        p
    }
    pub fn w(&mut self, at: u64, b: &[u8]) {
        if self.real {
            unsafe { std::ptr::copy_nonoverlapping(b.as_ptr(), at as usize as *mut u8, b.len()) };
            return;
        }
        self.bytes[at as usize..at as usize + b.len()].copy_from_slice(b)
    }
    pub fn r(&self, at: u64, n: u64) -> &[u8] {
        if self.real {
            if n == 0 {
                return &[];
            }
            let (ta, tl) = self.trusted.get();
            let in_trusted = at >= ta && at + n <= ta + tl;
            if let (Some(v), false) = (self.valid_fn, in_trusted) {
                assert!(v(at, n), "guest memory [{at:#x}, +{n}) is not a live allocation of the guest");
            }
            return unsafe { std::slice::from_raw_parts(at as usize as *const u8, n as usize) };
        }
        &self.bytes[at as usize..(at + n) as usize]
    }
    pub fn r_ptr(&self, at: u64, p: u64) -> u64 {
        if p == 4 {
            u32::from_le_bytes(self.r(at, 4).try_into().unwrap()) as u64
        } else {
            u64::from_le_bytes(self.r(at, 8).try_into().unwrap())
        }
    }
}
