//! proptest generators for types and values.
use crate::abi::{Ty, Val};
use proptest::prelude::*;

const FLAG_SIZES: &[usize] = &[1, 2, 3, 7, 8, 9, 15, 16, 17, 31, 32, 33, 40, 63, 64, 65];

pub fn scalar() -> impl Strategy<Value = Ty> {
    prop_oneof![
        Just(Ty::Bool),
        Just(Ty::S8),
        Just(Ty::U8),
        Just(Ty::S16),
        Just(Ty::U16),
        Just(Ty::S32),
        Just(Ty::U32),
        Just(Ty::S64),
        Just(Ty::U64),
        Just(Ty::F32),
        Just(Ty::F64),
        Just(Ty::Char),
    ]
}

pub fn leaf() -> impl Strategy<Value = Ty> {
    prop_oneof![
        12 => scalar(),
        3 => Just(Ty::String),
        1 => Just(Ty::Own),
        1 => Just(Ty::Borrow),
        1 => Just(Ty::Future),
        1 => Just(Ty::Stream),
        1 => Just(Ty::ErrorContext),
        3 => (0usize..FLAG_SIZES.len()).prop_map(|i| Ty::Flags((0..FLAG_SIZES[i]).map(|i| format!("fl{i}")).collect())),
        2 => prop_oneof![4 => 1usize..5, 1 => Just(257usize)].prop_map(|n| Ty::Enum((0..n).map(|i| format!("en{i}")).collect())),
    ]
}

/// Leaf without borrow handles (for result positions).
pub fn ty() -> impl Strategy<Value = Ty> {
    ty_sized(4, 24, 5)
}

pub fn ty_sized(depth: u32, size: u32, width: u32) -> impl Strategy<Value = Ty> {
    ty_with_leaf(leaf().boxed(), depth, size, width)
}

/// leaves biased towards heap data and owned handles (for the cleanup checks)
pub fn heap_leaf() -> impl Strategy<Value = Ty> {
    prop_oneof![
        5 => Just(Ty::String),
        3 => scalar().prop_map(|t| Ty::List(Box::new(t))),
        2 => Just(Ty::List(Box::new(Ty::String))),
        2 => Just(Ty::Own),
        1 => Just(Ty::Future),
        1 => Just(Ty::Stream),
        1 => Just(Ty::Borrow),
        4 => scalar(),
    ]
}

pub fn ty_with_leaf(leaf: BoxedStrategy<Ty>, depth: u32, size: u32, width: u32) -> impl Strategy<Value = Ty> {
    leaf.prop_recursive(depth, size, width, |inner| {
        prop_oneof![
            3 => inner.clone().prop_map(|t| Ty::List(Box::new(t))),
            2 => (inner.clone(), 1u32..4).prop_map(|(t, n)| Ty::FixedList(Box::new(t), n)),
            2 => (
                prop_oneof![
                    Just(Ty::U8),
                    Just(Ty::String),
                    Just(Ty::S32),
                    Just(Ty::Char),
                    Just(Ty::Bool),
                    Just(Ty::U64),
                    Just(Ty::S16)
                ],
                inner.clone()
            )
                .prop_map(|(k, v)| Ty::Map(Box::new(k), Box::new(v))),
            4 => prop::collection::vec(inner.clone(), 1..5).prop_map(|fs| Ty::Record(
                fs.into_iter()
                    .enumerate()
                    .map(|(i, t)| (format!("f{i}"), t))
                    .collect()
            )),
            2 => prop::collection::vec(inner.clone(), 1..4).prop_map(Ty::Tuple),
            4 => prop::collection::vec(prop::option::weighted(0.75, inner.clone()), 1..5).prop_map(|cs| {
                Ty::Variant(
                    cs.into_iter()
                        .enumerate()
                        .map(|(i, t)| (format!("c{i}"), t))
                        .collect(),
                )
            }),
            2 => inner.clone().prop_map(|t| Ty::Option(Box::new(t))),
            2 => (prop::option::of(inner.clone()), prop::option::of(inner))
                .prop_map(|(a, b)| Ty::Result(a.map(Box::new), b.map(Box::new))),
        ]
    })
}

fn i_edge<T: Copy + std::fmt::Debug + 'static>(edges: Vec<T>, any: BoxedStrategy<T>) -> BoxedStrategy<T> {
    let n = edges.len();
    prop_oneof![
        1 => (0..n).prop_map(move |i| edges[i]),
        1 => any,
    ]
    .boxed()
}

const F32_SPECIAL: &[u32] = &[
    0, 0x8000_0000, 0x3f80_0000, 0x7f80_0000, 0xff80_0000, 0x7fc0_0000, 0x7fa0_0000, 0xffc0_0001,
    0x7f80_0001, 0x0000_0001, 0x7f7f_ffff, 0xffff_ffff,
];
const F64_SPECIAL: &[u64] = &[
    0, 0x8000_0000_0000_0000, 0x3ff0_0000_0000_0000, 0x7ff0_0000_0000_0000, 0xfff0_0000_0000_0000,
    0x7ff8_0000_0000_0000, 0x7ff4_0000_0000_0000, 0xfff8_0000_0000_0001, 0x7ff0_0000_0000_0001, 1,
    0x7fef_ffff_ffff_ffff, 0xffff_ffff_ffff_ffff, 0x0000_0000_ffff_ffff, 0xffff_ffff_0000_0000,
];
const CHARS: &[char] = &['\0', 'a', '\u{7f}', '\u{80}', '\u{7ff}', '\u{800}', '\u{d7ff}', '\u{e000}', '\u{ffff}', '\u{10000}', '\u{10ffff}'];

pub fn val(t: &Ty) -> BoxedStrategy<Val> {
    match t {
        Ty::Bool => any::<bool>().prop_map(Val::Bool).boxed(),
        Ty::S8 => i_edge(vec![0, 1, -1, i8::MIN, i8::MAX], any::<i8>().boxed()).prop_map(Val::S8).boxed(),
        Ty::U8 => i_edge(vec![0, 1, 0x7f, 0x80, 0xff], any::<u8>().boxed()).prop_map(Val::U8).boxed(),
        Ty::S16 => i_edge(vec![0, 1, -1, i16::MIN, i16::MAX, 0x7f, 0x80, -129], any::<i16>().boxed()).prop_map(Val::S16).boxed(),
        Ty::U16 => i_edge(vec![0, 1, 0xff, 0x100, 0x7fff, 0x8000, 0xffff], any::<u16>().boxed()).prop_map(Val::U16).boxed(),
        Ty::S32 => i_edge(vec![0, 1, -1, i32::MIN, i32::MAX, 0x7fff, 0x8000, -32769], any::<i32>().boxed()).prop_map(Val::S32).boxed(),
        Ty::U32 => i_edge(vec![0, 1, 0xffff, 0x1_0000, 0x7fff_ffff, 0x8000_0000, u32::MAX], any::<u32>().boxed()).prop_map(Val::U32).boxed(),
        Ty::S64 => i_edge(vec![0, 1, -1, i64::MIN, i64::MAX, 0x7fff_ffff, 0x8000_0000, -0x8000_0001, 0xffff_ffff, 0x1_0000_0000], any::<i64>().boxed()).prop_map(Val::S64).boxed(),
        Ty::U64 => i_edge(vec![0, 1, 0xffff_ffff, 0x1_0000_0000, 0x7fff_ffff_ffff_ffff, 0x8000_0000_0000_0000, u64::MAX], any::<u64>().boxed()).prop_map(Val::U64).boxed(),
        Ty::F32 => i_edge(F32_SPECIAL.to_vec(), any::<u32>().boxed()).prop_map(Val::F32).boxed(),
        Ty::F64 => i_edge(F64_SPECIAL.to_vec(), any::<u64>().boxed()).prop_map(Val::F64).boxed(),
        Ty::Char => i_edge(CHARS.to_vec(), any::<char>().boxed()).prop_map(Val::Char).boxed(),
        Ty::String => prop_oneof![
            4 => ".{0,6}".prop_map(Val::Str),
            1 => Just(Val::Str(String::new())),
            1 => "[a\\x00é€😀]{0,12}".prop_map(Val::Str),
        ]
        .boxed(),
        Ty::Own | Ty::Borrow | Ty::Future | Ty::Stream | Ty::ErrorContext => {
            prop_oneof![4 => (1u32..1000), 1 => Just(u32::MAX), 1 => Just(0x8000_0000u32)].prop_map(Val::Handle).boxed()
        }
        Ty::List(t) => prop_oneof![
            6 => prop::collection::vec(val(t), 0..4),
            1 => prop::collection::vec(val(t), 4..20),
        ]
        .prop_map(Val::List)
        .boxed(),
        Ty::FixedList(t, n) => prop::collection::vec(val(t), *n as usize)
            .prop_map(Val::List)
            .boxed(),
        Ty::Map(k, v) => prop::collection::vec((val(k), val(v)), 0..3)
            .prop_map(|mut m| {
                // map keys are unique
                let mut seen = std::collections::BTreeSet::new();
                m.retain(|(k, _)| seen.insert(format!("{k:?}")));
                Val::Map(m)
            })
            .boxed(),
        Ty::Record(fs) => fs
            .iter()
            .map(|(_, t)| val(t))
            .collect::<Vec<_>>()
            .prop_map(Val::Record)
            .boxed(),
        Ty::Tuple(ts) => ts
            .iter()
            .map(val)
            .collect::<Vec<_>>()
            .prop_map(Val::Tuple)
            .boxed(),
        Ty::Variant(cs) => {
            let cs = cs.clone();
            (0..cs.len())
                .prop_flat_map(move |i| match &cs[i].1 {
                    Some(t) => val(t)
                        .prop_map(move |v| Val::Variant(i, Some(Box::new(v))))
                        .boxed(),
                    None => Just(Val::Variant(i, None)).boxed(),
                })
                .boxed()
        }
        Ty::Enum(cs) => {
            let n = cs.len();
            prop_oneof![3 => (0..n), 1 => Just(n - 1)].prop_map(Val::Enum).boxed()
        }
        Ty::Option(t) => prop::option::weighted(0.7, val(t))
            .prop_map(|o| Val::Option(o.map(Box::new)))
            .boxed(),
        Ty::Result(a, b) => {
            let a = a.clone();
            let b = b.clone();
            any::<bool>()
                .prop_flat_map(move |ok| {
                    let side = if ok { a.clone() } else { b.clone() };
                    match side {
                        Some(t) => val(&t)
                            .prop_map(move |v| {
                                let p = Some(Box::new(v));
                                Val::Result(if ok { Ok(p) } else { Err(p) })
                            })
                            .boxed(),
                        None => Just(Val::Result(if ok { Ok(None) } else { Err(None) })).boxed(),
                    }
                })
                .boxed()
        }
        Ty::Flags(fs) => {
            let n = fs.len();
            prop_oneof![
                3 => prop::collection::vec(any::<bool>(), n),
                1 => Just(vec![true; n]),
                1 => Just(vec![false; n]),
                1 => Just((0..n).map(|i| i + 1 == n).collect::<Vec<_>>()),
            ]
            .prop_map(Val::Flags)
            .boxed()
        }
    }
}

/// A (type, value) pair.
pub fn ty_and_val() -> impl Strategy<Value = (Ty, Val)> {
    ty().prop_flat_map(|t| {
        let v = val(&t);
        (Just(t), v)
    })
}
