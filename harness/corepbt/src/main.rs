mod c25;
mod c26;
mod c27;
mod c34;

fn main() {
    let args = vcommon::parse_args();
    let mut check = vcommon::Check::new(&args);
    match args.id.as_str() {
        "C25" => c25::run(&mut check),
        "C26" => c26::run(&mut check),
        "C27" => c27::run(&mut check),
        "C34" => c34::run(&mut check),
        other => vcommon::harness_error(format!("corepbt does not serve {other}")),
    }
    check.finish()
}
