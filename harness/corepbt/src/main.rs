mod c25;
mod c26;

fn main() {
    let args = vcommon::parse_args();
    let mut check = vcommon::Check::new(&args);
    match args.id.as_str() {
        "C25" => c25::run(&mut check),
        "C26" => c26::run(&mut check),
        other => vcommon::harness_error(format!("corepbt does not serve {other}")),
    }
    check.finish()
}
