//! C34 — test configuration is read from exactly the leading comment block;
//! a whitespace-separated argument string means the same as the list of words.
//!
//! The module under test is private to `wit-bindgen-test`; it is compiled here
//! straight from /repo's working tree.
#[path = "/repo/crates/test/src/config.rs"]
#[allow(dead_code)]
mod config;

use proptest::prelude::*;
use serde::{Deserialize, Serialize};
use std::collections::BTreeMap;
use vcommon::{ensure, CaseResult, Check, Obs};

#[derive(Clone, Debug, Hash, Serialize, Deserialize)]
pub enum Line {
    /// marker + ` key = value`
    Cfg(u8, Val),
    /// marker followed by nothing / only spaces (an empty TOML line)
    EmptyMarker,
    /// marker + TOML comment
    CommentMarker,
    Blank,
    Code(u8),
    /// marker preceded by whitespace: not a configuration line
    IndentedCfg(u8, Val),
}

#[derive(Clone, Debug, Hash, Serialize, Deserialize)]
pub enum Val {
    Int(i32),
    Str(String),
    Bool(bool),
    List(Vec<String>),
}

#[derive(Clone, Debug, Hash, Serialize, Deserialize)]
pub struct File {
    pub marker: u8,
    pub lines: Vec<Line>,
    pub trailing_newline: bool,
    pub crlf: bool,
}

const MARKERS: &[&str] = &["//@", "#@", ";;@", "--@"];
const KEYS: &[&str] = &["alpha", "beta", "gamma", "args", "k-1", "k_2"];
const CODE: &[&str] = &["fn main() {}", "x", "// plain comment", "# hash", "@", "/ /@ a = 1", "int x = 1; //@ z = 9", ";; note"];

fn val() -> impl Strategy<Value = Val> {
    prop_oneof![
        any::<i32>().prop_map(Val::Int),
        "[a-z #@/;=\\-]{0,8}".prop_map(Val::Str),
        any::<bool>().prop_map(Val::Bool),
        proptest::collection::vec("[a-z\\-]{0,4}", 0..3).prop_map(Val::List),
    ]
}

fn line() -> impl Strategy<Value = Line> {
    prop_oneof![
        6 => (0u8..KEYS.len() as u8, val()).prop_map(|(k, v)| Line::Cfg(k, v)),
        1 => Just(Line::EmptyMarker),
        1 => Just(Line::CommentMarker),
        2 => Just(Line::Blank),
        2 => (0u8..CODE.len() as u8).prop_map(Line::Code),
        1 => (0u8..KEYS.len() as u8, val()).prop_map(|(k, v)| Line::IndentedCfg(k, v)),
    ]
}

fn file() -> impl Strategy<Value = File> {
    (
        0u8..MARKERS.len() as u8,
        proptest::collection::vec(line(), 0..12),
        any::<bool>(),
        prop::bool::weighted(0.1),
    )
        .prop_map(|(marker, lines, trailing_newline, crlf)| File {
            marker,
            lines,
            trailing_newline,
            crlf,
        })
}

fn toml_val(v: &Val) -> (String, toml::Value) {
    match v {
        Val::Int(i) => (i.to_string(), toml::Value::Integer(*i as i64)),
        Val::Bool(b) => (b.to_string(), toml::Value::Boolean(*b)),
        Val::Str(s) => (format!("'{s}'"), toml::Value::String(s.clone())),
        Val::List(l) => (
            format!(
                "[{}]",
                l.iter().map(|s| format!("'{s}'")).collect::<Vec<_>>().join(", ")
            ),
            toml::Value::Array(l.iter().map(|s| toml::Value::String(s.clone())).collect()),
        ),
    }
}

fn prop(f: &File, obs: &mut Obs) -> CaseResult {
    let marker = MARKERS[f.marker as usize];
    let mut text = String::new();
    let mut expected: BTreeMap<String, toml::Value> = BTreeMap::new();
    let mut in_block = true;
    let mut later_marker_lines = 0;
    let mut block_lines = 0;
    let mut dup_in_block = false;
    let nl = if f.crlf { "\r\n" } else { "\n" };
    let n = f.lines.len();
    for (i, l) in f.lines.iter().enumerate() {
        let s = match l {
            Line::Cfg(k, v) => {
                let (src, tv) = toml_val(v);
                let key = KEYS[*k as usize];
                if in_block {
                    if expected.insert(key.to_string(), tv).is_some() {
                        dup_in_block = true;
                    }
                    block_lines += 1;
                } else {
                    later_marker_lines += 1;
                }
                format!("{marker} {key} = {src}")
            }
            Line::EmptyMarker => {
                if in_block {
                    block_lines += 1;
                }
                marker.to_string()
            }
            Line::CommentMarker => {
                if in_block {
                    block_lines += 1;
                }
                format!("{marker} # a toml comment")
            }
            Line::Blank => {
                in_block = false;
                String::new()
            }
            Line::Code(c) => {
                let code = CODE[*c as usize];
                // a code line that happens to start with the marker is a config line
                // by definition; the alphabet avoids that, but check
                if code.starts_with(marker) {
                    return Ok(());
                }
                in_block = false;
                code.to_string()
            }
            Line::IndentedCfg(k, v) => {
                in_block = false;
                let (src, _) = toml_val(v);
                later_marker_lines += 1;
                format!(" {marker} {} = {src}", KEYS[*k as usize])
            }
        };
        text.push_str(&s);
        if i + 1 < n || f.trailing_newline {
            text.push_str(nl);
        }
    }
    let parsed = config::parse_test_config::<BTreeMap<String, toml::Value>>(&text, marker);
    if dup_in_block {
        // duplicate keys inside the leading block are a TOML error by definition
        ensure!(
            parsed.is_err(),
            "dup-key-accepted",
            "duplicate key inside the leading block was accepted: {text:?}"
        );
        obs.label("duplicate-key-in-block");
        return Ok(());
    }
    let parsed = match parsed {
        Ok(p) => p,
        Err(e) => {
            return Err(vcommon::Failure::new(
                "parse-error",
                format!("leading block is valid TOML but parsing failed: {e:#}; file {text:?}"),
            ))
        }
    };
    ensure!(
        parsed == expected,
        "config-mismatch",
        "parsed {parsed:?} but the leading block says {expected:?}; file {text:?}"
    );
    if later_marker_lines > 0 && block_lines > 0 {
        obs.nontrivial_by(f);
        obs.label("later-marker-lines-after-block");
        if f.lines.len() <= 5 {
            obs.sample = Some(serde_json::json!(text));
        }
    } else if later_marker_lines > 0 {
        obs.label("marker-lines-but-no-leading-block");
        obs.nontrivial_by(f);
    }
    Ok(())
}

fn words_prop(words: &Vec<String>, seps: &Vec<u8>, obs: &mut Obs) -> CaseResult {
    const SEPS: &[&str] = &[" ", "  ", "\t", " \t ", "\n", "   "];
    let mut s = String::new();
    // optional leading/trailing whitespace too
    if let Some(first) = seps.first() {
        if first % 3 == 0 {
            s.push_str(SEPS[*first as usize % SEPS.len()]);
        }
    }
    for (i, w) in words.iter().enumerate() {
        if i > 0 {
            s.push_str(SEPS[seps.get(i).copied().unwrap_or(0) as usize % SEPS.len()]);
        }
        s.push_str(w);
    }
    if let Some(last) = seps.last() {
        if last % 2 == 0 {
            s.push_str(SEPS[*last as usize % SEPS.len()]);
        }
    }
    let a: Vec<String> = config::StringList::String(s.clone()).into();
    let b: Vec<String> = config::StringList::List(words.clone()).into();
    ensure!(
        a == b,
        "stringlist-mismatch",
        "StringList::String({s:?}) => {a:?} but the word list is {b:?}"
    );
    // and through TOML, as the runner reads it
    #[derive(Deserialize)]
    struct T {
        args: config::StringList,
    }
    if !s.contains('\n') && !s.contains('\'') {
        let t1: T = toml::from_str(&format!("args = '{s}'")).map_err(|e| {
            vcommon::Failure::new("toml", format!("toml string did not parse: {e}"))
        })?;
        let list = words.iter().map(|w| format!("'{w}'")).collect::<Vec<_>>().join(", ");
        let t2: T = toml::from_str(&format!("args = [{list}]")).map_err(|e| {
            vcommon::Failure::new("toml", format!("toml list did not parse: {e}"))
        })?;
        let a: Vec<String> = t1.args.into();
        let b: Vec<String> = t2.args.into();
        ensure!(a == b, "stringlist-mismatch-toml", "{a:?} != {b:?} for {s:?}");
    }
    if words.len() >= 2 && s.contains("  ") || s.contains('\t') {
        obs.nontrivial_by(&s);
        obs.label("multi-space-or-tab-separator");
        if words.len() == 3 {
            obs.sample = Some(serde_json::json!({"string": s, "words": words}));
        }
    }
    Ok(())
}

pub fn run(check: &mut Check) {
    check.rule = "files of 0..12 lines drawn from {marker+`key = value`, bare marker, marker+TOML comment, blank, code (incl. lines containing the marker later or after a space), indented marker line} for markers //@ #@ ;;@ --@, LF or CRLF; oracle by construction: table of the leading marker block; \
        StringList: 0..6 words joined by random runs of spaces/tabs/newlines vs the explicit list (direct and through TOML); \
        non-trivial = file has marker-prefixed lines after the leading block ended (or string with multi-char/tab separators); distinct by hash of the case"
        .into();
    check.assumptions.push("config.rs is compiled from /repo/crates/test/src/config.rs via #[path]".into());
    let n = check.tier.pick(20_000, 500_000);
    check.prop("files", file, n, prop);
    check.prop(
        "stringlist",
        || {
            (
                proptest::collection::vec("[a-z\\-=]{1,5}", 0..6),
                proptest::collection::vec(any::<u8>(), 0..7),
            )
        },
        n,
        |(w, s), obs| words_prop(w, s, obs),
    );
}
