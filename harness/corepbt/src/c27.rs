//! C27 — distinct packages in one namespace get distinct generated module names.
use proptest::prelude::*;
use serde::{Deserialize, Serialize};
use std::collections::BTreeMap;
use vcommon::{CaseResult, Check, Failure, Obs};
use wit_bindgen_core::name_package_module;
use wit_parser::Resolve;

#[derive(Clone, Debug, Hash, Serialize, Deserialize, PartialEq, Eq, PartialOrd, Ord)]
pub struct Pkg {
    pub name: String,
    pub version: Option<String>,
}

const WORDS: &[&str] = &["dep", "foo", "foo-bar", "foobar", "dep1", "a", "a-b", "http", "dep-x"];
const PRE: &[&str] = &["a", "b", "rc", "RC", "1", "0", "a-b", "a.b", "x1", "alpha", "aB", "a-B", "rc.1", "rc-1", "rc1"];

fn version() -> impl Strategy<Value = String> {
    (
        0u8..3,
        0u8..3,
        0u8..3,
        proptest::option::weighted(0.5, 0usize..PRE.len()),
        proptest::option::weighted(0.3, 0usize..PRE.len()),
    )
        .prop_map(|(a, b, c, pre, build)| {
            let mut s = format!("{a}.{b}.{c}");
            if let Some(p) = pre {
                s.push('-');
                s.push_str(PRE[p]);
            }
            if let Some(p) = build {
                s.push('+');
                s.push_str(PRE[p]);
            }
            s
        })
}

fn pkg() -> impl Strategy<Value = Pkg> {
    (
        0usize..WORDS.len(),
        proptest::option::weighted(0.85, version()),
        // occasionally glue a version-like suffix onto the *name*
        proptest::option::weighted(0.12, (0u8..3, 0u8..3, 0u8..3, any::<bool>())),
    )
        .prop_map(|(w, version, suffix)| {
            let mut name = WORDS[w].to_string();
            if let Some((a, b, c, dashed)) = suffix {
                if dashed {
                    name.push_str(&format!("{a}-{b}-{c}"));
                } else {
                    name.push_str(&format!("{a}{b}{c}"));
                }
            }
            Pkg { name, version }
        })
}

fn build_resolve(pkgs: &[Pkg]) -> anyhow::Result<(Resolve, Vec<wit_parser::PackageId>)> {
    let mut text = String::from("package root:main;\n");
    for (i, p) in pkgs.iter().enumerate() {
        let v = p.version.as_ref().map(|v| format!("@{v}")).unwrap_or_default();
        text.push_str(&format!("package ns:{}{v} {{ interface i{i} {{}} }}\n", p.name));
    }
    let mut r = Resolve::default();
    r.push_str("c27.wit", &text)?;
    let mut ids = vec![];
    for p in pkgs {
        let id = r
            .packages
            .iter()
            .find(|(_, q)| {
                q.name.namespace == "ns"
                    && q.name.name == p.name
                    && q.name.version.as_ref().map(|v| v.to_string()) == p.version
            })
            .map(|(id, _)| id)
            .ok_or_else(|| anyhow::anyhow!("package {p:?} not found after parsing"))?;
        ids.push(id);
    }
    Ok((r, ids))
}

fn squash(s: &str) -> String {
    s.chars()
        .filter(|c| !matches!(c, '.' | '-' | '+' | '_'))
        .flat_map(|c| c.to_lowercase())
        .collect()
}

fn prop(pkgs: &Vec<Pkg>, obs: &mut Obs) -> CaseResult {
    // distinct (name, version) pairs by construction
    let mut set: Vec<Pkg> = pkgs.clone();
    set.sort();
    set.dedup();
    if set.len() < 2 {
        return Ok(());
    }
    let (resolve, ids) = match build_resolve(&set) {
        Ok(x) => x,
        Err(e) => {
            obs.label(format!(
                "rejected-by-wit-parser:{}",
                e.to_string().lines().next().unwrap_or("").chars().take(60).collect::<String>()
            ));
            return Ok(());
        }
    };
    let mut seen: BTreeMap<String, &Pkg> = BTreeMap::new();
    let mut same_name_versions = false;
    for (i, a) in set.iter().enumerate() {
        for b in &set[i + 1..] {
            if a.name == b.name {
                same_name_versions = true;
            }
        }
    }
    if same_name_versions {
        obs.nontrivial_by(&set);
        obs.label("same-name-different-version");
        if set.len() <= 3 {
            obs.sample = Some(serde_json::to_value(&set).unwrap());
        }
    }
    for (p, id) in set.iter().zip(ids) {
        let m = name_package_module(&resolve, id);
        if let Some(prev) = seen.get(&m) {
            // classify the root cause
            let sig = if prev.name == p.name {
                let (va, vb) = (
                    prev.version.clone().unwrap_or_default(),
                    p.version.clone().unwrap_or_default(),
                );
                if squash(&va) == squash(&vb) {
                    "collide same-name versions-equal-modulo-separators-and-case"
                } else {
                    "collide same-name other"
                }
            } else {
                // the version is only appended when the name has several versions
                let eff = |q: &Pkg| {
                    let siblings = set.iter().filter(|o| o.name == q.name).count();
                    if siblings > 1 {
                        format!("{}{}", q.name, q.version.clone().unwrap_or_default())
                    } else {
                        q.name.clone()
                    }
                };
                let fa = eff(prev);
                let fb = eff(p);
                if squash(&fa) == squash(&fb) {
                    "collide different-names name+version-concatenation-ambiguous"
                } else {
                    "collide different-names other"
                }
            };
            return Err(Failure::new(
                sig,
                format!(
                    "packages ns:{}{} and ns:{}{} both get module name {m:?}",
                    prev.name,
                    prev.version.as_ref().map(|v| format!("@{v}")).unwrap_or_default(),
                    p.name,
                    p.version.as_ref().map(|v| format!("@{v}")).unwrap_or_default()
                ),
            ));
        }
        seen.insert(m, p);
    }
    Ok(())
}

pub fn run(check: &mut Check) {
    check.rule = "sets of 2..5 packages in namespace `ns` parsed into a real Resolve: names from kebab words (optionally with a version-like suffix), versions M.m.p with optional pre-release/build metadata from an alphabet with dots, hyphens and case variants, or unversioned; \
        oracle: name_package_module injective on the set; non-trivial = at least two packages share a name and differ in version; distinct by hash of the set"
        .into();
    check
        .assumptions
        .push("sets that wit-parser rejects (e.g. duplicate package names it considers equal) are discarded and counted under labels".into());
    for rf in check.regression_files() {
        if let Ok(p) = serde_json::from_value::<Vec<Pkg>>(rf.case.clone()) {
            check.case("regression", &p, prop);
        }
    }
    // witnesses of the listed findings
    let w1 = vec![
        Pkg { name: "dep".into(), version: Some("1.0.0-a.b".into()) },
        Pkg { name: "dep".into(), version: Some("1.0.0-a-b".into()) },
    ];
    check.case("witness-separators", &w1, prop);
    let n = check.tier.pick(20_000, 400_000);
    check.prop("sets", || proptest::collection::vec(pkg(), 2..6), n, prop);
}
