//! C26 — fresh temporary names never collide with defined names.
use proptest::prelude::*;
use serde::{Deserialize, Serialize};
use std::collections::BTreeSet;
use vcommon::{ensure, CaseResult, Check, Obs};
use wit_bindgen_core::Ns;

#[derive(Clone, Debug, Hash, Serialize, Deserialize)]
pub enum Op {
    Insert(String),
    Tmp(String),
}

fn name() -> impl Strategy<Value = String> {
    // small alphabet with base+digits forms so that tmp's counter output collides
    // with explicitly defined names
    prop_oneof![
        4 => (0u16..6, 0u16..14).prop_map(|(b, d)| {
            let base = ["a", "b", "ptr", "len", "a0", "ret"][b as usize];
            match d {
                0..=3 => base.to_string(),
                n => format!("{base}{}", n - 4),
            }
        }),
        1 => "[ab01]{1,3}",
    ]
}

fn op() -> impl Strategy<Value = Op> {
    prop_oneof![name().prop_map(Op::Insert), name().prop_map(Op::Tmp)]
}

fn prop(ops: &Vec<Op>, obs: &mut Obs) -> CaseResult {
    let mut ns = Ns::default();
    let mut model: BTreeSet<String> = BTreeSet::new();
    let mut tmp_after_insert_collision = false;
    let mut conflicts = 0;
    let mut suffixed = 0;
    for (i, op) in ops.iter().enumerate() {
        match op {
            Op::Insert(n) => {
                let r = ns.insert(n);
                let expect_err = model.contains(n);
                ensure!(
                    r.is_err() == expect_err,
                    "insert-conflict-mismatch",
                    "step {i}: insert({n:?}) returned {r:?} but model says defined={expect_err}"
                );
                if expect_err {
                    conflicts += 1;
                }
                model.insert(n.clone());
            }
            Op::Tmp(base) => {
                let got = ns.tmp(base);
                ensure!(
                    !model.contains(&got),
                    "tmp-collides",
                    "step {i}: tmp({base:?}) returned {got:?} which is already defined/handed out"
                );
                ensure!(
                    got.starts_with(base.as_str()),
                    "tmp-not-based",
                    "step {i}: tmp({base:?}) returned {got:?}, not derived from the base"
                );
                if got != *base {
                    suffixed += 1;
                    if model.iter().any(|m| m.starts_with(base.as_str()) && m != base) {
                        tmp_after_insert_collision = true;
                    }
                }
                model.insert(got);
            }
        }
    }
    obs.evals = ops.len() as u64;
    if suffixed > 0 && tmp_after_insert_collision {
        obs.nontrivial_by(ops);
        obs.label("suffix-with-competing-names");
    }
    if conflicts > 0 {
        obs.label("insert-conflict");
    }
    if obs.sample.is_none() && suffixed > 1 && ops.len() < 12 {
        obs.sample = Some(serde_json::to_value(ops).unwrap());
    }
    Ok(())
}

pub fn run(check: &mut Check) {
    check.rule = "histories vec(op, 0..40) of insert(name)/tmp(base) over names {a,b,ptr,len,a0,ret}+digits and [ab01]{1,3}; \
        model = set of defined names; non-trivial = tmp had to add a suffix while other names with the same base (base+digits) were already defined; distinct by hash of the history"
        .into();
    check.assumptions.push("names are arbitrary non-empty strings; one Ns per history".into());
    for rf in check.regression_files() {
        if let Ok(ops) = serde_json::from_value::<Vec<Op>>(rf.case.clone()) {
            check.case("regression", &ops, prop);
        }
    }
    let n = check.tier.pick(100_000, 3_000_000);
    check.prop("history", || proptest::collection::vec(op(), 0..40), n, prop);
}
