//! C25 — Source buffer preserves text and tracks indentation by brace structure.
//!
//! Domain: histories of push_str / push_str_literal / write! / indent / deindent
//! whose fragments are token soups over braces, `//` comments, blanks, and
//! whitespace, split at arbitrary token boundaries (so fragments split lines).
//!
//! Oracle (from the property statement, line based):
//!  (a) with the leading whitespace of every line removed, buffer == concatenation
//!      of the appended text;
//!  (b) a non-blank line's leading whitespace is 2*depth spaces plus the line's own
//!      leading whitespace where the buffer keeps it, where depth is the number of
//!      lines so far that END with a syntax `{` outside a line comment minus the
//!      lines that START with a syntax `}` outside a line comment (the closing line
//!      itself is printed one level out), plus explicit indent()/deindent();
//!  (c) after the history a probe line is printed at the model's depth (so
//!      brace-balanced histories restore the starting indentation);
//!  (d) literal text never contributes braces or comment markers.

use proptest::prelude::*;
use serde::{Deserialize, Serialize};
use std::fmt::Write as _;
use vcommon::{ensure, CaseResult, Check, Obs};
use wit_bindgen_core::Source;

const TOKENS: &[&str] = &[
    "{", "}", "//", " ", "  ", "\n", "x", "foo();", "if y", "else", "=", "// c", "\t", "{}", "};",
    "\"s\"", "(", ")", ",", "y;", "\n\n",
];

#[derive(Clone, Debug, Hash, Serialize, Deserialize)]
pub enum Op {
    /// token indices, literal?, via write! instead of push_str
    Push(Vec<u8>, bool, bool),
    Indent(u8),
    Deindent(u8),
}

fn op() -> impl Strategy<Value = Op> {
    let toks = proptest::collection::vec(
        prop_oneof![
            3 => Just(0u8), 3 => Just(1u8), 1 => Just(2u8), 3 => Just(3u8), 1 => Just(4u8),
            5 => Just(5u8), 2 => Just(6u8), 2 => Just(7u8), 1 => Just(8u8), 1 => Just(9u8),
            1 => Just(10u8), 1 => Just(11u8), 1 => Just(12u8), 1 => Just(13u8), 1 => Just(14u8),
            1 => Just(15u8), 1 => Just(16u8), 1 => Just(17u8), 1 => Just(18u8), 1 => Just(19u8),
            1 => Just(20u8),
        ],
        0..7,
    );
    prop_oneof![
        12 => (toks, prop::bool::weighted(0.15), any::<bool>()).prop_map(|(t, l, w)| Op::Push(t, l, w)),
        1 => (1u8..3).prop_map(Op::Indent),
        1 => (1u8..3).prop_map(Op::Deindent),
    ]
}

/// Shapes where the fragment-based implementation is known to differ from the
/// line-based statement; each can be excluded by construction once it is a
/// listed known finding (or in-scope otherwise).
#[derive(Clone, Copy, Default, Debug)]
pub struct Exclude {
    /// multi-line fragment starting mid-line with leading whitespace
    pub midline_ws: bool,
    /// `//` that is not the first non-blank text of a fragment piece
    pub midfrag_comment: bool,
    /// syntax piece ending in `{` followed by more text on the same line
    pub open_midline: bool,
    /// syntax piece starting with `}` that is not the first text of its line
    pub close_midline: bool,
}

#[derive(Clone, Debug)]
struct Frag {
    text: String,
    literal: bool,
    via_write: bool,
}

#[derive(Clone, Debug)]
enum MOp {
    Push(Frag),
    Indent(usize),
    Deindent(usize),
}

#[derive(Default, Clone)]
struct Line {
    segs: Vec<(String, bool)>, // text, literal
    started: bool,
    start_depth: usize,
    /// leading whitespace of the line that the buffer keeps (single-line first
    /// fragments are not trimmed)
    closes: bool,
    in_comment: bool,
    has_text: bool, // non-whitespace seen
    kept_ws: usize,
    counting_ws: bool,
    opened_piece: bool, // a syntax piece ended with `{` outside comment
}

struct Model {
    depth: usize,
    lines: Vec<Line>,
    cur: Line,
    mid_line: bool,
    /// a line-initial `}` at depth 0 was seen: outside the domain
    unbalanced: bool,
}

fn pieces(text: &str) -> (Vec<&str>, bool) {
    // replicate str::lines() for '\n'-only text, and whether the last piece
    // is followed by a newline
    if text.is_empty() {
        return (vec![], false);
    }
    let ends = text.ends_with('\n');
    let mut v: Vec<&str> = text.split('\n').collect();
    if ends {
        v.pop();
    }
    (v, ends)
}

#[derive(Default)]
struct Classes {
    split_lines: u32,
    multi_line: u32,
    literal_brace: u32,
    comment_brace: u32,
    closes: u32,
    opens: u32,
    removed: u32,
}

/// Turn raw ops into model ops, removing excluded shapes by construction and
/// keeping deindent within the model's depth.
fn build(ops: &[Op], ex: Exclude, cls: &mut Classes) -> Vec<MOp> {
    let mut out = vec![];
    // light-weight tracking that mirrors Model to make construction decisions
    let mut depth: usize = 0;
    let mut line_has_text = false;
    let mut line_in_comment = false;
    let mut line_opened = false; // a syntax piece ended with '{' already
    let mut mid_line = false;
    let mut pending_open = false;
    for op in ops {
        match op {
            Op::Indent(n) => {
                depth += *n as usize;
                out.push(MOp::Indent(*n as usize));
            }
            Op::Deindent(n) => {
                let n = (*n as usize).min(depth);
                if n > 0 {
                    depth -= n;
                    out.push(MOp::Deindent(n));
                }
            }
            Op::Push(toks, literal, via_write) => {
                let literal = *literal && !*via_write; // write! is always push_str
                let mut text = String::new();
                // assemble token by token so that exclusions can drop tokens
                let mut piece_start = true; // at start of a piece of this fragment
                let mut piece_text = String::new(); // current piece so far
                let multi = toks
                    .iter()
                    .enumerate()
                    .any(|(i, t)| TOKENS[*t as usize].contains('\n') && i + 1 < toks.len())
                    || toks
                        .iter()
                        .filter(|t| TOKENS[**t as usize].contains('\n'))
                        .map(|t| TOKENS[*t as usize].len())
                        .sum::<usize>()
                        > 1;
                for t in toks {
                    let tok = TOKENS[*t as usize];
                    if tok.contains('\n') {
                        for _ in 0..tok.len() {
                            // end of line: apply line-level effects to tracking
                            if pending_open {
                                depth += 1;
                                cls.opens += 1;
                            }
                            pending_open = false;
                            line_has_text = false;
                            line_in_comment = false;
                            line_opened = false;
                            mid_line = false;
                        }
                        text.push_str(tok);
                        piece_start = true;
                        piece_text.clear();
                        continue;
                    }
                    let is_ws = tok.trim().is_empty();
                    let first_piece_of_frag = !text.contains('\n');
                    if is_ws {
                        if ex.midline_ws
                            && multi
                            && first_piece_of_frag
                            && mid_line
                            && piece_text.is_empty()
                        {
                            cls.removed += 1;
                            continue;
                        }
                        text.push_str(tok);
                        piece_text.push_str(tok);
                        if !mid_line {
                            mid_line = true;
                        }
                        continue;
                    }
                    // non-whitespace token
                    let piece_blank = piece_text.trim().is_empty();
                    if !literal {
                        if ex.open_midline && line_opened && !line_in_comment {
                            // text after a fragment-final `{`... only a problem if a
                            // piece boundary sits between; conservatively drop
                            cls.removed += 1;
                            continue;
                        }
                        if tok.starts_with("//") && !line_in_comment {
                            if ex.midfrag_comment && !piece_blank {
                                cls.removed += 1;
                                continue;
                            }
                        }
                        if tok.starts_with('}') && !line_in_comment {
                            if line_has_text || (mid_line && piece_text.is_empty()) {
                                if ex.close_midline && piece_blank {
                                    cls.removed += 1;
                                    continue;
                                }
                            } else if depth == 0 {
                                // unbalanced close at depth 0: outside the domain
                                cls.removed += 1;
                                continue;
                            } else if piece_blank {
                                depth -= 1;
                                cls.closes += 1;
                            }
                        }
                    } else if ex.open_midline && line_opened && !line_in_comment {
                        cls.removed += 1;
                        continue;
                    }
                    text.push_str(tok);
                    piece_text.push_str(tok);
                    mid_line = true;
                    if !literal {
                        if tok.starts_with("//") {
                            line_in_comment = true;
                        }
                        if !line_in_comment {
                            pending_open = tok.ends_with('{');
                        }
                    } else {
                        if !line_in_comment {
                            pending_open = false;
                        }
                        if tok.contains('{') || tok.contains('}') || tok.contains("//") {
                            cls.literal_brace += 1;
                        }
                    }
                    if line_in_comment && (tok.contains('{') || tok.contains('}')) {
                        cls.comment_brace += 1;
                    }
                    line_has_text = true;
                    let _ = piece_start;
                    piece_start = false;
                }
                // fragment ends here: if it ended (trimmed) with a syntax `{`, the
                // implementation counts it now
                if !literal && !line_in_comment && pending_open && !text.ends_with('\n') {
                    line_opened = true;
                }
                if !text.is_empty() {
                    if mid_line && !text.ends_with('\n') {
                        cls.split_lines += 1;
                    }
                    if text.trim_end_matches('\n').contains('\n') {
                        cls.multi_line += 1;
                    }
                    out.push(MOp::Push(Frag {
                        text,
                        literal,
                        via_write: *via_write,
                    }));
                }
            }
        }
    }
    out
}

impl Model {
    fn new() -> Model {
        Model {
            depth: 0,
            lines: vec![],
            cur: Line::default(),
            mid_line: false,
            unbalanced: false,
        }
    }

    fn push(&mut self, f: &Frag) {
        let (ps, ends) = pieces(&f.text);
        let multi = ps.len() > 1;
        let n = ps.len();
        for (i, p) in ps.iter().enumerate() {
            if !self.cur.started {
                self.cur.started = true;
                self.cur.start_depth = self.depth;
                self.cur.counting_ws = true;
            }
            // leading whitespace kept by the buffer: single-line fragments only
            if self.cur.counting_ws {
                let lead = p.len() - p.trim_start().len();
                if !multi {
                    self.cur.kept_ws += lead;
                }
                if !p.trim().is_empty() {
                    self.cur.counting_ws = false;
                }
            }
            // syntax scanning, piece by piece but with LINE-level meaning
            if !p.trim().is_empty() {
                let t = p.trim();
                if !f.literal {
                    if !self.cur.has_text && !self.cur.in_comment {
                        if t.starts_with("//") {
                            self.cur.in_comment = true;
                        } else if t.starts_with('}') {
                            self.cur.closes = true;
                            if self.depth == 0 {
                                self.unbalanced = true;
                            }
                            self.depth = self.depth.saturating_sub(1);
                        }
                    }
                    // a comment may also start later in the line
                    if !self.cur.in_comment {
                        if let Some(pos) = find_comment(p) {
                            // text before the comment is code; the brace state at end
                            // of line is then "inside a comment"
                            let _ = pos;
                            self.cur.in_comment = true;
                        }
                    }
                }
                self.cur.has_text = true;
            }
            self.cur.segs.push((p.to_string(), f.literal));
            if i + 1 < n || ends {
                self.newline();
            }
        }
        self.mid_line = self.cur.started;
    }

    fn newline(&mut self) {
        // line-level open: last non-whitespace char is a syntax `{` outside comments
        let mut opens = false;
        if !self.cur.in_comment {
            for (text, lit) in self.cur.segs.iter().rev() {
                let t = text.trim_end();
                if t.is_empty() {
                    continue;
                }
                opens = !*lit && t.ends_with('{');
                break;
            }
        } else {
            // in a comment line: an open counts only if it precedes the comment; by the
            // statement a brace before a trailing comment is not at the line end.
            opens = false;
        }
        if opens {
            self.depth += 1;
        }
        let line = std::mem::take(&mut self.cur);
        self.lines.push(line);
    }
}

fn find_comment(piece: &str) -> Option<usize> {
    piece.find("//")
}

fn strip_lines(s: &str) -> String {
    s.split('\n').map(|l| l.trim_start()).collect::<Vec<_>>().join("\n")
}

fn run_case(mops: &[MOp]) -> CaseResult {
    let mut src = Source::default();
    let mut model = Model::new();
    let mut input = String::new();
    for op in mops {
        match op {
            MOp::Indent(n) => {
                src.indent(*n);
                model.depth += n;
            }
            MOp::Deindent(n) => {
                // precondition of deindent: never below zero (it is `indent -= amt`)
                let n = (*n).min(model.depth);
                if n > 0 {
                    src.deindent(n);
                    model.depth -= n;
                }
            }
            MOp::Push(f) => {
                if f.literal {
                    src.push_str_literal(&f.text);
                } else if f.via_write {
                    write!(src, "{}", f.text).unwrap();
                } else {
                    src.push_str(&f.text);
                }
                input.push_str(&f.text);
                model.push(f);
            }
        }
    }
    // probe: finish the current line, then print a probe line
    if model.cur.started {
        src.push_str_literal("\n");
        input.push('\n');
        model.push(&Frag {
            text: "\n".into(),
            literal: true,
            via_write: false,
        });
    }
    src.push_str("probe\n");
    input.push_str("probe\n");
    model.push(&Frag {
        text: "probe\n".into(),
        literal: false,
        via_write: false,
    });

    let out = src.as_str().to_string();
    if model.unbalanced {
        return Err(vcommon::Failure::new("out-of-domain", "unbalanced close at depth 0"));
    }
    // (a) text preservation
    let a = strip_lines(&out);
    let b = strip_lines(&input);
    ensure!(
        a == b,
        classify_text_loss(mops),
        "text not preserved: appended {:?} but buffer holds {:?}",
        input,
        out
    );
    // (b)+(c) indentation
    let out_lines: Vec<&str> = out.split('\n').collect();
    ensure!(
        out_lines.len() == model.lines.len() + 1,
        "line-count",
        "line count differs: buffer {} vs model {}",
        out_lines.len() - 1,
        model.lines.len()
    );
    for (i, (ol, ml)) in out_lines.iter().zip(model.lines.iter()).enumerate() {
        if ol.trim().is_empty() {
            continue;
        }
        let lead = ol.len() - ol.trim_start().len();
        let depth = if ml.closes {
            ml.start_depth.saturating_sub(1)
        } else {
            ml.start_depth
        };
        let expect = 2 * depth + ml.kept_ws;
        if lead != expect {
            let is_probe = i + 1 == model.lines.len();
            return Err(vcommon::Failure::new(
                classify_indent(mops, &model, i),
                format!(
                    "line {i} {:?} has {lead} leading whitespace bytes, expected {expect} (depth {depth}, kept {}){}; appended {:?}; buffer {:?}",
                    ol,
                    ml.kept_ws,
                    if is_probe { " [probe line: indentation not restored]" } else { "" },
                    input,
                    out
                ),
            ));
        }
    }
    Ok(())
}

/// Signature for a text-preservation failure: which shape is present.
fn classify_text_loss(mops: &[MOp]) -> String {
    let mut mid = false;
    for op in mops {
        if let MOp::Push(f) = op {
            let multi = pieces(&f.text).0.len() > 1;
            if mid && multi && f.text.starts_with([' ', '\t']) {
                return "text-loss multi-line fragment continuing a line loses its leading whitespace".into();
            }
            if mid && !f.literal && f.text.trim_start().starts_with('}') {
                return "text-loss mid-line `}` fragment eats two preceding spaces".into();
            }
            if !f.text.is_empty() {
                mid = !f.text.ends_with('\n');
            }
        }
    }
    "text-loss other".into()
}

fn classify_indent(mops: &[MOp], _model: &Model, _line: usize) -> String {
    // find the first shape (in order of appearance) that the implementation is
    // known to treat fragment-wise
    let mut line_has_text = false;
    let mut line_comment = false;
    let mut opened = false;
    let mut line_started = false;
    for op in mops {
        if let MOp::Push(f) = op {
            let (ps, ends) = pieces(&f.text);
            let n = ps.len();
            for (i, p) in ps.iter().enumerate() {
                let t = p.trim();
                let started_before = line_started;
                line_started = true;
                if !t.is_empty() {
                    if !f.literal {
                        if opened && !line_comment {
                            return "indent fragment ending in `{` is continued on the same line".into();
                        }
                        if !line_comment {
                            if let Some(pos) = t.find("//") {
                                if pos > 0 && (t.ends_with('{') || t[..pos].trim_end().ends_with('{')) {
                                    return "indent `{` next to a trailing line comment".into();
                                }
                                if pos > 0 {
                                    // comment starts mid-piece: later pieces are not seen as comment
                                    line_comment = true;
                                    line_has_text = true;
                                    continue;
                                }
                                line_comment = true;
                            }
                        }
                        if t.starts_with('}') && (line_has_text || started_before) && !line_comment {
                            return "indent fragment starting with `}` in the middle of a line".into();
                        }
                        if !line_comment && t.ends_with('{') {
                            opened = true;
                        }
                    } else if opened && !line_comment {
                        return "indent fragment ending in `{` is continued on the same line".into();
                    }
                    line_has_text = true;
                }
                if i + 1 < n || ends {
                    line_has_text = false;
                    line_comment = false;
                    opened = false;
                    line_started = false;
                }
            }
        }
    }
    "indent other".into()
}

fn prop_with(ex: Exclude) -> impl Fn(&Vec<Op>, &mut Obs) -> CaseResult + Sync {
    move |ops, obs| {
        let mut cls = Classes::default();
        let mops = build(ops, ex, &mut cls);
        if cls.split_lines > 0 {
            obs.label("split-line");
        }
        if cls.multi_line > 0 {
            obs.label("multi-line-fragment");
        }
        if cls.literal_brace > 0 {
            obs.label("literal-with-brace-or-comment");
        }
        if cls.comment_brace > 0 {
            obs.label("brace-in-comment");
        }
        if cls.removed > 0 {
            obs.label("tokens-removed-by-exclusion");
        }
        if cls.opens > 0 && cls.closes > 0 {
            obs.label("open-and-close");
        }
        if cls.opens > 0 && cls.closes > 0 && (cls.split_lines > 0 || cls.multi_line > 0) {
            obs.nontrivial_by(&format!("{mops:?}"));
        }
        if cls.opens > 0 && cls.closes > 0 && mops.len() <= 5 {
            obs.sample = Some(serde_json::json!(mops
                .iter()
                .map(|m| format!("{m:?}"))
                .collect::<Vec<_>>()));
        }
        match run_case(&mops) {
            Err(f) if f.sig == "out-of-domain" => {
                obs.label("discarded-unbalanced-close-at-depth-0");
                obs.nontrivial = None;
                Ok(())
            }
            r => r,
        }
    }
}

/// Minimal witnesses of the listed known findings (kept so that the evidence
/// shows whether each still reproduces).
fn witnesses() -> Vec<(&'static str, Vec<MOp>)> {
    let p = |t: &str| {
        MOp::Push(Frag {
            text: t.into(),
            literal: false,
            via_write: false,
        })
    };
    vec![
        ("midline_ws", vec![p("x"), p("  y\nz")]),
        ("midfrag_comment", vec![p("foo(); // {\n"), p("bar();\n")]),
        ("open_midline", vec![p("a {"), p(" b }\n"), p("c\n")]),
        ("close_midline", vec![p("{\n"), p("a  "), p("}\n")]),
    ]
}

pub fn run(check: &mut Check) {
    check.rule = "histories vec(op, 0..14): push_str / push_str_literal / write! of 0..7 tokens from {`{`,`}`,`//`,blank,newline,code words,`{}`,`};`,string}, indent/deindent(1..2); \
        unbalanced `}` at depth 0 and deindent below 0 are outside the domain (removed by construction); \
        non-trivial = history with a line-final `{` and a line-initial `}` AND a fragment that splits a line or spans lines; distinct by hash of the constructed history"
        .into();
    check.assumptions.push("newlines are '\\n' only (callers never pass '\\r')".into());
    check.assumptions.push("`//` tokens denote real line comments (no `//` inside string literals is generated)".into());

    // exclusions follow the known-findings file
    let ex = Exclude {
        midline_ws: check.known.has("text-loss multi-line fragment continuing a line loses its leading whitespace"),
        midfrag_comment: check.known.has("indent `{` next to a trailing line comment"),
        open_midline: check.known.has("indent fragment ending in `{` is continued on the same line"),
        close_midline: check.known.has("indent fragment starting with `}` in the middle of a line")
            || check.known.has("text-loss mid-line `}` fragment eats two preceding spaces"),
    };
    check.extra.insert(
        "excluded_by_construction".into(),
        serde_json::json!(format!("{ex:?}")),
    );

    if check.is_replay() {
        // replay files hold raw ops; run them with no exclusion (strict)
        check.prop(
            "history",
            || proptest::collection::vec(op(), 0..14),
            1,
            prop_with(Exclude::default()),
        );
        check.prop(
            "history-excl",
            || proptest::collection::vec(op(), 0..14),
            1,
            prop_with(ex),
        );
        return;
    }

    for (name, w) in witnesses() {
        let r = run_case(&w);
        check.set_sub_info(
            &format!("witness:{name}"),
            serde_json::json!(match &r {
                Ok(()) => "passes".to_string(),
                Err(f) => format!("fails: {}", f.sig),
            }),
        );
        // route through triage so that unlisted ones are violations
        let shown: Vec<String> = w.iter().map(|m| format!("{m:?}")).collect();
        check.case(&format!("witness-{name}"), &shown, |_, _| r.clone());
    }

    let n = check.tier.pick(60_000, 3_000_000);
    check.prop(
        "history-excl",
        || proptest::collection::vec(op(), 0..14),
        n,
        prop_with(ex),
    );
}
